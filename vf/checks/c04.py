"""C04 — all descriptions of one operation agree (protocol coherence)."""
from __future__ import annotations

import numpy as np
from hypothesis import strategies as st

import cirq
from vf.core import Reject, SubCheck, Violation
from vf.gen import gates as G
from vf.gen import ops04 as O
from vf.prng import ScriptedPRNG
from vf.ref import linalg as L

RULE = (
    "Hypothesis draws an operation recipe: a gate of the shared gate table (all unitary, qudit and channel families, plus "
    "local multi-qubit CliffordGate (constants + from_op_list) / KrausChannel / MixedUnitaryChannel / StatePreparationChannel / BooleanHamiltonianGate / Pauli singletons / "
    "qudit ResetChannel / qudit X,Z rows) with special+continuous parameters, "
    "placed on Line/Grid/Named qubits or qids at drawn (non-ascending, non-adjacent) positions, wrapped 0-3 times by "
    "with_tags, with_qubits(permutation), controlled_by / ControlledOperation / gate.controlled / ControlledGate with "
    "ProductOfSums, SumOfProducts and qudit control values (control qids of dimension 2-6 with arbitrary non-empty level "
    "subsets: unevenly spaced, non-contiguous, full, given unsorted/duplicated), cirq.inverse, **t, ParallelGate, CircuitOperation(repetitions, "
    "extra ops). An independent numpy reference computes what the stack means from the bare gate's matrices (block "
    "matrix over control values, dagger, integer matrix power, tensor power, ordered product). Each sub-check then asks "
    "Cirq for one family of descriptions of the *wrapped* value (operation and, where it exists, its gate) and compares: "
    "unitary; apply_unitary on drawn layouts (0-3 extra axes of dim 1-3, permuted axes, axes larger than the gate's "
    "dimension, explicit `subspaces` incl. descending/strided ones, vector/matrix targets, C/F/strided/reversed/"
    "transposed memory for target and buffer, complex64/128, apply_unitaries, allow_decompose=False); decompose_once / "
    "recursive decompose with several keep predicates / apply_unitaries of the decomposition; kraus, mixture, "
    "superoperator, apply_channel on drawn left/right axes with batch axes; act_on for state-vector (scripted PRNG), "
    "density-matrix, CH-form and tableau states; predicate/accessor consistency. Non-trivial: the value has >= 1 "
    "applied wrapper, or the layout / qubit order is not the contiguous ascending default one. Distinct = recipe hash."
)
ASSUMPTIONS = [
    "cirq.unitary / cirq.mixture / cirq.kraus of the *bare library gate* on canonical qubits are taken as given (C03 "
    "compares those with the documented closed forms); everything a wrapper, a layout, a decomposition, a channel view or "
    "a simulator state adds is recomputed independently with numpy",
    "fractional `**t` has no independent reference (branch choice): the reference is re-read from cirq.unitary of the "
    "powered value and only the agreement of its other descriptions is checked (label pow_frac); integer powers use "
    "matrix_power",
    "decompositions are required to be exact (global phase included), as calibrated in DESIGN section 4; tolerances: "
    "1e-7 for matrices/tensors in complex128, 3e-5 (x max |entry|) for complex64 tensors, 2e-6*(1+n_ops/20) for products "
    "of decompositions (analytic synthesis is sqrt(eps)-precise), 1e-6 for superoperators/density matrices",
    "act_on for stabilizer states may raise the documented TypeError (counted as stab_unsupported, not a failure)",
]
SENSITIVITY = [  # keep in sync with mutants/c04.json (all KILLED by the quick tier)
    "CXPow apply_unitary slices swapped",
    "ZPow apply_unitary phases the slice below",
    "ControlledOperation._extend_matrix applies control values to reversed controls",
    "SWAP fast path exchanges 01 with 11",
    "HPow fast path missing 1/sqrt2",
    "descending subspaces treated as ascending",
    "apply_channel forgets the final conjugation",
    "kraus from mixture drops sqrt",
    "control values AND puts the other operand first",
    "ParallelGate unitary kron of transposed copy",
    "CircuitOperation._unitary_ one repetition short",
    "state-vector mixture strategy applies the neighbouring branch",
    "ControlledOperation apply_unitary treats control value 0 as any",
    "inverse composite gate keeps the original order",
    "density-matrix state reverses the right axes",
    "CCZ decomposition uses S instead of T",
    "stabilizer state applies CX with control and target exchanged",
    "apply_unitaries forgets to swap the buffer",
    "CliffordGate._pad_tableau sorts the target axes",
]

TOL = 1e-7
# analytic decompositions (multi-controlled rotations, KAK, QSD) go through arccos/sqrt of near-1 numbers: their
# precision is ~sqrt(eps) per synthesised gate, not eps
TOL_DECOMP = 2e-6


# ======================================================================================= common helpers


def _dims(qubits):
    return tuple(q.dimension for q in qubits)


def _build(r):
    try:
        return O.build(r)
    except O.WrapperContract as e:
        raise Violation(f"wrapper contract: {e}")


def _desc(b):
    return f"family={b.family} wrappers={'+'.join(b.applied) or '-'} op={b.op!r}"[:700]


def _target(b, lvl):
    """-> (value, qubits, level actually used)."""
    op = b.op
    if lvl == "gate" and op.gate is not None:
        return op.gate, tuple(op.qubits), "gate"
    return op, tuple(op.qubits), "op"


def _axes_in_ref(b, qubits):
    if not set(qubits) <= set(b.ref.qubits):
        raise Violation(f"operation acts on qubits outside those it was given\n{_desc(b)}")
    return [b.ref.qubits.index(q) for q in qubits]


def _checked_unitary(b, val, qubits, what):
    """cirq.unitary(val) compared with the wrapper reference; returns it (None if the reference is not unitary)."""
    ref = b.ref
    u = cirq.unitary(val, None)
    if not ref.is_unitary:
        if u is not None:
            raise Violation(f"cirq.unitary({what}) returns a matrix for a non-unitary channel\n{_desc(b)}")
        return None
    if u is None:
        return None
    d = L.dim(_dims(qubits))
    if u.shape != (d, d):
        raise Violation(f"cirq.unitary({what}) has shape {u.shape}, qid shape gives {(d, d)}\n{_desc(b)}")
    e = L.max_abs_diff(L.embed(u, _axes_in_ref(b, qubits), ref.shape), ref.unitary)
    if not e <= TOL:
        raise Violation(f"cirq.unitary({what}) differs from the wrapper-stack reference by {e:.3g} (tol {TOL:.0e})\n{_desc(b)}")
    return np.asarray(u, dtype=complex)


def _ref_kraus_on(b, qubits):
    """Reference Kraus operators over ``qubits`` order (requires the reference to be identity off ``qubits``)."""
    ref = b.ref
    if set(qubits) == set(ref.qubits):
        return ref.kraus_on(qubits)
    # PauliString drops identity qubits: reduce the reference to the remaining ones (it must be I there)
    rest = [q for q in ref.qubits if q not in qubits]
    full = ref.kraus_on(list(qubits) + rest)
    d = L.dim(_dims(qubits))
    r = L.dim(_dims(rest))
    out = []
    for k in full:
        t = k.reshape(d, r, d, r)
        blk = t[:, 0, :, 0]
        if L.max_abs_diff(np.einsum("ab,cd->acbd", blk, np.eye(r)).reshape(d * r, d * r), k) > 1e-9:
            raise Violation(f"operation dropped a qubit on which the gate does not act as identity\n{_desc(b)}")
        out.append(blk)
    return out


def _base_labels(b, lvl):
    ws = sorted(set(b.applied))
    lab = {"family": b.family, "depth": min(len(b.applied), 3), "level": lvl, "wrapped": bool(b.applied)}
    for w in ws:
        lab["w_" + w] = True
    for s in b.skipped:
        lab["skip_" + s.replace(":", "_")] = True
    for f in sorted(b.ctrl_feats):
        lab["ctrl_" + f] = True
    lab["qudit"] = any(q.dimension != 2 for q in b.op.qubits)
    return lab


def _odd_order(qubits):
    """qubit order is not ascending-adjacent line order."""
    qs = list(qubits)
    return len(qs) >= 2 and (qs != sorted(qs) or any(not (hasattr(a, "is_adjacent") and a.is_adjacent(c)) for a, c in zip(qs, qs[1:])))


# ======================================================================================= A. apply_unitary layouts


_UPS = [0, 0, 0, 0, 1, 2, 4, 8, 3, 5, 6, 12, 31]


def _layouts(n=2):
    """Few draws per layout (Hypothesis draws dominate the cost): permutations / subsets are integer codes."""
    one = st.fixed_dictionaries({
        "mode": st.sampled_from(["gen", "gen", "gen", "gen", "gen", "default", "for_unitary"]),
        "call": st.sampled_from(["one", "one", "one", "many", "nodecomp"]),
        "x": st.integers(0, 124),            # extra axes: base-5 digits, 0 = none, 1..4 -> dims 1,2,2,3
        "o": st.integers(0, 40319),          # axis order (Lehmer code)
        "up": st.sampled_from(_UPS),         # bit i: axis of op qubit i is one level larger than the gate's dimension
        "s": st.one_of(st.none(), st.none(), st.integers(0, 10 ** 6)),  # explicit subspaces (code) or None
        "m": st.integers(0, 35),             # memory layouts of target and buffer
        "c64": st.sampled_from([False, False, False, True]),
        "vals": st.lists(G.small_floats(), min_size=2, max_size=2),
    })
    return st.lists(one, min_size=1, max_size=n)


def _lehmer(code, n):
    pool = list(range(n))
    out = []
    code = int(code)
    for i in range(n):
        out.append(pool.pop(code % len(pool)))
        code //= (n - i)
    return out


def _extras(code, limit=3):
    out = []
    code = int(code)
    while code and len(out) < limit:
        dgt = code % 5
        code //= 5
        if dgt:
            out.append([1, 2, 2, 3][dgt - 1])
    return out


def _subspace_choices(d, dim):
    out = []
    for start in range(dim):
        for step in range(-(dim - 1), dim):
            if step == 0 and d > 1:
                continue
            last = start + step * (d - 1)
            if 0 <= last < dim:
                lv = tuple(start + step * i for i in range(d))
                if lv not in out:
                    out.append(lv)
            if d == 1:
                break
    return out


def _layout_case(dims, lay):
    """-> dict(tshape, axes, levels, subspaces or None)."""
    k = len(dims)
    extra = _extras(lay.get("x", 0))
    upb = int(lay.get("up", 0))
    adims = [dims[i] + ((upb >> i) & 1) for i in range(k)]
    while L.dim(adims) * L.dim(extra) > 4096 and extra:  # keep tensors small
        extra.pop()
    if L.dim(adims) > 2048:
        adims = list(dims)
    n = k + len(extra)
    order = _lehmer(lay.get("o", 0), n)  # slot j of the tensor holds logical axis order[j]
    logical = adims + extra
    tshape = [logical[order[j]] for j in range(n)]
    axes = [order.index(i) for i in range(k)]
    subs = None
    levels = [tuple(range(dims[i])) for i in range(k)]
    if lay.get("s") is not None and k:
        code = int(lay["s"])
        subs = []
        for i in range(k):
            ch = _subspace_choices(dims[i], adims[i])
            subs.append(ch[code % len(ch)])
            code //= 7
        levels = list(subs)
    return {"tshape": tuple(tshape), "axes": axes, "levels": levels, "subs": subs, "extra": extra,
            "up": any(a != d for a, d in zip(adims, dims))}


def _run_layout(b, val, qubits, lvl, u, lay):
    dims = _dims(qubits)
    k = len(dims)
    mode = lay.get("mode", "gen")
    lab = {}
    if mode in ("default", "for_unitary"):
        args = cirq.ApplyUnitaryArgs.default(qid_shape=dims) if mode == "default" else cirq.ApplyUnitaryArgs.for_unitary(qid_shape=dims)
        before = args.target_tensor.copy()
        res = cirq.apply_unitary(val, args)
        want = O.ref_apply(u, before, list(range(k)), [tuple(range(d)) for d in dims])
        _cmp_tensor(b, res, want, TOL, f"apply_unitary({lvl}, ApplyUnitaryArgs.{mode})")
        return {"lay_" + mode: True}
    c = _layout_case(dims, lay)
    dt = np.complex64 if lay.get("c64") else np.complex128
    n = L.dim(c["tshape"])
    data = O.content(lay.get("vals", []), n, salt=1.0).reshape(c["tshape"]).astype(dt)
    mem, bmem = O.MEM[int(lay.get("m", 0)) % 6], O.MEM[(int(lay.get("m", 0)) // 6) % 6]
    target = O.with_layout(data, mem)
    buf = O.with_layout(np.full(c["tshape"], np.nan, dtype=dt), bmem)
    tol = 3e-5 * max(1.0, float(np.max(np.abs(data)))) if dt == np.complex64 else TOL * max(1.0, float(np.max(np.abs(data))))
    want = O.ref_apply(u, data.astype(complex), c["axes"], c["levels"])
    call = lay.get("call", "one")
    if c["subs"] is not None:
        call = "one" if call == "many" else call
        args = cirq.ApplyUnitaryArgs(target, buf, c["axes"], subspaces=c["subs"])
    else:
        args = cirq.ApplyUnitaryArgs(target, buf, c["axes"])
    what = f"apply_unitary({lvl}, axes={c['axes']} of shape {c['tshape']}, subspaces={c['subs']}, mem={mem}/{bmem}, {dt.__name__}, call={call})"
    if call == "many" and lvl == "op":
        res = cirq.apply_unitaries([val], qubits, args)
    elif call == "nodecomp":
        res = cirq.apply_unitary(val, args, None, allow_decompose=False)
        if res is None:
            if L.max_abs_diff(np.asarray(target), data) != 0:
                raise Violation(f"apply_unitary(allow_decompose=False) returned the default but mutated target_tensor\n{what}\n{_desc(b)}")
            return {"lay_nodecomp_default": True}
    else:
        res = cirq.apply_unitary(val, args)
    _cmp_tensor(b, res, want, tol, what)
    lab["lay_extra"] = bool(c["extra"])
    lab["lay_permuted"] = c["axes"] != list(range(k)) and k > 0
    lab["lay_subspaces"] = c["subs"] is not None
    lab["lay_sub_desc"] = c["subs"] is not None and any(len(s) > 1 and s[1] < s[0] for s in c["subs"])
    lab["lay_bigger_axis"] = c["up"]
    lab["lay_mem_odd"] = mem != "C" or bmem != "C"
    lab["lay_c64"] = dt == np.complex64
    lab["lay_returned_buffer"] = res is buf
    lab["lay_returned_new"] = res is not buf and res is not target
    lab["lay_call_" + call] = True
    return lab


def _cmp_tensor(b, got, want, tol, what):
    if not isinstance(got, np.ndarray):
        raise Violation(f"{what.split('(')[0]} returned {type(got).__name__} instead of an array\n{what}\n{_desc(b)}")
    if got.shape != want.shape:
        raise Violation(f"{what.split('(')[0]} result has shape {got.shape}, expected {want.shape}\n{what}\n{_desc(b)}")
    e = float(np.max(np.abs(np.asarray(got, dtype=complex) - want))) if want.size else 0.0
    if not e <= tol:  # also catches NaN
        raise Violation(f"{what.split('(')[0]} result differs from the matrix applied to the tensor by {e:.3g} (tol {tol:.1g})\n{what}\n{_desc(b)}")


def _force_unit_exponent(t):
    """Most fast paths only fire at exponent == 1: give that value real weight for the eigen families."""
    r, i = t
    fam = G.FAMILIES.get(r["g"][0])
    if fam is not None and "eigen" in fam.tags and i < 2:
        r = dict(r, g=[r["g"][0], dict(r["g"][1], e=1.0 if i == 0 else -1.0)])
        if i == 1:
            r["g"][1]["e"] = 1.0 if r["g"][1].get("s", 0) else 3.0
    return r


def _apply_case(pred, kinds=O.ALL_WRAPPERS, nlay=3, force=6):
    ops = st.tuples(O.op_recipes(pred, kinds=kinds), st.integers(0, force)).map(_force_unit_exponent)
    return st.fixed_dictionaries({"op": ops, "lvl": st.sampled_from(["op", "op", "gate"]), "lay": _layouts(nlay)})


def oracle_apply(r):
    b = _build(r["op"])
    val, qubits, lvl = _target(b, r.get("lvl", "op"))
    u = _checked_unitary(b, val, qubits, lvl)
    lab = _base_labels(b, lvl)
    if u is None:
        if b.ref.is_unitary:
            lab.update({"nontrivial": False, "cirq_has_no_unitary": True})
            return lab
        # non-unitary value: default must be returned and the target left alone
        dims = _dims(qubits)
        data = O.content([0.1], L.dim(dims), 2.0).reshape(dims)
        t = data.copy()
        res = cirq.apply_unitary(val, cirq.ApplyUnitaryArgs(t, np.empty_like(t), range(len(dims))), None)
        if res is not None:
            raise Violation(f"apply_unitary returned a result for a non-unitary value\n{_desc(b)}")
        if L.max_abs_diff(t, data) != 0:
            raise Violation(f"apply_unitary returned the default but mutated target_tensor\n{_desc(b)}")
        lab.update({"nontrivial": False, "non_unitary_default": True})
        return lab
    odd = False
    for lay in r.get("lay", []):
        if not isinstance(lay, dict):
            continue
        ll = _run_layout(b, val, qubits, lvl, u, lay)
        odd = odd or any(ll.get(x) for x in ("lay_extra", "lay_permuted", "lay_subspaces", "lay_bigger_axis", "lay_mem_odd"))
        for kk, vv in ll.items():
            if vv:
                lab[kk] = True
    lab["odd_layout"] = odd
    gate_ = val if lvl == "gate" else val.gate
    lab["kernel"] = hasattr(gate_ if gate_ is not None else val.untagged, "_apply_unitary_")
    lab["nontrivial"] = bool(b.applied) or (odd and lab["kernel"])
    return lab


# ======================================================================================= B. decompositions


KEEPS = ["full", "le2u", "1q", "cz"]


def _keep_fn(mode):
    if mode == "le2u":
        return lambda o: len(o.qubits) <= 2 and cirq.has_unitary(o)
    if mode == "1q":
        return lambda o: len(o.qubits) <= 1
    if mode == "cz":
        return lambda o: len(o.qubits) <= 1 or isinstance(o.gate, cirq.CZPowGate)
    return None


def _ops_effect(b, ops, qubits, unitary_expected):
    """Reference composition of ``ops`` (their own cirq.unitary / cirq.kraus taken per op) over ``qubits`` + ancillas.

    -> ("u", matrix) or ("s", superoperator) or (None, reason)"""
    ops = list(ops)
    anc = sorted({q for o in ops for q in o.qubits} - set(qubits))
    reg = anc + list(qubits)
    shape = _dims(reg)
    if L.dim(shape) > 256:
        return None, "too_big"
    if unitary_expected:
        us = []
        for o in ops:
            m = cirq.unitary(o, None)
            if m is None:
                return None, "nonunitary_part"
            us.append((m, [reg.index(q) for q in o.qubits]))
        full = L.circuit_unitary(us, shape)
        d = L.dim(_dims(qubits))
        if anc:
            blk = full[:d, :d]
            if not L.is_unitary(blk, 1e-6):
                raise Violation(f"decomposition with ancillas does not return clean ancillas to |0>\n{_desc(b)}")
            return "u", blk
        return "u", full
    if anc or L.dim(shape) > 16:
        return None, "channel_too_big"
    s = np.eye(L.dim(shape) ** 2, dtype=complex)
    for o in ops:
        ks = cirq.kraus(o, None)
        if ks is None:
            return None, "part_without_kraus"
        ax = [reg.index(q) for q in o.qubits]
        s = L.kraus_to_superop([L.embed(k, ax, shape) for k in ks]) @ s
    return "s", s


def _cmp_effect(b, kind, got, u, sup, nops, what):
    tol = TOL_DECOMP * (1 + nops / 20.0)
    if kind == "u":
        e = L.max_abs_diff(got, u)
        if not e <= tol:
            ph = L.diff_up_to_phase(got, u)
            raise Violation(f"{what} product differs from cirq.unitary by {e:.3g} (up to global phase: {ph:.3g}; tol {tol:.1g}, {nops} ops)\n{_desc(b)}")
    else:
        e = L.max_abs_diff(got, sup)
        if not e <= 10 * tol:
            raise Violation(f"{what} composed channel differs from the reference superoperator by {e:.3g} ({nops} ops)\n{_desc(b)}")


def _decomp_case(pred, kinds=O.ALL_WRAPPERS):
    return st.fixed_dictionaries({"op": O.op_recipes(pred, kinds=kinds), "lvl": st.sampled_from(["op", "op", "gate"]),
                                  "keep": st.sampled_from(KEEPS), "ctx": st.booleans()})


def oracle_decompose(r):
    b = _build(r["op"])
    val, qubits, lvl = _target(b, r.get("lvl", "op"))
    lab = _base_labels(b, lvl)
    u = _checked_unitary(b, val, qubits, lvl)
    is_u = b.ref.is_unitary
    if is_u and u is None:
        lab.update({"nontrivial": False, "cirq_has_no_unitary": True})
        return lab
    sup = None
    if not is_u:
        if L.dim(_dims(qubits)) > 16:
            raise Reject("channel register too big for a superoperator comparison")
        sup = L.kraus_to_superop(_ref_kraus_on(b, qubits))
    ctx = cirq.DecompositionContext(cirq.SimpleQubitManager()) if r.get("ctx") else None
    # --- one level
    if lvl == "gate":
        d1 = cirq.decompose_once_with_qubits(val, qubits, None) if ctx is None else \
            cirq.decompose_once_with_qubits(val, qubits, None, context=ctx)
    else:
        d1 = cirq.decompose_once(val, None) if ctx is None else cirq.decompose_once(val, None, context=ctx)
    lab["odd_qubit_order"] = _odd_order(qubits)
    if d1 is None:
        lab.update({"nontrivial": False, "no_decomposition": True})
        if lvl == "op":
            # recursive decompose of something that cannot be decomposed is the thing itself
            rec = cirq.decompose(val)
            if len(rec) != 1 or rec[0] != val:
                raise Violation(f"cirq.decompose of a non-decomposable operation returned {len(rec)} other operations\n{_desc(b)}")
        return lab
    d1 = list(d1)
    kind, got = _ops_effect(b, d1, qubits, is_u)
    if kind is None:
        lab["decomp_" + got] = True
    else:
        _cmp_effect(b, kind, got, u, sup, len(d1), f"decompose_once({lvl})")
        lab["once_checked"] = True
        lab["once_ancilla"] = bool({q for o in d1 for q in o.qubits} - set(qubits))
    if is_u and kind == "u" and not lab.get("once_ancilla"):
        # the same list through cirq.apply_unitaries on a matrix-shaped target
        dims = _dims(qubits)
        res = cirq.apply_unitaries(d1, qubits, cirq.ApplyUnitaryArgs.for_unitary(qid_shape=dims), None)
        if res is None:
            raise Violation(f"apply_unitaries(decompose_once) returned the default although every part has a unitary\n{_desc(b)}")
        dd = L.dim(dims)
        _cmp_effect(b, "u", np.asarray(res).reshape(dd, dd), u, None, len(d1), "apply_unitaries(decompose_once)")
    # --- recursive
    if lvl == "op" and (b.ctrl_total >= 3 or len(qubits) >= 5):
        lab["rec_skipped_many_controls"] = True  # multi-controlled synthesis is O(n^2) gates and seconds per case
    elif lvl == "op":
        mode = r.get("keep", "full")
        keep = _keep_fn(mode)
        kw = {} if ctx is None else {"context": ctx}
        rec = cirq.decompose(val, **kw) if keep is None else cirq.decompose(val, keep=keep, on_stuck_raise=None, **kw)
        rec = list(rec)
        for o in rec:
            if keep is not None and keep(o):
                continue
            if cirq.decompose_once(o, None) is not None:
                raise Violation(f"cirq.decompose(keep={mode}) left a decomposable operation that keep() rejects\n{o!r}\n{_desc(b)}"[:900])
        kind, got = _ops_effect(b, rec, qubits, is_u)
        if kind is None:
            lab["rec_" + got] = True
        else:
            _cmp_effect(b, kind, got, u, sup, len(rec), f"recursive decompose(keep={mode})")
            lab["rec_checked"] = True
            lab["rec_ops"] = "1" if len(rec) <= 1 else "2-9" if len(rec) < 10 else "10-99" if len(rec) < 100 else "100+"
            lab["keep_" + mode] = True
    lab["nontrivial"] = bool(lab.get("once_checked")) and (bool(b.applied) or lab["odd_qubit_order"])
    return lab


# ======================================================================================= C. channel descriptions


def _channel_case(pred, kinds=O.ALL_WRAPPERS):
    ops = st.one_of(O.op_recipes(pred, kinds=kinds, max_arity=2), O.op_recipes(lambda f: pred(f) and not f.unitary, kinds=kinds, max_arity=2))
    return st.fixed_dictionaries({"op": ops, "lvl": st.sampled_from(["op", "op", "gate"]),
                                  "x": st.integers(0, 24), "o": st.integers(0, 40319), "m": st.integers(0, 1295),
                                  "c64": st.sampled_from([False, False, True]),
                                  "vals": st.lists(G.small_floats(), min_size=2, max_size=2)})


def oracle_channel(r):
    b = _build(r["op"])
    val, qubits, lvl = _target(b, r.get("lvl", "op"))
    lab = _base_labels(b, lvl)
    dims = _dims(qubits)
    d = L.dim(dims)
    if d > 16:
        raise Reject("register too big for superoperators")
    ref_k = _ref_kraus_on(b, qubits)
    sup = L.kraus_to_superop(ref_k)
    tol = 1e-6
    _checked_unitary(b, val, qubits, lvl)
    # --- kraus
    ks = cirq.kraus(val, None)
    if ks is not None:
        ks = [np.asarray(k) for k in ks]
        for k in ks:
            if k.shape != (d, d):
                raise Violation(f"cirq.kraus({lvl}) operator has shape {k.shape}, qid shape gives {(d, d)}\n{_desc(b)}")
        if not L.is_trace_preserving(ks, 1e-6):
            raise Violation(f"cirq.kraus({lvl}) is not trace preserving\n{_desc(b)}")
        e = L.max_abs_diff(L.kraus_to_superop(ks), sup)
        if not e <= tol:
            raise Violation(f"cirq.kraus({lvl}) describes a different channel than the reference: superoperators differ by {e:.3g}\n{_desc(b)}")
        e = L.max_abs_diff(cirq.kraus_to_superoperator(ks), sup)
        if not e <= tol:
            raise Violation(f"cirq.kraus_to_superoperator(cirq.kraus({lvl})) differs from sum K (x) K* by {e:.3g}\n{_desc(b)}")
        e = L.max_abs_diff(cirq.operation_to_superoperator(val), sup)
        if not e <= tol:
            raise Violation(f"cirq.operation_to_superoperator({lvl}) differs from the reference superoperator by {e:.3g}\n{_desc(b)}")
        lab["kraus_checked"] = True
    else:
        lab["no_kraus"] = True
    # --- mixture
    mx = cirq.mixture(val, None)
    if mx is not None:
        ps = [float(p) for p, _ in mx]
        if min(ps) < -1e-9 or abs(sum(ps) - 1) > 1e-6:
            raise Violation(f"cirq.mixture({lvl}) probabilities {ps} are not a distribution\n{_desc(b)}"[:600])
        for _, m in mx:
            m = np.asarray(m)
            if m.shape != (d, d) or not L.is_unitary(m, 1e-6):
                raise Violation(f"cirq.mixture({lvl}) contains a non-unitary component (shape {m.shape})\n{_desc(b)}")
        e = L.max_abs_diff(sum(p * np.kron(np.asarray(m), np.asarray(m).conj()) for p, m in mx), sup)
        if not e <= tol:
            raise Violation(f"cirq.mixture({lvl}) describes a different channel than the reference: superoperators differ by {e:.3g}\n{_desc(b)}")
        if b.ref.mix is None:
            lab["mixture_of_nonmixture_ref"] = True
        lab["mixture_checked"] = True
    else:
        lab["no_mixture"] = True
    # --- apply_channel on a drawn tensor
    k = len(dims)
    extra = _extras(r.get("x", 0), 2)
    n = 2 * k + len(extra)
    order = _lehmer(r.get("o", 0), n)
    logical = list(dims) + list(dims) + extra
    tshape = tuple(logical[order[j]] for j in range(n))
    left = [order.index(i) for i in range(k)]
    right = [order.index(k + i) for i in range(k)]
    dt = np.complex64 if r.get("c64") else np.complex128
    data = O.content(r.get("vals", []), L.dim(tshape), salt=3.0).reshape(tshape).astype(dt)
    mcode = int(r.get("m", 0))
    mem = [O.MEM[(mcode // 6 ** i) % 6] for i in range(4)]
    target = O.with_layout(data, mem[0])
    bufs = [O.with_layout(np.full(tshape, np.nan, dtype=dt), m) for m in mem[1:4]]
    args = cirq.ApplyChannelArgs(target, bufs[0], bufs[1], bufs[2], left, right)
    res = cirq.apply_channel(val, args, None)
    what = f"apply_channel({lvl}, left={left}, right={right}, shape={tshape}, mem={mem}, {dt.__name__})"
    if res is None:
        if L.max_abs_diff(np.asarray(target), data) != 0:
            raise Violation(f"apply_channel returned the default but mutated target_tensor\n{what}\n{_desc(b)}")
        if ks is not None:
            raise Violation(f"apply_channel returned the default for a value that has Kraus operators\n{what}\n{_desc(b)}")
        lab["apply_channel_default"] = True
    else:
        if res is bufs[1] or res is bufs[2]:
            raise Violation(f"apply_channel returned an auxiliary buffer\n{what}\n{_desc(b)}")
        scale = max(1.0, float(np.max(np.abs(data))))
        want = O.ref_channel(ref_k, data.astype(complex), left, right)
        _cmp_tensor(b, res, want, (1e-4 if dt == np.complex64 else 1e-6) * scale, what)
        lab["apply_channel_checked"] = True
        lab["ch_returned_out_buffer"] = res is bufs[0]
    lab["ch_permuted"] = left + right != list(range(2 * k))
    lab["ref_unitary"] = b.ref.is_unitary
    lab["ref_mixture"] = b.ref.mix is not None and not b.ref.is_unitary
    lab["ref_kraus_only"] = b.ref.mix is None
    lab["nontrivial"] = bool(lab.get("apply_channel_checked")) and (bool(b.applied) or lab["ch_permuted"])
    return lab


# ======================================================================================= D. act_on


_CLIFF = [("H", 1), ("S", 1), ("CX", 2), ("X", 1), ("CZ", 2)]
_CLIFF_M = {"H": O._H, "S": O._S, "CX": O._CX, "X": L.PX, "CZ": np.diag([1, 1, 1, -1]).astype(complex)}


def _acton_case(pred, kinds=O.ALL_WRAPPERS):
    ops = st.one_of(O.op_recipes(pred, kinds=kinds), O.op_recipes(pred, kinds=kinds), O.op_recipes(pred, kinds=kinds),
                    O.op_recipes(lambda f: f.name == "CliffordN", kinds=("tag", "perm", "inv", "pow", "circ")))
    return st.fixed_dictionaries({
        "op": ops, "lvl": st.sampled_from(["op", "op", "gate"]),
        "idle": st.integers(0, 8),   # base-3 digits: 0 none, 1 -> qubit, 2 -> qutrit (two idle wires at most)
        "o": st.integers(0, 5039), "vals": st.lists(G.small_floats(), min_size=2, max_size=2),
        "pick": st.integers(0, 63), "u": st.floats(0, 1, exclude_max=True).map(lambda x: round(x, 4)),
        "prefix": st.lists(st.integers(0, 179), max_size=6),   # clifford prefix: gate + 2 wire indices per code
        "basis": st.integers(0, 31)})


def _register(b, qubits, r):
    """qubits of the simulation state: the op's qubits + idle ones, in a drawn order."""
    kind = r["op"].get("qk", "line")
    code = int(r.get("idle", 0))
    idle = []
    for i in range(2):
        dgt = (code // 3 ** i) % 3
        if dgt:
            idle.append(O.mkq(kind, 20 + i, 2 if dgt == 1 else 3))
    reg = list(qubits) + idle
    while L.dim(_dims(reg)) > 128 and len(reg) > len(qubits):
        reg.pop()
    order = _lehmer(r.get("o", 0), len(reg))
    return [reg[i] for i in order]


class _PickPRNG(ScriptedPRNG):
    """Scripted PRNG whose script entries are taken modulo the number of outcomes and moved to an admissible one."""

    def _branch(self, probs):
        probs = np.asarray(probs, dtype=float)
        n = len(probs)
        k = int(self.script[self.pos]) % n if self.pos < len(self.script) else 0
        for _ in range(n):
            if probs[k] > 1e-9:
                break
            k = (k + 1) % n
        if self.pos >= len(self.script):
            self.script.append(k)
        self.pos += 1
        self.log.append({"p": probs.copy(), "k": k})
        return k


def _act(val, state, qubits, lvl):
    if lvl == "gate":
        cirq.act_on(val, state, qubits)
    else:
        cirq.act_on(val, state)


def oracle_act_on(r):
    b = _build(r["op"])
    val, qubits, lvl = _target(b, r.get("lvl", "op"))
    lab = _base_labels(b, lvl)
    u = _checked_unitary(b, val, qubits, lvl)
    ref_k = _ref_kraus_on(b, qubits)
    reg = _register(b, qubits, r)
    shape = _dims(reg)
    D = L.dim(shape)
    axes = [reg.index(q) for q in qubits]
    psi0 = O.content(r.get("vals", []), D, salt=4.0)
    psi0 = psi0 / np.linalg.norm(psi0)
    lab["reg_permuted"] = axes != list(range(len(axes)))
    lab["reg_idle"] = len(reg) > len(qubits)
    # ------------------------------------------------ state vector
    if b.ref.is_unitary:
        if u is None:
            lab.update({"nontrivial": False, "cirq_has_no_unitary": True})
            return lab
        st_ = cirq.StateVectorSimulationState(qubits=reg, initial_state=psi0.copy(), dtype=np.complex128)
        _act(val, st_, qubits, lvl)
        got = np.asarray(st_.target_tensor).reshape(-1)
        want = L.apply_matrix(u, axes, shape, psi0)
        e = L.max_abs_diff(got, want)
        if not e <= TOL:
            raise Violation(f"act_on(StateVectorSimulationState, {lvl}) differs from the embedded unitary by {e:.3g}\n{_desc(b)}")
        lab["sv_unitary"] = True
    else:
        lab.update(_sv_channel(b, val, qubits, lvl, reg, shape, axes, psi0, ref_k, r))
    # ------------------------------------------------ density matrix
    if D <= 64:
        rho0 = np.outer(psi0, psi0.conj())
        mixw = 0.5 + 0.4 * np.cos(np.arange(D))
        rho0 = 0.7 * rho0 + 0.3 * np.diag(mixw / mixw.sum())
        st_ = cirq.DensityMatrixSimulationState(qubits=reg, initial_state=rho0.copy(), dtype=np.complex128)
        _act(val, st_, qubits, lvl)
        got = np.asarray(st_.target_tensor).reshape(D, D)
        want = L.apply_kraus_to_rho(ref_k, axes, shape, rho0)
        e = L.max_abs_diff(got, want)
        if not e <= 1e-6:
            raise Violation(f"act_on(DensityMatrixSimulationState, {lvl}) differs from sum K rho K^dagger by {e:.3g}\n{_desc(b)}")
        lab["dm_checked"] = True
    # ------------------------------------------------ stabilizer states
    # (stabilizer states are qubit-only: idle qutrit wires are left out, the drawn order of the rest is kept)
    reg2 = [q for q in reg if q.dimension == 2]
    if all(q.dimension == 2 for q in qubits) and len(reg2) <= 5:
        lab.update(_stabilizer(b, val, qubits, lvl, reg2, [reg2.index(q) for q in qubits], u, r))
    lab["nontrivial"] = bool(b.applied) or lab["reg_permuted"]
    return lab


def _sv_channel(b, val, qubits, lvl, reg, shape, axes, psi0, ref_k, r):
    """State-vector trajectories: the scripted PRNG picks the branch; the result must be that branch of the channel."""
    lab = {}
    mx = cirq.mixture(val, None)
    ks = cirq.kraus(val, None)
    uval = float(r.get("u", 0.5))
    pick = int(r.get("pick", 0))
    prng = _PickPRNG([pick, pick // 4, pick // 16], random_script=lambda i: uval)
    st_ = cirq.StateVectorSimulationState(qubits=reg, initial_state=psi0.copy(), dtype=np.complex128, prng=prng)
    _act(val, st_, qubits, lvl)
    got = np.asarray(st_.target_tensor).reshape(-1)
    nrm = float(np.linalg.norm(got))
    if abs(nrm - 1) > 1e-6:
        raise Violation(f"act_on(StateVectorSimulationState, {lvl}) trajectory of a channel is not normalised: |psi|={nrm:.6g}\n{_desc(b)}")
    # (1) whatever mechanism was used, a trajectory must lie in span{K_i psi} of the reference channel
    # (columns are normalised: a branch K_i psi of norm 1e-7 is a legitimate trajectory, and an un-normalised least-squares
    #  problem truncates exactly that direction - the first version raised a false alarm on ParallelGate(GAD(p=0.0047))**3)
    span = [L.apply_matrix(k, axes, shape, psi0) for k in ref_k]
    span = np.array([v / np.linalg.norm(v) for v in span if np.linalg.norm(v) > 1e-150])
    coef = np.linalg.lstsq(span.T, got, rcond=1e-12)[0]
    resid = float(np.linalg.norm(span.T @ coef - got))
    if resid > 1e-6:
        raise Violation(f"act_on(StateVectorSimulationState, {lvl}) trajectory is outside span{{K_i psi}} of the reference channel (residual {resid:.3g})\n{_desc(b)}")
    lab["sv_channel_span"] = True
    # (2) mixture strategy: one choice() over the mixture's probabilities, result U_k psi
    if mx is not None and len(prng.log) == 1 and not prng.random_log and len(prng.log[0]["p"]) == len(mx):
        entry = prng.log[0]
        kidx = entry["k"]
        ps = np.array([float(p) for p, _ in mx])
        if float(np.max(np.abs(entry["p"] - ps))) > 1e-9:
            raise Violation(f"act_on(state vector) sampled the mixture with probabilities {entry['p']}, cirq.mixture says {ps}\n{_desc(b)}"[:900])
        want = L.apply_matrix(np.asarray(mx[kidx][1]), axes, shape, psi0)
        e = L.max_abs_diff(got, want)
        if not e <= TOL:
            raise Violation(f"act_on(StateVectorSimulationState, {lvl}) mixture branch differs from U_k psi by {e:.3g}\n{_desc(b)}")
        lab["sv_mixture_branch"] = True
    # (3) Kraus strategy: one random() draw, inverse-CDF over cirq's own operator order
    if ks is not None and len(prng.random_log) == 1 and not prng.log:
        ws = [float(np.linalg.norm(L.apply_matrix(np.asarray(k), axes, shape, psi0)) ** 2) for k in ks]
        cum = np.cumsum(ws)
        if all(abs(uval - c) > 1e-6 for c in cum) and uval < cum[-1] - 1e-6:
            i = int(np.argmax(cum > uval))
            if ws[i] > 1e-9:
                want = L.apply_matrix(np.asarray(ks[i]), axes, shape, psi0) / np.sqrt(ws[i])
                e = L.max_abs_diff(got, want)
                if not e <= 1e-6:
                    raise Violation(f"act_on(StateVectorSimulationState, {lvl}) Kraus branch for u={uval} differs from K_i psi/|K_i psi| by {e:.3g}\n{_desc(b)}")
                lab["sv_kraus_branch"] = True
    return lab


def _pauli_rows(tableau):
    """(stabilizers, destabilizers) of a tableau as dense matrices, built from the documented DensePauliString fields."""
    out = []
    for rows in (tableau.stabilizers(), tableau.destabilizers()):
        ms = []
        for dps in rows:
            chars = ["IXYZ"[int(x)] for x in dps.pauli_mask]
            ms.append(L.pauli_string_matrix(chars, complex(dps.coefficient)))
        out.append(ms)
    return out


def _stabilizer(b, val, qubits, lvl, reg, axes, u, r):
    lab = {}
    n = len(reg)
    if n == 0:
        return lab
    if b.family == "AncillaCZPow":
        # stabilizer states implement neither add_qubits nor remove_qubits: ancilla-allocating decompositions are
        # outside their domain (they fail with a KeyError rather than the documented TypeError - an exception-type nit)
        lab["stab_ancilla_gate_skipped"] = True
        return lab
    is_u = b.ref.is_unitary
    mx = None
    if not is_u:
        if len(qubits) != 1:
            return lab
        mx = cirq.mixture(val, None)
        if mx is None:
            return lab
    elif not cirq.has_stabilizer_effect(val):
        return lab
    shape = (2,) * n
    basis = int(r.get("basis", 0)) % (2 ** n)
    prefix = []
    for pc in list(r.get("prefix", []))[:6]:
        pc = int(pc)
        name, ar = _CLIFF[pc % len(_CLIFF)]
        a, c = (pc // 5) % 6 % n, (pc // 30) % 6 % n
        if ar == 2:
            if n < 2:
                continue
            if a == c:
                c = (a + 1) % n
            prefix.append((name, [a, c]))
        else:
            prefix.append((name, [a]))
    psi = L.basis_vector(basis, 2 ** n)
    for name, ax in prefix:
        psi = L.apply_matrix(_CLIFF_M[name], ax, shape, psi)
    pick = int(r.get("pick", 0))

    def prepared(state):
        for name, ax in prefix:
            gate = {"H": cirq.H, "S": cirq.S, "CX": cirq.CNOT, "X": cirq.X, "CZ": cirq.CZ}[name]
            cirq.act_on(gate, state, [reg[i] for i in ax])
        return state

    # CH form
    prng = _PickPRNG([pick])
    ch = prepared(cirq.StabilizerChFormSimulationState(qubits=reg, initial_state=basis, prng=prng))
    try:
        _act(val, ch, qubits, lvl)
    except TypeError:
        lab["stab_unsupported"] = True
        return lab
    if mx is not None:
        if len(prng.log) != 1 or len(prng.log[0]["p"]) != len(mx):
            return lab
        kidx = prng.log[0]["k"]
        m = np.asarray(mx[kidx][1])
    else:
        kidx, m = 0, u
    want = L.apply_matrix(m, axes, shape, psi)
    got = ch.state.state_vector()
    e = L.max_abs_diff(got, want)
    if not e <= 1e-6:
        ph = L.diff_up_to_phase(got, want)
        raise Violation(f"act_on(StabilizerChFormSimulationState, {lvl}) state vector differs from the matrix by {e:.3g} (up to phase {ph:.3g})\n{_desc(b)}")
    lab["stab_ch_checked"] = True
    # tableau
    tb = prepared(cirq.CliffordTableauSimulationState(tableau=cirq.CliffordTableau(n, initial_state=basis), qubits=reg,
                                                      prng=_PickPRNG([kidx])))
    before = _pauli_rows(tb.tableau.copy())
    try:
        _act(val, tb, qubits, lvl)
    except TypeError:
        lab["stab_tableau_unsupported"] = True
        return lab
    after = _pauli_rows(tb.tableau)
    full = L.embed(m, axes, shape)
    for grp, (bs, as_) in enumerate(zip(before, after)):
        for i, (p0, p1) in enumerate(zip(bs, as_)):
            e = L.max_abs_diff(full @ p0 @ full.conj().T, p1)
            if not e <= 1e-6:
                raise Violation(f"act_on(CliffordTableauSimulationState, {lvl}): {'stabilizer' if grp == 0 else 'destabilizer'} row is not U P U^dagger (diff {e:.3g})\n{_desc(b)}")
    lab["stab_tableau_checked"] = True
    lab["stab_mixture"] = mx is not None
    return lab


# ======================================================================================= E. predicates and accessors


def _pred_case(pred, kinds=O.ALL_WRAPPERS):
    return st.fixed_dictionaries({"op": O.op_recipes(pred, kinds=kinds), "lvl": st.sampled_from(["op", "gate"])})


def _pred_eval(r):
    b = _build(r["op"])
    val, qubits, lvl = _target(b, r.get("lvl", "op"))
    return b, val, qubits, lvl


def oracle_predicates(r):
    b, val, qubits, lvl = _pred_eval(r)
    lab = _base_labels(b, lvl)
    shape = cirq.qid_shape(val)
    if tuple(shape) != _dims(qubits):
        raise Violation(f"cirq.qid_shape({lvl}) = {shape} but it acts on qubits of dimensions {_dims(qubits)}\n{_desc(b)}")
    if cirq.num_qubits(val) != len(shape):
        raise Violation(f"cirq.num_qubits({lvl}) = {cirq.num_qubits(val)} != len(qid_shape) = {len(shape)}\n{_desc(b)}")
    d = L.dim(shape)
    hu, u = cirq.has_unitary(val), cirq.unitary(val, None)
    if hu != (u is not None):
        raise Violation(f"has_unitary({lvl}) is {hu} but unitary(default=None) is {'a matrix' if u is not None else 'None'}\n{_desc(b)}")
    if b.ref.is_unitary and not hu:
        raise Violation(f"has_unitary({lvl}) is False for a unitary value\n{_desc(b)}")
    if hu and not b.ref.is_unitary and d <= 16:
        e = L.max_abs_diff(np.kron(u, np.conj(u)), L.kraus_to_superop(_ref_kraus_on(b, qubits)))
        if not e <= 1e-6:
            raise Violation(f"has_unitary({lvl}) is True for a channel that is not unitary (superoperators differ by {e:.3g})\n{_desc(b)}")
    if u is not None and np.asarray(u).shape != (d, d):
        raise Violation(f"cirq.unitary({lvl}) has shape {np.asarray(u).shape}, qid shape gives {(d, d)}\n{_desc(b)}")
    hk, k = cirq.has_kraus(val), cirq.kraus(val, None)
    if hk != (k is not None):
        raise Violation(f"has_kraus({lvl}) is {hk} but kraus(default=None) is {'a tuple' if k is not None else 'None'}\n{_desc(b)}")
    hm, m = cirq.has_mixture(val), cirq.mixture(val, None)
    if hm != (m is not None):
        raise Violation(f"has_mixture({lvl}) is {hm} but mixture(default=None) is {'a tuple' if m is not None else 'None'}\n{_desc(b)}")
    if m is not None and any(x is None for _, x in m):
        raise Violation(f"mixture({lvl}) contains None instead of a matrix\n{_desc(b)}")
    if cirq.is_measurement(val):
        raise Violation(f"is_measurement({lvl}) is True for a value that measures nothing\n{_desc(b)}")
    if hu and not (hk and hm):
        raise Violation(f"has_unitary({lvl}) but has_kraus={hk} has_mixture={hm}\n{_desc(b)}")
    if hm and not hk:
        raise Violation(f"has_mixture({lvl}) but not has_kraus\n{_desc(b)}")
    if lvl == "op":
        tagged = val.with_tags("p")
        if (cirq.has_unitary(tagged), cirq.has_kraus(tagged), cirq.has_mixture(tagged), cirq.is_measurement(tagged)) != (hu, hk, hm, False):
            raise Violation(f"predicates change when the operation is tagged\n{_desc(b)}")
    lab.update({"has_unitary": hu, "has_mixture_only": hm and not hu, "has_kraus_only": hk and not hm,
                "nontrivial": bool(b.applied)})
    return lab


# measurement-like values (is_measurement = True side of the predicate)


@st.composite
def _meas_case(draw):
    n = draw(st.integers(1, 3))
    dims = draw(st.lists(st.sampled_from([2, 2, 3]), min_size=n, max_size=n))
    return {"dims": dims, "invert": draw(st.lists(st.booleans(), min_size=n, max_size=n)),
            "qk": draw(st.sampled_from(O.KINDS)), "pos": list(draw(st.permutations(list(range(O.POOL)))))[:n],
            "wrap": draw(st.sampled_from(["none", "tag", "circ", "gate"])),
            "vals": draw(st.lists(G.small_floats(), min_size=4, max_size=4)), "pick": draw(st.integers(0, 26))}


def oracle_measurement(r):
    dims = [int(d) if int(d) in (2, 3) else 2 for d in r["dims"]][:3]
    n = len(dims)
    pos = (list(r.get("pos", [])) + list(range(O.POOL)))
    used = []
    for p in pos:
        if p % O.POOL not in used:
            used.append(p % O.POOL)
    qs = [O.mkq(r.get("qk", "line"), used[i], dims[i]) for i in range(n)]
    inv = (list(r.get("invert", [])) + [False] * n)[:n]
    gate = cirq.MeasurementGate(n, key="m", invert_mask=tuple(inv), qid_shape=tuple(dims))
    op = gate.on(*qs)
    wrap = r.get("wrap", "none")
    val = op
    if wrap == "tag":
        val = op.with_tags("t")
    elif wrap == "circ":
        val = cirq.CircuitOperation(cirq.FrozenCircuit(op))
    elif wrap == "gate":
        val = gate
    if not cirq.is_measurement(val):
        raise Violation(f"is_measurement is False for a measurement ({wrap})")
    if cirq.has_unitary(val) or cirq.unitary(val, None) is not None:
        raise Violation(f"a measurement claims a unitary ({wrap})")
    if cirq.has_mixture(val) != (cirq.mixture(val, None) is not None):
        raise Violation(f"has_mixture of a measurement is {cirq.has_mixture(val)} but mixture(default=None) disagrees ({wrap})")
    D = L.dim(dims)
    lab = {"nontrivial": any(inv) or any(d != 2 for d in dims), "wrap": wrap}
    ks = cirq.kraus(val, None)
    if wrap != "circ" and cirq.has_kraus(val) != (ks is not None):
        raise Violation(f"has_kraus of a measurement is {cirq.has_kraus(val)} but kraus(default=None) disagrees ({wrap})")
    if ks is not None:
        proj = [np.zeros((D, D), dtype=complex) for _ in range(D)]
        for i in range(D):
            proj[i][i, i] = 1
        e = L.max_abs_diff(L.kraus_to_superop(ks), L.kraus_to_superop(proj))
        if not e <= 1e-7:
            raise Violation(f"kraus of a measurement is not the computational-basis dephasing channel (diff {e:.3g})")
        lab["kraus_checked"] = True
    # act_on a state vector: scripted outcome, collapsed state, recorded (inverted) digits
    psi0 = O.content(r.get("vals", []), D, 5.0)
    psi0 /= np.linalg.norm(psi0)
    k = int(r.get("pick", 0)) % D
    if abs(psi0[k]) ** 2 > 1e-9 and wrap != "gate":
        st_ = cirq.StateVectorSimulationState(qubits=qs, initial_state=psi0.copy(), dtype=np.complex128, prng=ScriptedPRNG([k]))
        cirq.act_on(val, st_)
        digits = L.index_to_digits(k, dims)
        want_rec = [(dg + 1) % 2 if (iv and dm == 2) else dg for dg, iv, dm in zip(digits, inv, dims)]
        recs = dict(st_.classical_data.records)
        if len(recs) != 1:
            raise Violation(f"measurement recorded keys {list(recs)}")
        rows = list(recs.values())[0]
        rec = [int(x) for x in rows[0]]
        if all(dm == 2 for dm in dims) and rec != want_rec:
            raise Violation(f"measurement of outcome {digits} with invert_mask {inv} recorded {rec}")
        got = np.asarray(st_.target_tensor).reshape(-1)
        want = np.zeros(D, dtype=complex)
        want[k] = psi0[k] / abs(psi0[k])
        e = L.max_abs_diff(got, want)
        if not e <= 1e-7:
            raise Violation(f"state after measuring outcome {digits} differs from the collapsed state by {e:.3g}")
        lab["act_on_checked"] = True
    return lab


# ======================================================================================= known features / sub-checks


def _f13(sub, recipe):
    """has_kraus/has_mixture True via decomposition but kraus()/mixture() cannot compose: ParallelGate / CircuitOperation of channels."""
    if sub != "predicates":
        return False
    r = recipe["op"]
    fam = G.FAMILIES.get(r["g"][0])
    if fam is None or fam.unitary:
        return False
    return any(isinstance(w, dict) and w.get("k") in ("par", "circ") for w in r.get("w", []))


def _f17(sub, recipe):
    """decomposition strategy of apply_unitary drops `subspaces` / the implicit 0..d-1 restriction."""
    if not sub.startswith("apply_unitary"):
        return False
    odd = False
    for lay in recipe.get("lay", []):
        if isinstance(lay, dict) and lay.get("mode", "gen") == "gen" and (lay.get("s") is not None or lay.get("up")):
            odd = True
    if not odd:
        return False
    b = O.build(recipe["op"])
    val, qubits, lvl = _target(b, recipe.get("lvl", "op"))
    if not b.ref.is_unitary or not cirq.has_unitary(val):
        return False
    res = cirq.apply_unitary(val, cirq.ApplyUnitaryArgs.default(qid_shape=_dims(qubits)), None, allow_decompose=False)
    return res is None


KNOWN_FEATURES = {
    "F13_has_kraus_by_decomposition_without_kraus": _f13,
    "F17_apply_unitary_decompose_ignores_subspaces": _f17,
}

def uncovered():
    """Exported gate classes without a row in the table used here (found by introspection of `cirq`)."""
    return ["cirq.PauliMeasurementGate", "cirq.ArithmeticGate subclasses", "cirq.MutableDensePauliString",
            "classically controlled operations (C12)", "parameterised (symbolic) values (C10)",
            "ancilla-allocating decompositions of *library* gates (none in the table; the protocol branches are exercised "
            "by the harness-defined AncillaCZPow gate)"]


_ALL = lambda f: True  # noqa: E731
_FAST = lambda f: f.unitary and ("fastpath" in f.tags or f.name in (  # noqa: E731
    "CSwap", "Identity", "QuditIdentity", "Matrix1", "Matrix2", "QuditMatrix", "QuditMatrix2", "QubitPermutation", "GlobalPhase",
    "DensePauli", "Diagonal", "XPowQudit", "ZPowQudit", "Rx", "Ry", "Rz", "Wait", "PhasedXPow", "SingleQubitClifford",
    "PauliSingleton"))
_DECOMP = lambda f: f.unitary and f.name not in ("XPow", "YPow", "ZPow", "Rx", "Ry", "Rz", "GPI", "GPI2", "IonqMS", "IonqZZ",  # noqa: E731
                                                  "QuditPlus", "QuditMatrix", "GlobalPhase", "CZPow")

SUBCHECKS = [
    SubCheck("apply_unitary", _apply_case(_ALL), oracle_apply, quick=5600, thorough=160000, shards_quick=8, shards_thorough=16,
             essential={"odd_layout": 0.5, "lay_subspaces": 0.15, "wrapped": 0.5, "w_ctrl": 0.15, "ctrl_dim4plus": 0.04,
                        "ctrl_uneven_levels": 0.015, "ctrl_sop": 0.03}),
    SubCheck("apply_unitary_kernels", _apply_case(_FAST, kinds=("tag", "perm", "ctrl", "pow"), nlay=4, force=3), oracle_apply,
             quick=4000, thorough=120000, shards_quick=4, shards_thorough=16, essential={"odd_layout": 0.6, "kernel": 0.6}),
    SubCheck("decompose", _decomp_case(_DECOMP), oracle_decompose, quick=4000, thorough=100000, shards_quick=8, shards_thorough=16,
             essential={"once_checked": 0.5, "odd_qubit_order": 0.3}),
    SubCheck("decompose_wide", _decomp_case(_ALL), oracle_decompose, quick=1200, thorough=40000, shards_quick=4, shards_thorough=8),
    SubCheck("channel", _channel_case(_ALL), oracle_channel, quick=4000, thorough=100000, shards_quick=4, shards_thorough=16,
             essential={"apply_channel_checked": 0.6, "ref_mixture": 0.05, "ref_kraus_only": 0.05}),
    SubCheck("act_on", _acton_case(_ALL), oracle_act_on, quick=4000, thorough=100000, shards_quick=8, shards_thorough=16,
             essential={"dm_checked": 0.6, "stab_ch_checked": 0.03}),
    SubCheck("predicates", _pred_case(_ALL), oracle_predicates, quick=2400, thorough=60000, shards_quick=2, shards_thorough=8),
    SubCheck("measurement", _meas_case(), oracle_measurement, quick=400, thorough=8000, shards_quick=1, shards_thorough=2),
]
