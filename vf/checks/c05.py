"""C05 — circuits stay well-formed and order-preserving under any edit history (model-based stateful test)."""
from __future__ import annotations

import collections
import copy as _copy

import numpy as np
import sympy
from hypothesis import strategies as st

import cirq
from vf.core import SubCheck, Violation, recipe_hash
from vf.ref import circuit_model as M

RULE = (
    "Hypothesis draws a history = JSON list of actions (op-code + arguments; indices are reduced modulo the current size "
    "inside the interpreter): Circuit(contents,strategy), append, insert (negative / past-the-end indices, every "
    "InsertStrategy of the tree, op trees with nested lists and Moments), insert_into_range, insert_at_frontier, "
    "batch_insert, batch_insert_into, batch_remove, batch_replace (valid and deliberately invalid), "
    "clear_operations_touching, __setitem__/__delitem__ int+slice, +, +=, __radd__, *, *=, **-1, zip, concat_ragged, "
    "transform_qubits, with_tags, copy/freeze/unfreeze variants, factorize, map_operations, interleaved with QUERY "
    "actions. Operation pool: 1-3 qubit gates on 4 qubits, measurements on 2 keys, classically controlled ops on those "
    "keys, parameterised ops; every operation carries a unique id tag. The history is interpreted against a real "
    "cirq.Circuit and a list-of-lists model; invariants I1-I4 after every step, I5 at query actions and at the end. "
    "Non-trivial: >=3 edits incl. a mid-circuit edit or non-EARLIEST strategy, >=1 conflicting pair of operations, "
    ">=1 query between two edits. Distinct = distinct recipe hash."
)
ASSUMPTIONS = [
    "per-operation facts (qubits, keys, parameters, inverse, value equality incl. tags) are taken from the ops layer; only "
    "Circuit/Moment/FrozenCircuit bookkeeping is recomputed by the model (vf/ref/circuit_model.py, no cirq import)",
    "single-op EARLIEST insert whose preceding moment conflicts (or index 0): both 'new moment at the index' "
    "(insert_strategy.py) and 'share the existing moment at the index' (repository tests, property statement) are accepted",
    "multi-op mid-circuit EARLIEST insert (also each index group of batch_insert, and the left-over ops of "
    "insert_into_range): item j of the flattened tree is only required to precede conflicting existing ops at pre-edit "
    "index >= k + j (the carve-out of the statement); every other order clause is enforced in full",
    "insert_into_range / insert_at_frontier / concat_ragged / zip / batch_insert_into document qubit collisions only: "
    "measurement-key order is not demanded from them (concat_ragged was adjudicated OUT-OF-SCOPE, see report)",
    "reachable_frontier_from: the docstring's reachability definition with frontier indices read as lying between moments; "
    "findall_operations_until_blocked: model only compared where 'light cone' is unambiguous, live == rebuilt always",
    "returned index of insert: single op p+1 <= r <= max(k, p+1); several items: all inserted ops < r <= len; empty tree: unchecked",
    "unitary comparison atol 1e-9 (same operations in the same moments, so only summation order could differ)",
]
SENSITIVITY = [  # = mutants/c05.json, all KILLED by the quick tier
    '_mutated keeps _all_qubits',
    '_mutated keeps _frozen',
    '_mutated keeps _parameter_names',
    'insert keeps placement cache mid-circuit',
    'placement cache forgets control keys',
    'Moment.with_operation drops cached measurement keys',
    '__imul__ without _mutated',
    '_insert_latest returned index off by one',
    'earliest_available_moment ignores control keys',
    'batch_remove edits in place',
    'zip RIGHT alignment off by one',
    'concat_ragged collision time off by one',
    'prev_moment_operating_on max_distance',
    'findall_operations_between crossing filter',
    'insert_into_range scans past busy moment only once',
    'INLINE ignores key conflicts (_can_add_op_at)',
    'reachable_frontier_from ignores start of other qubit',
    '__radd__ appends instead of prepending',
    'clear_operations_touching skips moment 0',
    'insert_at_frontier pushes at max instead of min',
    'FrozenCircuit shares the moment list',
    '_group_into_moment_compatible ignores control-after-measure',
    'with_tags keeps a fresh placement cache (reverts fix 402562f)',
    'batch_insert shifts by returned index (reverts fix c2d6187)',
    'prev_moment default distance = len (reverts fix 0961180)',
    'transform_qubits drops the last moment',
    'factorize keeps ops of the first qubit only',
]

QUBITS = cirq.LineQubit.range(5)  # generation uses 0..3; 4 is only reachable through transform_qubits
NQ = 4
KEYS = ["a", "b"]
SYMS = ["s", "t"]
UID = "uid"
STRATS = [s for s in ("EARLIEST", "NEW", "INLINE", "NEW_THEN_INLINE", "LATEST") if hasattr(cirq.InsertStrategy, s)]
STRATS += sorted(n for n, v in vars(cirq.InsertStrategy).items()
                 if isinstance(v, cirq.InsertStrategy) and n not in STRATS)
DOCUMENTED = {"EARLIEST", "NEW", "INLINE", "NEW_THEN_INLINE", "LATEST"}
MAX_OPS, MAX_MOMENTS = 60, 28

ONE = {"X": cirq.X, "Y": cirq.Y, "Z": cirq.Z, "H": cirq.H, "S": cirq.S, "T": cirq.T}
TWO = {"CZ": cirq.CZ, "CX": cirq.CNOT, "SW": cirq.SWAP, "IS": cirq.ISWAP}
THREE = {"CCZ": cirq.CCZ, "CCX": cirq.CCX}
ARITY = {**{k: 1 for k in ONE}, **{k: 2 for k in TWO}, **{k: 3 for k in THREE}, "M": None, "CC": 1, "PX": 1, "PZZ": 2}


def _resolve_qubits(raw, arity, nq=NQ):
    out = []
    for q in raw if isinstance(raw, list) else []:
        if isinstance(q, int) and not isinstance(q, bool) and q % nq not in out:
            out.append(q % nq)
    if arity is None:
        arity = min(max(len(out), 1), 2)
    for q in range(nq):
        if len(out) >= arity:
            break
        if q not in out:
            out.append(q)
    return tuple(out[:arity])


def _build(kind, qubits, param, uid, extra=()):
    """-> (cirq operation, OpInfo).  The OpInfo comes from the recipe, not from introspecting the cirq value."""
    qs = [QUBITS[q] for q in qubits]
    p = param if isinstance(param, int) and not isinstance(param, bool) else 0
    if kind in ONE:
        op, info = ONE[kind](*qs), M.OpInfo(qubits)
    elif kind in TWO:
        op, info = TWO[kind](*qs), M.OpInfo(qubits)
    elif kind in THREE:
        op, info = THREE[kind](*qs), M.OpInfo(qubits)
    elif kind == "M":
        k = KEYS[p % 2]
        op, info = cirq.measure(*qs, key=k), M.OpInfo(qubits, mkeys=frozenset([k]), is_meas=True, invertible=False)
    elif kind == "CC":
        k = KEYS[p % 2]
        op, info = cirq.X(*qs).with_classical_controls(k), M.OpInfo(qubits, ckeys=frozenset([k]), invertible=False)
    elif kind == "PX":
        s = SYMS[p % 2]
        op, info = cirq.XPowGate(exponent=sympy.Symbol(s)).on(*qs), M.OpInfo(qubits, params=frozenset([s]))
    elif kind == "PZZ":
        s = SYMS[p % 2]
        op, info = cirq.ZZPowGate(exponent=sympy.Symbol(s)).on(*qs), M.OpInfo(qubits, params=frozenset([s]))
    else:
        raise KeyError(kind)
    return op.with_tags((UID, uid), *extra), info


def _op_uid(op):
    for t in getattr(op, "tags", ()):
        if isinstance(t, tuple) and len(t) == 2 and t[0] == UID:
            return t[1]
    return None


def _flat(layout):
    return [x for m in layout for x in m]


def _fmt(layout):
    return "[" + " | ".join(",".join(str(x) for x in sorted(m)) for m in layout) + "]"


class _Skip(Exception):
    pass


class Interp:
    def __init__(self, recipe, detect=False):
        self.recipe = recipe
        self.detect = detect
        self.c = cirq.Circuit()
        self.layout: M.Layout = []
        self.rec = {}
        self.info = {}
        self.val = {}
        self.next_id = 0
        self.features = set()
        self.frozen_snap = None
        self.kinds = collections.Counter()
        self.stats = collections.Counter()
        self.edits_after_query = False
        self.seen_query = False
        self.query_between = False
        self.step = -1
        self.conflict_seen = False

    # ------------------------------------------------------------------ helpers
    def fail(self, msg, pre=None, post=None):
        if self.detect:
            raise _Skip()
        det = f"\nstep {self.step}: {self.recipe['actions'][self.step] if 0 <= self.step < len(self.recipe.get('actions', [])) else 'final'}"
        if pre is not None:
            det += f"\nbefore {_fmt(pre)}"
        if post is not None:
            det += f"\nafter  {_fmt(post)}"
        det += "\nops " + ", ".join(f"{x}:{self.rec[x][0]}{list(self.rec[x][1])}" + (f"k{self.rec[x][2] % 2}" if self.rec[x][0] in ("M", "CC") else "")
                                   for x in sorted(set(_flat(pre or []) + _flat(post or []))))
        raise Violation(msg + det)

    def new_op(self, r, qubits=None):
        if not (isinstance(r, list) and r and isinstance(r[0], str) and r[0] in ARITY):
            r = ["X", [0], 0]
        kind = r[0]
        qs = qubits if qubits is not None else _resolve_qubits(r[1] if len(r) > 1 else [], ARITY[kind])
        p = r[2] if len(r) > 2 else 0
        uid = self.next_id
        self.next_id += 1
        op, info = _build(kind, qs, p, uid)
        self.rec[uid] = (kind, tuple(qs), p, ())
        self.info[uid] = info
        self.val[uid] = op
        return uid

    def build_moment(self, ops):
        ids, used = [], set()
        for r in ops if isinstance(ops, list) else []:
            kind = r[0] if isinstance(r, list) and r and r[0] in ARITY else "X"
            qs = _resolve_qubits(r[1] if isinstance(r, list) and len(r) > 1 else [], ARITY[kind])
            if used & set(qs):
                continue
            used |= set(qs)
            ids.append(self.new_op(r, qs))
        return ids

    def build_tree(self, tree, moments_ok=True):
        """-> (cirq op tree with the same nesting, items [(kind 'o'|'m', ids)])"""
        items, out = [], []
        for it in tree if isinstance(tree, list) else []:
            if isinstance(it, list) and it and isinstance(it[0], str):
                x = self.new_op(it)
                items.append(("o", [x]))
                out.append(self.val[x])
            elif isinstance(it, dict) and "m" in it and moments_ok:
                ids = self.build_moment(it["m"])
                items.append(("m", ids))
                out.append(cirq.Moment(self.val[x] for x in ids))
            elif isinstance(it, dict) and "l" in it:
                sub, sitems = self.build_tree(it["l"], moments_ok)
                items += sitems
                out.append(tuple(sub) if len(sitems) % 2 else sub)
        return out, items

    def moments_circuit(self, ms):
        lay = [self.build_moment(m) for m in (ms if isinstance(ms, list) else [])]
        return cirq.Circuit([cirq.Moment(self.val[x] for x in m) for m in lay]), lay

    def read(self, circuit, what, vals=None):
        """Actual layout of a circuit; checks I1 (disjoint qubits, coherent qubit index) and I2-by-value on the way."""
        vals = self.val if vals is None else vals
        out = []
        for i, m in enumerate(circuit.moments):
            ids, seen = [], set()
            for op in m.operations:
                u = _op_uid(op)
                if u is None or u not in vals:
                    self.fail(f"{what}: circuit contains an operation that was never inserted: {op!r}")
                if op != vals[u]:
                    self.fail(f"{what}: operation id {u} was altered: {op!r} != {vals[u]!r}")
                for q in op.qubits:
                    if q in seen:
                        self.fail(f"{what}: I1 moment {i} holds two operations on qubit {q}")
                    seen.add(q)
                    if m.operation_at(q) != op:
                        self.fail(f"{what}: I1 moment {i} qubit index of {q} does not point at its operation")
                ids.append(u)
            if m.qubits != frozenset(seen):
                self.fail(f"{what}: I1 moment {i}.qubits differs from the qubits of its operations")
            out.append(ids)
        return out

    def need_ids(self, what, pre, post, added=()):
        want = collections.Counter(_flat(pre)) + collections.Counter(added)
        got = collections.Counter(_flat(post))
        if want != got:
            lost = sorted((want - got).elements())
            extra = sorted((got - want).elements())
            self.fail(f"{what}: I2 operations lost {lost} / duplicated or unexpected {extra}", pre, post)

    def expect_exact(self, what, pre, post, want):
        if M.canon(post) != M.canon(want):
            if self.detect:
                raise _Skip()
            self.fail(f"{what}: circuit differs from the documented result (expected {_fmt(want)})", pre, post)

    def unchanged(self, what, pre):
        post = self.read(self.c, what)
        if post != pre:
            self.fail(f"{what}: left the receiver circuit changed", pre, post)

    def order(self, what, pre, post, **kw):
        if self.detect:
            return
        msg = M.check_order(pre, post, self.info, **kw)
        if msg:
            self.fail(f"{what}: I3 {msg}", pre, post)

    def expect_raises(self, what, exc, fn, pre):
        try:
            fn()
        except exc:
            self.unchanged(what + " (after the documented exception)", pre)
            return
        self.fail(f"{what}: invalid edit did not raise {getattr(exc, '__name__', exc)}", pre, self.read(self.c, what))

    def strat(self, a):
        s = a.get("s", 0)
        name = STRATS[s % len(STRATS)] if isinstance(s, int) else "EARLIEST"
        return name, getattr(cirq.InsertStrategy, name)

    def idx(self, raw, lo, hi):
        """raw non-negative int -> lo..hi inclusive"""
        raw = raw if isinstance(raw, int) and not isinstance(raw, bool) else 0
        return lo + raw % (hi - lo + 1)

    def capped(self):
        return len(_flat(self.layout)) > MAX_OPS or len(self.layout) > MAX_MOMENTS

    def adopt(self, circuit, layout):
        self.c = circuit
        self.layout = layout

    def instances(self):
        return [(i, x) for i, m in enumerate(self.layout) for x in m]

    # ------------------------------------------------------------------ run
    def run(self):
        acts = self.recipe.get("actions", []) if isinstance(self.recipe, dict) else []
        n_edits = 0
        for self.step, a in enumerate(acts):
            if not isinstance(a, dict) or not hasattr(self, "a_" + str(a.get("a"))):
                continue
            name = a["a"]
            if name == "query":
                if not self.detect:
                    self.a_query(a)
                    self.seen_query = self.seen_query or n_edits > 0
                    self.edits_after_query = False
                self.kinds["query"] += 1
                continue
            if self.capped() and name in GROWING:
                self.stats["capped"] += 1
                continue
            pre_obj = self.c
            getattr(self, "a_" + name)(a)
            self.kinds[name] += 1
            n_edits += 1
            if self.seen_query:
                self.query_between = True
            if not self.conflict_seen:
                ids = _flat(self.layout)[:60]
                self.conflict_seen = any(M.conflict(self.info[x], self.info[y]) for i, x in enumerate(ids) for y in ids[i + 1:])
            # the live circuit must agree with the model after every step (I1/I2 re-read, cheap)
            if not self.detect:
                now = self.read(self.c, f"after {name}")
                if M.canon(now) != M.canon(self.layout):
                    self.fail(f"after {name}: live circuit and model disagree", self.layout, now)
        self.step = len(acts)
        if not self.detect:
            self.a_query({"a": "query", "q": ["*"], "qs": [0, 2], "i": 1, "d": None, "fr": [0, 1, 0, 2], "fr2": [3, 2, 5, 1],
                          "blk": [3, 1], "omit": False})
        return n_edits

    # ------------------------------------------------------------------ construction / insertion
    def _insert_checks(self, what, sname, pre, post, items, k, r):
        n = len(pre)
        ins = [x for _, ids in items for x in ids]
        self.need_ids(what, pre, post, ins)
        mid = k < n
        if mid:
            self.stats["mid"] += 1
        if sname != "EARLIEST":
            self.stats["nonearliest"] += 1
        if not items:
            self.expect_exact(what + " of an empty tree", pre, post, pre)
            return  # (Circuit().insert(0, []) returns 1 on the placement-cache path: harmless, nothing was inserted)
        ppost = M.instance_positions(post)
        pos = [ppost[(x, 0)] for x in ins]
        if len(items) == 1 and items[0][0] == "m":
            want = M.copy_layout(pre)
            want.insert(k, list(items[0][1]))
            self.expect_exact(f"{what}({sname}) of a single Moment", pre, post, want)
            lo, hi = k + 1, k + 1
        elif len(items) == 1 and sname in DOCUMENTED:
            x = ins[0]
            cands = M.insert_single(pre, self.info, k, x, sname)
            hit = [p for lay, p in cands if M.canon(lay) == M.canon(post)]
            if not hit:
                self.fail(f"{what}({sname}) of a single operation: landed in moment {pos[0]} of {len(post)}, documentation says "
                          f"moment {' or '.join(str(p) for _, p in cands)} of {' or '.join(str(len(l)) for l, _ in cands)}", pre, post)
            lo, hi = hit[0] + 1, max(k, hit[0] + 1)
            self.stats["single_exact"] += 1
        else:
            if sname == "NEW":
                self.expect_exact(f"{what}(NEW) of several items", pre, post, M.insert_new(pre, k, items))
            elif sname == "EARLIEST" and not mid:
                self.expect_exact(f"{what}(EARLIEST) at the end: list differs from appending one by one", pre, post,
                                  M.append_earliest(pre, self.info, items))
            point, slack = {}, {}
            if sname in DOCUMENTED:
                for j, (_, ids) in enumerate(items):
                    for x in ids:
                        point[x] = k
                        slack[x] = j if (sname == "EARLIEST" and mid) else 0
            self.order(f"{what}({sname})", pre, post, inserted=[ids for _, ids in items], point=point, slack=slack)
            lo, hi = (max(pos) + 1 if pos else 0), len(post)
        if r is not None and not lo <= r <= hi:
            self.fail(f"{what}({sname}): returned index {r} is not 'just after the inserted operations' (expected {lo}..{hi}; "
                      f"inserted operations are in moments {sorted(set(pos))})", pre, post)

    def a_new(self, a):
        sname, S = self.strat(a)
        tree, items = self.build_tree(a.get("tree"))
        c = cirq.Circuit(*tree, strategy=S) if a.get("star") else cirq.Circuit(tree, strategy=S)
        what = "Circuit(contents, strategy)"
        post = self.read(c, what)
        ins = [x for _, ids in items for x in ids]
        self.need_ids(what, [], post, ins)
        if items and all(k == "m" for k, _ in items):
            self.expect_exact(what + " of Moments only", [], post, [ids for _, ids in items])
        elif not self.detect:
            c2 = cirq.Circuit()
            c2.append(tree, strategy=S)
            if M.canon(self.read(c2, "Circuit().append")) != M.canon(post):
                self.fail(f"{what} with {sname}: differs from Circuit().append(contents, strategy)", self.read(c2, what), post)
            self._insert_checks(what, sname, [], post, items, 0, None)
        self.adopt(c, post)

    def a_append(self, a):
        sname, S = self.strat(a)
        pre = self.layout
        tree, items = self.build_tree(a.get("tree"))
        if a.get("single") and len(tree) == 1:
            tree = tree[0]
        self.c.append(tree, strategy=S)
        post = self.read(self.c, "append")
        self._insert_checks("append", sname, pre, post, items, len(pre), None)
        self.layout = post

    def a_insert(self, a):
        sname, S = self.strat(a)
        pre = self.layout
        n = len(pre)
        i = self.idx(a.get("i", 0), -3, n + 3)
        k = M.clamp_index(i, n)
        tree, items = self.build_tree(a.get("tree"))
        if a.get("single") and len(tree) == 1:
            tree = tree[0]
        r = self.c.insert(i, tree, strategy=S)
        post = self.read(self.c, "insert")
        self._insert_checks("insert", sname, pre, post, items, k, r)
        self.layout = post

    def a_iir(self, a):
        pre = self.layout
        n = len(pre)
        tree, items = self.build_tree(a.get("tree"), moments_ok=False)
        start = self.idx(a.get("st", 0), 0, n)
        end = self.idx(a.get("en", 0), start, n)
        bad = a.get("bad", 0)
        what = "insert_into_range"
        if bad:
            s, e = (end + 1, start) if bad == 1 else (start, n + 1 + bad)
            if s <= e <= n:
                s, e = e + 1, e
            self.expect_raises(what, IndexError, lambda: self.c.insert_into_range(tree, s, e), pre)
            self.stats["invalid_edit"] += 1
            return
        r = self.c.insert_into_range(tree, start, end)
        post = self.read(self.c, what)
        ins = [x for _, ids in items for x in ids]
        self.need_ids(what, pre, post, ins)
        if start < n:
            self.stats["mid"] += 1
        point = {x: start for x in ins}
        bpoint = {x: end for x in ins}
        slack = {x: j for j, x in enumerate(ins)}
        self.order(what, pre, post, inserted=[[x] for x in ins], point=point, bpoint=bpoint, slack=slack, keys_inserted=False)
        pp = M.instance_positions(post)
        pos = [pp[(x, 0)] for x in ins]
        if not (max(pos) + 1 if pos else 0) <= r <= len(post):
            self.fail(f"{what}: returned index {r} does not lie after the inserted operations (moments {sorted(set(pos))})", pre, post)
        self.layout = post

    def a_iaf(self, a):
        pre = self.layout
        n = len(pre)
        tree, items = self.build_tree(a.get("tree"), moments_ok=False)
        ins = [x for _, ids in items for x in ids]
        if not ins:
            return
        start = self.idx(a.get("st", 0), 0, n)
        what = "insert_at_frontier"
        fr = a.get("fr")
        used = {q for x in ins for q in self.info[x].qubits}
        if isinstance(fr, list):
            given = {q: self.idx(fr[q] if q < len(fr) else 0, 0, start) for q in range(5)}
            if a.get("bad"):
                given[min(used)] = start + 1 + (a["bad"] if isinstance(a["bad"], int) else 1) % 3
                frontier = {QUBITS[q]: v for q, v in given.items()}
                self.expect_raises(what, ValueError, lambda: self.c.insert_at_frontier(tree, start, frontier), pre)
                self.stats["invalid_edit"] += 1
                return
            frontier = {QUBITS[q]: v for q, v in given.items()}
        else:
            given, frontier = {q: 0 for q in range(5)}, None
        ret = self.c.insert_at_frontier(tree, start, frontier)
        post = self.read(self.c, what)
        self.need_ids(what, pre, post, ins)
        if start < n:
            self.stats["mid"] += 1
        self.order(what, pre, post, inserted=[[x] for x in ins], point={x: start for x in ins}, keys_inserted=False)
        pp = M.instance_positions(post)
        last = {}
        for x in ins:
            p = pp[(x, 0)]
            if p < max([start] + [given[q] for q in self.info[x].qubits]):
                self.fail(f"{what}: operation placed in moment {p}, before start/frontier", pre, post)
            for q in self.info[x].qubits:
                last[q] = max(last.get(q, -1), p)
        for q, p in last.items():
            if ret[QUBITS[q]] != p + 1:
                self.fail(f"{what}: returned frontier of a qubit is {ret[QUBITS[q]]}, its last inserted operation is in moment {p}", pre, post)
        self.layout = post

    def a_binsert(self, a):
        pre = self.layout
        n = len(pre)
        what = "batch_insert"
        entries = []
        for e in a.get("ins", []) if isinstance(a.get("ins"), list) else []:
            if isinstance(e, list) and len(e) == 2:
                tree, items = self.build_tree(e[1])
                if a.get("single") and len(tree) == 1:
                    tree = tree[0]
                entries.append((self.idx(e[0], 0, n), tree, items))
        self.c.batch_insert([(i, t) for i, t, _ in entries])
        post = self.read(self.c, what)
        order = sorted(range(len(entries)), key=lambda j: entries[j][0])
        groups = collections.OrderedDict()
        for j in order:
            groups.setdefault(entries[j][0], []).append(j)
        inserted, point, slack, zone = [], {}, {}, {}
        zones = []  # (index, number of items) of the earlier groups that are multi-op mid-circuit EARLIEST inserts
        for i, js in groups.items():
            seq = [it for j in reversed(js) for it in entries[j][2]]
            # An earlier multi-op group may occupy the existing moments i' .. i'+L-1 (carve-out of the statement) and create
            # moments anywhere in that zone; an insertion point inside the zone is then only located up to the rest of it.
            extra = max([i2 + L - i for i2, L in zones if i < i2 + L] + [0])
            for pos, (_, ids) in enumerate(seq):
                inserted.append(ids)
                for x in ids:
                    point[x] = i
                    slack[x] = (pos if (len(seq) >= 2 and i < n) else 0) + extra
                    zone[x] = len(seq) if (len(seq) >= 2 and i < n) else 0
            if len(seq) >= 2 and i < n:
                zones.append((i, len(seq)))
        ins = [x for ids in inserted for x in ids]
        self.need_ids(what, pre, post, ins)
        if any(i < n for i in groups):
            self.stats["mid"] += 1
        self.order(what, pre, post, inserted=inserted, point=point, slack=slack, zone=zone)
        self.layout = post

    def a_binto(self, a):
        pre = self.layout
        n = len(pre)
        what = "batch_insert_into"
        want = M.copy_layout(pre)
        args, err = [], None
        for e in a.get("ins", []) if isinstance(a.get("ins"), list) else []:
            if not (isinstance(e, list) and len(e) == 2):
                continue
            tree, items = self.build_tree(e[1], moments_ok=False)
            ids = [x for _, d in items for x in d]
            i = n + self.idx(e[0], 0, 2) if (a.get("bad") or n == 0) else self.idx(e[0], -n, n - 1)
            args.append((i, tree))
            if err is None:
                if not -n <= i < n:
                    err = IndexError
                else:
                    want[i] = want[i] + ids
                    if not M.disjoint_moment(self.info, want[i]):
                        err = ValueError
        if err is not None:
            self.expect_raises(what, err, lambda: self.c.batch_insert_into(args), pre)
            self.stats["invalid_edit"] += 1
            return
        self.c.batch_insert_into(args)
        post = self.read(self.c, what)
        self.expect_exact(what, pre, post, want)
        if args:
            self.stats["mid"] += 1
        self.layout = post

    def _bad_entries(self, a, chosen, n):
        """-> (entries [(moment, id or None for a phantom op)], expected exception or None)"""
        bad = a.get("bad", 0)
        entries = list(chosen)
        if not bad:
            return entries, None
        if bad == 4 or not entries:
            return entries + [(n + 1, None)], IndexError
        if bad == 2:
            return entries + [(entries[0][0], None)], ValueError
        if bad == 3:
            return entries + [entries[-1]], ValueError
        i, x = entries[-1]
        others = [j for j in range(n) if x not in self.layout[j]]
        if not others:
            return entries + [entries[-1]], ValueError
        entries[-1] = (others[(i + 1) % len(others)], x)
        return entries, ValueError

    def _choose(self, a):
        inst = self.instances()
        chosen = []
        for r in a.get("sel", []) if isinstance(a.get("sel"), list) else []:
            if inst:
                e = inst[self.idx(r[0] if isinstance(r, list) and r else r, 0, len(inst) - 1)]
                if e not in chosen:
                    chosen.append(e)
        return chosen

    def _phantom(self):
        x = self.new_op(["H", [1], 0])
        return self.val[x]

    def a_bremove(self, a):
        pre = self.layout
        what = "batch_remove"
        entries, err = self._bad_entries(a, self._choose(a), len(pre))
        args = [(i, self.val[x] if x is not None else self._phantom()) for i, x in entries]
        if err is not None:
            self.expect_raises(what, (ValueError, IndexError) if err is IndexError else err, lambda: self.c.batch_remove(args), pre)
            self.stats["invalid_edit"] += 1
            return
        self.c.batch_remove(args)
        want = M.copy_layout(pre)
        for i, x in entries:
            want[i].remove(x)
        post = self.read(self.c, what)
        self.expect_exact(what, pre, post, want)
        if entries:
            self.stats["mid"] += 1
        self.layout = post

    def a_breplace(self, a):
        pre = self.layout
        what = "batch_replace"
        chosen = self._choose(a)
        entries, err = self._bad_entries(a, chosen, len(pre))
        want = M.copy_layout(pre)
        args = []
        sel = a.get("sel", [])
        for j, (i, x) in enumerate(entries):
            r = sel[j][1] if j < len(sel) and isinstance(sel[j], list) and len(sel[j]) > 1 else ["X", [0], 0]
            kind = r[0] if isinstance(r, list) and r and r[0] in ARITY else "X"
            ar = ARITY[kind] or 1
            if x is not None and ar <= len(self.info[x].qubits) and not a.get("free"):
                y = self.new_op([kind, [], r[2] if len(r) > 2 else 0], qubits=self.info[x].qubits[:ar])
            else:
                y = self.new_op(r if isinstance(r, list) else ["X", [0], 0])
            args.append((i, self.val[x] if x is not None else self._phantom(), self.val[y]))
            if err is None and 0 <= i < len(want) and x in want[i]:
                want[i][want[i].index(x)] = y
                if not M.disjoint_moment(self.info, want[i]):
                    err = ValueError
        if err is not None:
            self.expect_raises(what, (ValueError, IndexError) if err is IndexError else err, lambda: self.c.batch_replace(args), pre)
            self.stats["invalid_edit"] += 1
            return
        self.c.batch_replace(args)
        post = self.read(self.c, what)
        self.expect_exact(what, pre, post, want)
        if entries:
            self.stats["mid"] += 1
        self.layout = post

    def a_clear(self, a):
        pre = self.layout
        n = len(pre)
        qs = [q % 5 for q in a.get("qs", []) if isinstance(q, int)]
        ms = [self.idx(r, -2, n + 1) for r in a.get("ms", []) if isinstance(r, int)]
        self.c.clear_operations_touching([QUBITS[q] for q in qs], ms)
        post = self.read(self.c, "clear_operations_touching")
        self.expect_exact("clear_operations_touching", pre, post, M.without_touching(pre, self.info, qs, ms))
        self.stats["mid"] += 1
        self.layout = post

    def a_setitem(self, a):
        pre = self.layout
        n = len(pre)
        want = M.copy_layout(pre)
        if "lo" in a:
            lo, hi = self.idx(a["lo"], 0, n), self.idx(a.get("hi", 0), 0, n)
            if a.get("neg") and n:
                lo -= n
            circ, lay = self.moments_circuit(a.get("ms"))
            self.c[lo:hi] = list(circ.moments) if not a.get("gen") else iter(circ.moments)
            want[lo:hi] = lay
            what = "__setitem__(slice)"
        else:
            if n == 0:
                return
            i = self.idx(a.get("i", 0), 0, n - 1) - (n if a.get("neg") else 0)
            ids = self.build_moment(a.get("m"))
            self.c[i] = cirq.Moment(self.val[x] for x in ids)
            want[i] = ids
            what = "__setitem__(int)"
        post = self.read(self.c, what)
        self.expect_exact(what, pre, post, want)
        self.stats["mid"] += 1
        self.layout = post

    def a_del(self, a):
        pre = self.layout
        n = len(pre)
        want = M.copy_layout(pre)
        if "lo" in a:
            lo, hi = self.idx(a["lo"], 0, n), self.idx(a.get("hi", 0), 0, n)
            step = 2 if a.get("step") == 2 else 1
            del self.c[lo:hi:step]
            del want[lo:hi:step]
            what = "__delitem__(slice)"
        else:
            if n == 0:
                return
            i = self.idx(a.get("i", 0), 0, n - 1) - (n if a.get("neg") else 0)
            del self.c[i]
            del want[i]
            what = "__delitem__(int)"
        post = self.read(self.c, what)
        self.expect_exact(what, pre, post, want)
        self.stats["mid"] += 1
        self.layout = post

    # ------------------------------------------------------------------ pure operations (optionally adopted)
    def _finish_pure(self, what, a, pre, result, post, inplace=False):
        if inplace:
            self.layout = post
            return
        self.unchanged(what, pre)
        if a.get("adopt"):
            if not isinstance(result, cirq.Circuit):
                result = result.unfreeze()
            self.adopt(result, post)

    def a_add(self, a):
        pre = self.layout
        mode = a.get("mode", "add")
        other = a.get("other", {})
        if isinstance(other, dict) and "ms" in other:
            oc, olay = self.moments_circuit(other["ms"])
            items = [("m", ids) for ids in olay]
            arg = oc if not other.get("frozen") else oc.freeze()
            if other.get("one") and olay:
                arg, items = oc.moments[0], items[:1]
        else:
            arg, items = self.build_tree(other.get("tree") if isinstance(other, dict) else [])
        ins = [x for _, ids in items for x in ids]
        if mode == "radd":
            if isinstance(arg, cirq.AbstractCircuit):
                arg = list(arg.moments)
            what = "__radd__"
            result = arg + self.c
            want = M.append_earliest([], self.info, items) + M.copy_layout(pre)
            post = self.read(result, what)
            self.need_ids(what, pre, post, ins)
            self.expect_exact(what, pre, post, want)
            self.stats["mid"] += 1 if pre else 0
            self._finish_pure(what, a, pre, result, post)
            return
        want = M.append_earliest(pre, self.info, items)
        if mode == "iadd":
            what = "+="
            obj = self.c
            self.c += arg
            if self.c is not obj:
                self.fail("+=: did not return the receiver")
            post = self.read(self.c, what)
            self.need_ids(what, pre, post, ins)
            self.expect_exact(what, pre, post, want)
            self.layout = post
            return
        what = "+"
        recv = self.c.freeze() if a.get("frozen") else self.c
        result = recv + arg
        post = self.read(result, what)
        self.need_ids(what, pre, post, ins)
        self.expect_exact(what, pre, post, want)
        self._finish_pure(what, a, pre, result, post)

    def a_mul(self, a):
        pre = self.layout
        n = a.get("n", 1)
        n = n % 4 if isinstance(n, int) else 1
        if n >= 2 and len(pre) * n > MAX_MOMENTS:
            n = 1
        mode = a.get("mode", "mul")
        reps = np.int64(n) if a.get("np") else n
        want = [list(m) for _ in range(n) for m in pre]
        if mode == "imul":
            obj = self.c
            self.c *= reps
            if self.c is not obj:
                self.fail("*=: did not return the receiver")
            post = self.read(self.c, "*=")
            self.expect_exact("*=", pre, post, want)
            self.layout = post
            return
        recv = self.c.freeze() if a.get("frozen") else self.c
        result = reps * recv if mode == "rmul" else recv * reps
        what = "__rmul__" if mode == "rmul" else "*"
        post = self.read(result, what)
        self.expect_exact(what, pre, post, want)
        self._finish_pure(what, a, pre, result, post)

    def a_inv(self, a):
        pre = self.layout
        what = "**-1"
        recv = self.c.freeze() if a.get("frozen") else self.c
        if not all(self.info[x].invertible for x in _flat(pre)):
            try:
                recv ** -1
            except TypeError:
                self.unchanged(what, pre)
                self.stats["invalid_edit"] += 1
                return
            self.fail(f"{what}: circuit with a non-invertible operation did not give NotImplemented/TypeError", pre, pre)
        result = recv ** -1
        if len(result) != len(pre):
            self.fail(f"{what}: inverse has {len(result)} moments, circuit has {len(pre)}", pre, pre)
        for got, ids in zip(result.moments, reversed(pre)):
            want = cirq.Moment(cirq.inverse(self.val[x]) for x in ids)
            if got != want:
                self.fail(f"{what}: a moment of the inverse is not the inverse of the mirrored moment: {got!r} != {want!r}", pre, pre)
        self.unchanged(what, pre)

    def a_zip(self, a):
        pre = self.layout
        align = "RIGHT" if a.get("align") == "RIGHT" else "LEFT"
        lays = []
        for ms in (a.get("others") or [])[:2]:
            lay = []
            for m in ms if isinstance(ms, list) else []:
                lay.append(self.build_moment(m))
            lays.append(lay)
        if a.get("avoid"):
            n = max([len(pre)] + [len(l) for l in lays])
            for k in range(n):
                used = set()
                for l in [pre] + lays:
                    j = k if align == "LEFT" else len(l) - n + k
                    if 0 <= j < len(l):
                        if l is not pre:
                            l[j][:] = [x for x in l[j] if used.isdisjoint(self.info[x].qubits)]
                        used |= M.moment_qubits(self.info, l[j])
        others = [cirq.Circuit([cirq.Moment(self.val[x] for x in m) for m in l]) for l in lays]
        if a.get("ofrozen"):
            others = [o.freeze() for o in others]
        want, bad = M.zip_layouts([pre] + lays, self.info, align)
        recv = self.c.freeze() if a.get("frozen") else self.c
        al = getattr(cirq.Alignment, align) if not a.get("str") else align.lower()
        what = f"zip(align={align})"
        if want is None:
            try:
                recv.zip(*others, align=al)
            except ValueError:
                self.unchanged(what, pre)
                self.stats["invalid_edit"] += 1
                return
            self.fail(f"{what}: overlapping operations in one moment did not raise ValueError", pre, pre)
        result = recv.zip(*others, align=al)
        post = self.read(result, what)
        self.expect_exact(what, pre, post, want)
        if pre and any(lays):
            self.stats["mid"] += 1
        self._finish_pure(what, a, pre, result, post)

    def a_ragged(self, a):
        pre = self.layout
        align = a.get("align") if a.get("align") in ("LEFT", "RIGHT", "FIRST") else "LEFT"
        oc, olay = self.moments_circuit(a.get("other"))
        al = getattr(cirq.Alignment, align) if not a.get("str") else align.lower()
        recv = self.c.freeze() if a.get("frozen") else self.c
        what = f"concat_ragged(align={align})"
        if a.get("first", True):
            result = recv.concat_ragged(oc, align=al)
            want = M.concat_ragged(pre, olay, self.info, align)
        else:
            result = cirq.Circuit.concat_ragged(oc, recv, align=al)
            want = M.concat_ragged(olay, pre, self.info, align)
        post = self.read(result, what)
        self.need_ids(what, pre, post, _flat(olay))
        self.expect_exact(what, pre, post, want)
        if pre and olay:
            self.stats["mid"] += 1
        self._finish_pure(what, a, pre, result, post)

    def a_tq(self, a):
        pre = self.layout
        perm = a.get("perm") if isinstance(a.get("perm"), list) else []
        perm = [p if isinstance(p, int) else 0 for p in perm][:5] + [0] * (5 - len(perm[:5]))
        order = sorted(range(5), key=lambda i: (perm[i], i))
        mp = {q: order.index(q) for q in range(5)}
        qmap = {QUBITS[q]: QUBITS[t] for q, t in mp.items()}
        result = self.c.transform_qubits((lambda q: qmap[q]) if a.get("callable") else qmap)
        newrec, newinfo, newval = {}, {}, {}
        for x in set(_flat(pre)):
            kind, qs, p, extra = self.rec[x]
            nq = tuple(mp[q] for q in qs)
            newval[x], _ = _build(kind, nq, p, x, extra)
            newrec[x] = (kind, nq, p, extra)
            newinfo[x] = self.info[x].on(nq)
        what = "transform_qubits"
        post = self.read(result, what, vals=newval)
        self.expect_exact(what, pre, post, pre)
        self.unchanged(what, pre)
        if a.get("adopt"):
            self.rec.update(newrec)
            self.info.update(newinfo)
            self.val.update(newval)
            self.adopt(result, post)

    def a_tags(self, a):
        pre = self.layout
        tags = [t for t in (a.get("t") or []) if isinstance(t, str)]
        result = self.c.with_tags(*tags)
        post = self.read(result, "with_tags")
        self.expect_exact("with_tags", pre, post, pre)
        if result.tags != self.c.tags + tuple(tags):
            self.fail("with_tags: tags of the result are not the old tags plus the new ones")
        self.c = result

    def a_copy(self, a):
        pre = self.layout
        how = a.get("how", 0) % 8 if isinstance(a.get("how", 0), int) else 0
        c = self.c
        result = [lambda: c.copy(), lambda: c.freeze().unfreeze(), lambda: c.unfreeze(copy=False), lambda: cirq.Circuit(c.freeze(), tags=c.tags),
                  lambda: cirq.Circuit(c, tags=c.tags), lambda: c[:], lambda: cirq.Circuit.from_moments(*c.moments, tags=c.tags),
                  lambda: _copy.copy(c)][how]()
        what = f"copy variant {how}"
        post = self.read(result, what)
        self.expect_exact(what, pre, post, pre)
        if result != c or result.tags != c.tags:
            self.fail(f"{what}: result does not compare equal to the circuit")
        if how != 2 and result is c:
            self.fail(f"{what}: did not make a new object")
        self.unchanged(what, pre)
        if result is not c:
            self.adopt(result, post)

    def a_factorize(self, a):
        pre = self.layout
        if not M.all_qubits(pre, self.info):
            return
        recv = self.c.freeze() if a.get("frozen") else self.c
        factors = list(recv.factorize())
        sets = M.independent_qubit_sets(pre, self.info)
        what = "factorize"
        got_sets = [{q.x for q in s} for s in self.c.get_independent_qubit_sets()]
        if got_sets != sets:
            self.fail(f"get_independent_qubit_sets: {got_sets} != model {sets}", pre, pre)
        if len(factors) != len(sets):
            self.fail(f"{what}: {len(factors)} factors for {len(sets)} independent qubit sets", pre, pre)
        posts = []
        for f, s in zip(factors, sets):
            post = self.read(f, what)
            self.expect_exact(what + " factor", pre, post, M.restrict(pre, self.info, s) if len(sets) > 1 else pre)
            posts.append(post)
        self.unchanged(what, pre)
        if a.get("adopt") and len(factors) > 1:
            j = self.idx(a.get("pick", 0), 0, len(factors) - 1)
            self.stats["mid"] += 1
            f = factors[j]
            self.adopt(f if isinstance(f, cirq.Circuit) else f.unfreeze(), posts[j])

    def a_mapops(self, a):
        pre = self.layout
        f = a.get("f", "retag")
        p = a.get("p", 0) if isinstance(a.get("p", 0), int) else 0
        images = collections.defaultdict(list)  # id -> list (per call) of image item lists
        newval = dict(self.val)
        newrec = {}

        def func(op):
            x = _op_uid(op)
            if f == "drop" and (x + p) % 3 == 0:
                images[x].append([])
                return []
            if f == "double" and (x + p) % 2 == 0:
                y = self.new_op(["S", [], 0], qubits=self.info[x].qubits[:1])
                newval[y] = self.val[y]
                images[x].append([[x], [y]])
                return [op, self.val[y]] if p % 2 else (op, [self.val[y]])
            if f == "retag":
                kind, qs, pp, extra = self.rec[x]
                newrec[x] = (kind, qs, pp, extra + ("m",))
                newval[x] = op.with_tags("m")
                images[x].append([[x]])
                return newval[x]
            images[x].append([[x]])
            return op

        recv = self.c.freeze() if a.get("frozen") else self.c
        result = recv.map_operations(func)
        what = f"map_operations({f})"
        post = self.read(result, what, vals=newval)
        # expected multiset and order: images of operations of different moments keep the moment order, the image of one
        # operation keeps the order of the returned tree (conflicting pairs only)
        want = collections.Counter()
        for x, calls in images.items():
            for call in calls:
                for it in call:
                    want.update(it)
        if want != collections.Counter(_flat(post)):
            self.fail(f"{what}: I2 result does not hold exactly the operations returned by func", pre, post)
        if not self.detect:
            ppost = M.instance_positions(post)
            ppre = M.instance_positions(pre)
            for e1, m1 in ppre.items():
                for e2, m2 in ppre.items():
                    if m1 < m2 and e1 in ppost and e2 in ppost and M.conflict(self.info[e1[0]], self.info[e2[0]]) and not ppost[e1] < ppost[e2]:
                        self.fail(f"{what}: I3 images of conflicting operations id {e1[0]} and id {e2[0]} lost their order", pre, post)
            for x, calls in images.items():
                for call in calls:
                    if len(call) == 2:
                        y = call[1][0]
                        # the doubled op sits after (some instance of) its source in a later moment
                        if not any(ppost[(x, r)] < ppost[(y, 0)] for r in range(len(calls)) if (x, r) in ppost):
                            self.fail(f"{what}: I3 second operation returned by func is not after the first", pre, post)
        self.unchanged(what, pre)
        if a.get("adopt"):
            self.val.update(newval)
            self.rec.update(newrec)
            self.adopt(result if isinstance(result, cirq.Circuit) else result.unfreeze(), post)

    # ------------------------------------------------------------------ queries (I5)
    def a_query(self, a):
        from vf.ref import circuit_queries

        circuit_queries.run(self, a)


GROWING = {"append", "insert", "iir", "iaf", "binsert", "binto", "add", "mul", "zip", "ragged", "mapops"}


# ----------------------------------------------------------------------------- oracle


def oracle(recipe):
    it = Interp(recipe)
    n_edits = it.run()
    lay = it.layout
    ids = _flat(lay)
    conflict = it.conflict_seen
    labels = {
        "nontrivial": bool(n_edits >= 3 and (it.stats["mid"] or it.stats["nonearliest"]) and conflict and it.query_between),
        "mid_circuit_edit": it.stats["mid"] > 0,
        "non_earliest": it.stats["nonearliest"] > 0,
        "conflicting_pair": conflict,
        "query_between_edits": it.query_between,
        "invalid_edit": it.stats["invalid_edit"] > 0,
        "single_op_exact": it.stats["single_exact"] > 0,
        "capped": it.stats["capped"] > 0,
        "key_ops": any(it.info[x].mkeys or it.info[x].ckeys for x in ids),
        "edits": min(n_edits // 5 * 5, 40),
    }
    for k in it.kinds:
        labels["act_" + k] = True
    return labels


_DETECT_CACHE = {}


def _features(recipe):
    h = recipe_hash(recipe)
    if h not in _DETECT_CACHE:
        if len(_DETECT_CACHE) > 2000:
            _DETECT_CACHE.clear()
        it = Interp(recipe, detect=True)
        try:
            it.run()
        except Exception:  # noqa - detection only; the oracle run reports whatever is wrong
            pass
        _DETECT_CACHE[h] = frozenset(it.features)
    return _DETECT_CACHE[h]


# No pending or known findings.  F11 (with_tags kept a fresh placement cache), F12 (batch_insert over-shift) and F13
# (prev_moment_operating_on past the end) were repaired in /repo (402562f, c2d6187, 0961180); their recipes live in
# /verif/findings/C05.json and are replayed as explicit examples by the runner.  A future predicate can be written as
# ``lambda sub, recipe: "Fxx" in _features(recipe)`` (interpreter in detect mode, add the feature in the handler).
KNOWN_FEATURES = {}

from vf.gen.c05_history import history  # noqa: E402

SUBCHECKS = [
    SubCheck("history", history("all", 10, 30), oracle, quick=8000, thorough=160000, shards_quick=16, shards_thorough=32,
             essential={"mid_circuit_edit": 0.5, "non_earliest": 0.5, "conflicting_pair": 0.7, "query_between_edits": 0.5}),
    SubCheck("append_cache", history("append", 8, 24, pool="keys"), oracle, quick=5000, thorough=100000, shards_quick=8, shards_thorough=16,
             essential={"query_between_edits": 0.4, "key_ops": 0.5}),
    SubCheck("queries", history("query", 8, 20), oracle, quick=4000, thorough=80000, shards_quick=8, shards_thorough=16,
             essential={"query_between_edits": 0.5}),
]
