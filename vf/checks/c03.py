"""C03 — every library gate has the matrix its documentation defines."""
from __future__ import annotations

import inspect
import itertools
import math

import numpy as np
from hypothesis import strategies as st

import cirq
import cirq_google
import cirq_ionq
from vf.core import Reject, SubCheck, Violation
from vf.gen import gates as G
from vf.gen import gates_extra as GX
from vf.ref import gates as RG
from vf.ref import linalg as L

RULE = (
    "Hypothesis draws [family, params] from the whole gate table (62 shared + 27 C03-specific families: qudit X/Z powers, "
    "helper constructors cphase/givens/riswap/from_fsim_rz/from_zyz/from_matrix, ParallelGate, BooleanHamiltonianGate from an "
    "expression grammar, ArithmeticGate adder/multiplier, tableau Cliffords, Kraus/MixedUnitary/StatePreparation/Measurement/"
    "multi-qubit depolarising channels); exponents/shifts/angles mix the special values (0, +-1/4, +-1/2, 1, 2, 3, 1e-9, "
    "values outside one period) with continuous ones. Oracle: cirq.unitary / cirq.kraus / cirq.mixture / cirq.qid_shape against "
    "vf.ref.gates closed forms (docstring matrix AND spectral/composition form, which must also agree with each other), "
    "global phase included unless the documentation defines the gate up to phase; channels through the Choi matrix + trace "
    "preservation. Non-trivial: some parameter off the {k/2} / {k*pi/2} lattice, a non-zero global shift or a qudit dimension; "
    "for parameter-less families a matrix different from the identity. Named constants are an exhaustive fixed list."
)
ASSUMPTIONS = [
    "reference matrices are transcribed from the class/constructor docstrings and textbook definitions (vf/ref/gates.py); "
    "tolerance 1e-8 on every matrix entry (complex128)",
    "EigenGate global_shift multiplies the documented matrix by exp(i*pi*s*t) (EigenGate constructor docstring)",
    "qudit XPowGate/ZPowGate(dimension=d): the docstrings only say 'qudit dimension'; the reference is the generalised Pauli "
    "shift/clock operator with eigen-phases 2k/d half turns, k=0..d-1 (integer powers are branch independent and checked separately)",
    "QubitPermutationGate follows the constructor docstring ('entry at offset i is the result of permuting i'); the class "
    "docstring's formula describes the inverse permutation (documentation inconsistency, reported)",
    "BooleanHamiltonianGate: sign from the constructor docstring (exp(-j*theta*H)), scale t/2 from the class docstring, compared "
    "up to global phase; the class docstring's sign (+) contradicts both the constructor text and the code (reported)",
    "CCXPowGate docstring prints cos(pi t)/sin(pi t) in the 2x2 block but says 'the matrix of X**t'; the prose is followed",
    "CXSWAP / CZSWAP / CliffordGate.CNOT... have no documented matrix; the names are read as 'CX (CZ) then SWAP', up to global phase",
    "PhaseGradientGate(n, t): docstring omits t; textbook form omega^(x*t) is used",
]
SENSITIVITY = [
    "YPow eigen-component sign", "CZPow projectors swapped", "ISwapPow eigenphases exchanged", "FSim b sign", "depolarize weight p/4^n",
    "QFT without_reverse inverted", "ionq MS middle phase sign (vendor)", "XPowGate qudit root conjugated", "PhasedXZ half-integer fast path",
    "GeneralizedAmplitudeDamping M3 transposed", "CCX eigenprojector on wrong block", "PhasedFSim chi sign",
    "RandomGateChannel weights swapped", "ionq ZZ sign (vendor)", "cphase helper rads->half turns factor",
]

TOL = 1e-8


def _f12(sub, recipe):
    """PauliStringPhasorGate whose dense Pauli string is the identity on every position (or empty): the global phase
    e^{i pi exponent_pos} is dropped."""
    g = recipe.get("g") if isinstance(recipe, dict) else None
    return bool(g) and g[0] == "PauliStringPhasor" and all(c == "I" for c in g[1].get("ps", []))


KNOWN_FEATURES = {}  # F12 / F12b (PauliStringPhasorGate identity positions) were repaired in /repo: regression examples below


def _dev_exclude(sub, recipe):
    """Development aid only: VERIF_DEV_EXCLUDE=1 turns the candidate features into rejects (never set in real runs)."""
    import os

    if os.environ.get("VERIF_DEV_EXCLUDE"):
        for k, pred in KNOWN_FEATURES.items():
            if pred(sub, recipe):
                raise Reject(f"dev-excluded candidate {k}")


def _is_unitary_family(f):
    return f.unitary


def _is_channel_family(f):
    return f.channel


def _lattice(v):
    if isinstance(v, bool):
        return True
    if isinstance(v, int):
        return True
    if isinstance(v, float):
        a = abs(v * 2 - round(v * 2)) < 1e-7
        b = abs(v / (math.pi / 2) - round(v / (math.pi / 2))) < 1e-7
        return a or b
    return True


def _floats(x):
    if isinstance(x, dict):
        for v in x.values():
            yield from _floats(v)
    elif isinstance(x, (list, tuple)):
        for v in x:
            yield from _floats(v)
    elif isinstance(x, float):
        yield x


def _nontrivial(recipe, matrix=None):
    name, p = recipe
    fl = list(_floats(p))
    if fl:
        off = any(not _lattice(v) for v in fl)
        return bool(off or (isinstance(p, dict) and (p.get("s", 0) not in (0, 0.0) or p.get("d", 2) not in (2,) and isinstance(p.get("d"), int))))
    if isinstance(p, dict) and isinstance(p.get("d"), int) and p["d"] > 2:
        return True
    if matrix is not None:
        return not np.allclose(matrix, np.eye(matrix.shape[0]))
    return True


def _self_consistent(ref: RG.Ref, what):
    forms = list(ref.forms.items())
    for (n1, m1), (n2, m2) in itertools.combinations(forms, 2):
        d = L.diff_up_to_phase(m1, m2) if ref.phase == "upto" else L.max_abs_diff(m1, m2)
        # a disagreement between two reference formulas is a harness bug, never a verdict on Cirq
        assert d <= 1e-9, f"reference forms {n1}/{n2} of {what} disagree by {d}"


def _shape_checks(g, ref: RG.Ref, what):
    shape = tuple(cirq.qid_shape(g))
    if shape != tuple(ref.shape):
        raise Violation(f"{what}: qid_shape {shape} != documented {tuple(ref.shape)}")
    if cirq.num_qubits(g) != len(ref.shape):
        raise Violation(f"{what}: num_qubits {cirq.num_qubits(g)} != documented {len(ref.shape)}")


def _constant_boolean(p):
    names = p["names"]
    for e in p["exprs"]:
        vals = {RG.boolean_eval(e, dict(zip(names, bits))) for bits in itertools.product(range(2), repeat=len(names))}
        if len(vals) == 1:
            return True
    return False


def oracle_unitary(r):
    recipe = r["g"]
    _dev_exclude("unitary_families", r)
    name = recipe[0]
    if not (name == "BooleanHamiltonian" and _constant_boolean(recipe[1])):
        GX.validate(recipe)
    if name == "BooleanHamiltonian" and _constant_boolean(recipe[1]):
        # The recipe itself tells us that sympy folds this expression to the constant True/False, which
        # PauliSum.from_boolean_expression documents as "ValueError: If boolean_expr is of an unsupported type": any ValueError here is
        # that documented rejection, whatever its wording; any other exception type still surfaces as a crash.
        try:
            cirq.unitary(GX.build_gate(recipe))
        except ValueError:
            raise Reject("documented ValueError: constant boolean expression")
        raise Reject("constant boolean expression")
    g = GX.build_gate(recipe)
    ref = RG.reference(recipe)
    _self_consistent(ref, name)
    _shape_checks(g, ref, name)
    if not cirq.has_unitary(g):
        raise Violation(f"{name}: cirq.has_unitary is False for a documented unitary gate")
    u = cirq.unitary(g)
    D = L.dim(ref.shape)
    if u.shape != (D, D):
        raise Violation(f"{name}: unitary shape {u.shape} != ({D}, {D})")
    if not L.is_unitary(u, atol=1e-7):
        raise Violation(f"{name}: cirq.unitary is not unitary, |UU^dag - 1| = {L.max_abs_diff(u @ u.conj().T, np.eye(D)):.3g}")
    for fname, m in ref.forms.items():
        d = L.diff_up_to_phase(u, m) if ref.phase == "upto" else L.max_abs_diff(u, m)
        if not d <= TOL:
            raise Violation(f"{name}: cirq.unitary differs from the documented matrix ({fname} form"
                            f"{', up to global phase' if ref.phase == 'upto' else ''}) by {d:.3g}")
    if ref.column0 is not None:
        d = L.max_abs_diff(u[:, 0], ref.column0)
        if not d <= TOL:
            raise Violation(f"{name}: U|0..0> differs from the documented state by {d:.3g}")
    mat = ref.matrix if ref.forms else u
    lab = {"nontrivial": _nontrivial(recipe, mat), "family": name, "qudit": any(d != 2 for d in ref.shape),
           "arity": len(ref.shape), "two_forms": len(ref.forms) >= 2, "exact_phase": ref.phase == "exact"}
    p = recipe[1]
    if isinstance(p, dict) and "e" in p and isinstance(p["e"], float):
        e = p["e"]
        lab["exp_class"] = ("integer" if float(e).is_integer() else "half" if float(2 * e).is_integer() else
                            "quarter" if float(4 * e).is_integer() else "near_special" if min(abs(e - s) for s in (0, 0.5, 1)) < 1e-6 else "generic")
        lab["outside_period"] = abs(e) > 2
        lab["shifted"] = p.get("s", 0) != 0
    return lab


def oracle_channel(r):
    recipe = r["g"]
    name = recipe[0]
    GX.validate(recipe)
    g = GX.build_gate(recipe)
    ref = RG.reference(recipe)
    _shape_checks(g, ref, name)
    D = L.dim(ref.shape)
    if not cirq.has_kraus(g):
        raise Violation(f"{name}: cirq.has_kraus is False for a documented channel")
    ks = [np.asarray(k) for k in cirq.kraus(g)]
    for k in ks:
        if k.shape != (D, D):
            raise Violation(f"{name}: Kraus operator of shape {k.shape}, expected ({D}, {D})")
    s = sum(k.conj().T @ k for k in ks)
    d = L.max_abs_diff(s, np.eye(D))
    if not d <= TOL:
        raise Violation(f"{name}: Kraus operators are not trace preserving, |sum K^dag K - 1| = {d:.3g}")
    want = L.kraus_to_choi(ref.kraus)
    d = L.max_abs_diff(L.kraus_to_choi(ks), want)
    if not d <= TOL:
        raise Violation(f"{name}: Choi matrix of cirq.kraus differs from the documented channel by {d:.3g}")
    has_mix = cirq.has_mixture(g)
    if has_mix:
        mix = list(cirq.mixture(g))
        ps = [float(p) for p, _ in mix]
        if any(p < -1e-12 for p in ps) or abs(sum(ps) - 1) > TOL:
            raise Violation(f"{name}: mixture probabilities {ps} are not a distribution (sum-1 = {sum(ps) - 1:.3g})")
        for p, u in mix:
            if np.asarray(u).shape != (D, D) or not L.is_unitary(u, atol=1e-7):
                raise Violation(f"{name}: mixture component is not a {D}x{D} unitary")
        d = L.max_abs_diff(L.kraus_to_choi([math.sqrt(max(p, 0.0)) * np.asarray(u) for p, u in mix]), want)
        if not d <= TOL:
            raise Violation(f"{name}: Choi matrix of cirq.mixture differs from the documented channel by {d:.3g}")
    rank = int(np.linalg.matrix_rank(want, tol=1e-9))
    return {"nontrivial": rank > 1 and _nontrivial(recipe), "family": name, "has_mixture": bool(has_mix), "choi_rank": min(rank, 5),
            "qudit": any(d != 2 for d in ref.shape), "arity": len(ref.shape)}


# ----------------------------------------------------------------------------- extra constructor forms of PhasedXZGate


@st.composite
def _pxz_forms(draw):
    kind = draw(st.sampled_from(["zyz_exponents", "zyz_angles", "from_matrix"]))
    if kind == "from_matrix":
        return {"kind": kind, "v": draw(st.lists(G.small_floats(), min_size=8, max_size=8)),
                "special": draw(st.sampled_from(["none", "none", "X", "Z", "H", "S", "Y", "I", "sqrtX"]))}
    f = G.exponents() if kind == "zyz_exponents" else G.rads()
    return {"kind": kind, "z0": draw(f), "y": draw(f), "z1": draw(f)}


_SPECIAL_U = {"X": RG.X, "Y": RG.Y, "Z": RG.Z, "H": RG.HAD, "S": np.diag([1, 1j]), "I": RG.I2, "sqrtX": RG.x_pow(0.5)}


def oracle_pxz_forms(r):
    """PhasedXZGate.from_zyz_exponents / from_zyz_angles / from_matrix: 'equivalent to' the documented product."""
    if r["kind"] == "from_matrix":
        want = _SPECIAL_U[r["special"]] if r["special"] != "none" else L.random_unitary_from_floats(r["v"], 2)
        g = cirq.PhasedXZGate.from_matrix(np.array(want, dtype=complex))
        nontrivial = r["special"] == "none"
    elif r["kind"] == "zyz_exponents":
        g = cirq.PhasedXZGate.from_zyz_exponents(z0=r["z0"], y=r["y"], z1=r["z1"])
        want = RG.z_pow(r["z1"]) @ RG.y_pow(r["y"]) @ RG.z_pow(r["z0"])  # Z^z0 Y^y Z^z1 in time order
        nontrivial = not all(_lattice(r[k]) for k in ("z0", "y", "z1"))
    else:
        g = cirq.PhasedXZGate.from_zyz_angles(z0_rad=r["z0"], y_rad=r["y"], z1_rad=r["z1"])
        want = RG.rz(r["z1"]) @ RG.r_Ry({"r": r["y"]}).matrix @ RG.rz(r["z0"])
        nontrivial = not all(_lattice(r[k]) for k in ("z0", "y", "z1"))
    u = cirq.unitary(g)
    d = L.diff_up_to_phase(u, want)
    if not d <= 1e-7:
        raise Violation(f"PhasedXZGate.{r['kind']}: unitary differs from the documented product (up to global phase) by {d:.3g}")
    # the gate returned must itself obey the class docstring
    ref = RG.r_PhasedXZ({"x": float(g.x_exponent), "z": float(g.z_exponent), "a": float(g.axis_phase_exponent)})
    d = L.max_abs_diff(u, ref.matrix)
    if not d <= TOL:
        raise Violation(f"PhasedXZGate.{r['kind']}: unitary differs from the class docstring matrix of its own exponents by {d:.3g}")
    return {"nontrivial": bool(nontrivial), "kind": r["kind"]}


# ----------------------------------------------------------------------------- named constants (finite list)

_E = lambda e: {"e": float(e), "s": 0.0}
CONST_FAMILY = {
    "X": ["XPow", _E(1)], "Y": ["YPow", _E(1)], "Z": ["ZPow", _E(1)], "H": ["HPow", _E(1)], "S": ["ZPow", _E(0.5)],
    "T": ["ZPow", _E(0.25)], "I": ["Identity", {"n": 1}], "CNOT": ["CXPow", _E(1)], "CX": ["CXPow", _E(1)], "CY": ["CYPow", _E(1)],
    "CZ": ["CZPow", _E(1)], "SWAP": ["SwapPow", _E(1)], "ISWAP": ["ISwapPow", _E(1)], "ISWAP_INV": ["ISwapPow", _E(-1)],
    "SQRT_ISWAP": ["ISwapPow", _E(0.5)], "SQRT_ISWAP_INV": ["ISwapPow", _E(-0.5)], "XX": ["XXPow", _E(1)], "YY": ["YYPow", _E(1)],
    "ZZ": ["ZZPow", _E(1)], "CCX": ["CCXPow", _E(1)], "CCNOT": ["CCXPow", _E(1)], "TOFFOLI": ["CCXPow", _E(1)],
    "CCY": ["CCYPow", _E(1)], "CCZ": ["CCZPow", _E(1)], "CSWAP": ["CSwap", {}], "FREDKIN": ["CSwap", {}],
    "CXSWAP": ["TwoQubitClifford", {"name": "CXSWAP"}], "CZSWAP": ["TwoQubitClifford", {"name": "CZSWAP"}],
}
_SQC = {"I": RG.I2, "X": RG.X, "Y": RG.Y, "Z": RG.Z, "H": RG.HAD, "S": np.diag([1, 1j]), "X_sqrt": RG.x_pow(0.5), "X_nsqrt": RG.x_pow(-0.5),
        "Y_sqrt": RG.y_pow(0.5), "Y_nsqrt": RG.y_pow(-0.5), "Z_sqrt": RG.z_pow(0.5), "Z_nsqrt": RG.z_pow(-0.5)}


def _const_list(tier):
    out = [{"kind": "cirq", "name": n} for n in sorted(CONST_FAMILY)]
    out += [{"kind": "google", "name": "SYC"}, {"kind": "google", "name": "WILLOW"}]
    out += [{"kind": "sqc", "name": n} for n in sorted(_SQC)]
    out += [{"kind": "clifford2", "name": n} for n in ("CNOT", "CZ", "SWAP")]
    out += [{"kind": "pauli_interaction", "name": n} for n in ("CZ", "CNOT")]
    out += [{"kind": "helper", "name": n} for n in ("bit_flip", "phase_flip", "rx_pi", "ry_pi", "rz_pi", "ms_quarter", "XPowGate()", "ZPowGate()",
                                                      "YPowGate()", "HPowGate()", "CZPowGate()", "CXPowGate()", "SwapPowGate()", "ISwapPowGate()",
                                                      "PhasedISwapPowGate()", "ResetChannel()", "IdentityGate(2)")]
    return out


def _all_exported_constants():
    return sorted(n for n in dir(cirq) if isinstance(getattr(cirq, n), cirq.Gate))


def oracle_constant(r):
    kind, name = r["kind"], r["name"]
    phase_exact = True
    if kind == "cirq":
        g = getattr(cirq, name)
        fam = CONST_FAMILY[name]
        ref = RG.reference(fam)
        want = RG.CONSTANT_MATRICES.get(name, ref.matrix)
        phase_exact = ref.phase == "exact"
        # the literal textbook matrix and the family formula at the documented parameter must coincide
        d0 = L.diff_up_to_phase(want, ref.matrix) if not phase_exact else L.max_abs_diff(want, ref.matrix)
        assert d0 <= 1e-12, f"reference literal of {name} disagrees with its family formula"
        fg = GX.build_gate(fam)
        uf = cirq.unitary(fg)
        if fam[0].endswith("Pow"):
            if not isinstance(g, type(fg)):
                raise Violation(f"cirq.{name} is not an instance of {type(fg).__name__}")
            if g.exponent != fam[1]["e"] or g.global_shift != 0:
                raise Violation(f"cirq.{name} has exponent {g.exponent}, shift {g.global_shift}; documented {fam[1]['e']}, 0")
    elif kind == "google":
        g = getattr(cirq_google, name)
        ref = RG.reference([name, {}])
        want = ref.forms["doc"]
        phi = {"SYC": math.pi / 6, "WILLOW": math.pi / 9}[name]
        uf = cirq.unitary(cirq.FSimGate(theta=math.pi / 2, phi=phi))
    elif kind == "sqc":
        g = getattr(cirq.SingleQubitCliffordGate, name)
        want = _SQC[name]
        uf = None
        phase_exact = False
    elif kind == "clifford2":
        g = getattr(cirq.CliffordGate, name)
        want = {"CNOT": RG.CNOT, "CZ": RG.CZ_, "SWAP": RG.SWAP}[name]
        uf = None
        phase_exact = False
    elif kind == "pauli_interaction":
        g = getattr(cirq.PauliInteractionGate, name)
        want = {"CNOT": RG.CNOT, "CZ": RG.CZ_}[name]
        uf = None
    else:
        g, want, phase_exact = _helper(name)
        uf = None
    if isinstance(want, list):  # channel helper
        ks = cirq.kraus(g)
        d = L.max_abs_diff(L.kraus_to_choi(ks), L.kraus_to_choi(want))
        if not d <= TOL:
            raise Violation(f"{kind} constant {name}: Choi matrix differs from the documented channel by {d:.3g}")
        return {"nontrivial": True, "kind": kind}
    u = cirq.unitary(g)
    d = L.max_abs_diff(u, want) if phase_exact else L.diff_up_to_phase(u, want)
    if not d <= TOL:
        raise Violation(f"{kind} constant {name}: unitary differs from the textbook matrix by {d:.3g}")
    if uf is not None:
        d = L.max_abs_diff(u, uf) if phase_exact else L.diff_up_to_phase(u, uf)
        if not d <= TOL:
            raise Violation(f"{kind} constant {name}: unitary differs from its family at the documented parameters by {d:.3g}")
    return {"nontrivial": not np.allclose(want, np.eye(len(want))), "kind": kind}


def _helper(name):
    if name == "bit_flip":
        return cirq.bit_flip(), RG.X, True  # documented: without argument returns the X gate
    if name == "phase_flip":
        return cirq.phase_flip(), RG.Z, True
    if name == "rx_pi":
        return cirq.rx(math.pi), -1j * RG.X, True  # "cirq.unitary(cirq.rx(pi)) equals -iX"
    if name == "ry_pi":
        return cirq.ry(math.pi), -1j * RG.Y, True
    if name == "rz_pi":
        return cirq.rz(math.pi), -1j * RG.Z, True
    if name == "ms_quarter":
        return cirq.ms(math.pi / 4), (np.eye(4) - 1j * RG.XX_) / math.sqrt(2), True
    if name == "ResetChannel()":
        return cirq.ResetChannel(), RG.r_Reset({}).kraus, True
    if name == "IdentityGate(2)":
        return cirq.IdentityGate(2), np.eye(4), True
    defaults = {"XPowGate()": RG.X, "YPowGate()": RG.Y, "ZPowGate()": RG.Z, "HPowGate()": RG.HAD, "CZPowGate()": RG.CZ_, "CXPowGate()": RG.CNOT,
                "SwapPowGate()": RG.SWAP, "ISwapPowGate()": RG.ISWAP,
                # default phase_exponent 0.25: "We conjugate by the T gate by default"
                "PhasedISwapPowGate()": RG.kron(RG.z_pow(-0.25), RG.z_pow(0.25)) @ RG.ISWAP @ RG.kron(RG.z_pow(0.25), RG.z_pow(-0.25))}
    return getattr(cirq, name[:-2])(), defaults[name], True


# ----------------------------------------------------------------------------- coverage of the exported gate classes

COVERED_CLASSES = {
    "cirq": {
        "XPowGate", "YPowGate", "ZPowGate", "HPowGate", "CZPowGate", "CXPowGate", "CNotPowGate", "CYPowGate", "SwapPowGate", "ISwapPowGate",
        "XXPowGate", "YYPowGate", "ZZPowGate", "CCZPowGate", "CCXPowGate", "CCNotPowGate", "CCYPowGate", "Rx", "Ry", "Rz", "PhasedXPowGate",
        "PhasedXZGate", "PhasedISwapPowGate", "FSimGate", "PhasedFSimGate", "MSGate", "CSwapGate", "IdentityGate", "GlobalPhaseGate",
        "WaitGate", "QuantumFourierTransformGate", "PhaseGradientGate", "DiagonalGate", "TwoQubitDiagonalGate", "ThreeQubitDiagonalGate",
        "QubitPermutationGate", "MatrixGate", "PauliInteractionGate", "SingleQubitCliffordGate", "CliffordGate", "DensePauliString",
        "MutableDensePauliString", "PauliStringPhasorGate", "UniformSuperpositionGate", "DepolarizingChannel",
        "AsymmetricDepolarizingChannel", "BitFlipChannel", "PhaseFlipChannel", "PhaseDampingChannel", "AmplitudeDampingChannel",
        "GeneralizedAmplitudeDampingChannel", "ResetChannel", "RandomGateChannel", "KrausChannel", "MixedUnitaryChannel",
        "StatePreparationChannel", "MeasurementGate", "ParallelGate", "BooleanHamiltonianGate", "ArithmeticGate", "Pauli",
    },
    "cirq_google": {"SycamoreGate", "WillowGate", "WaitGateWithUnit"},
    "cirq_ionq": {"GPIGate", "GPI2Gate", "MSGate", "ZZGate"},
}
NO_REFERENCE = {
    "cirq.ControlledGate": "covered by C08 (controlled block-matrix oracle)",
    "cirq.EigenGate": "abstract base", "cirq.Gate": "abstract base", "cirq.BaseDensePauliString": "abstract base",
    "cirq.PauliMeasurementGate": "no matrix/Kraus description of its own (decomposes into basis change + measurement; C02)",
    "cirq_google.InternalGate": "placeholder, no documented matrix", "cirq_google.AnalogDetuneCouplerOnly": "pulse-level, no documented matrix",
    "cirq_google.AnalogDetuneQubit": "pulse-level, no documented matrix", "cirq_google.LZSResetViaResonator": "placeholder, no documented matrix",
    "cirq_google.LeakageISWAP": "placeholder, no documented matrix", "cirq_google.MultilevelResetViaResonator": "placeholder, no documented matrix",
}


def uncovered():
    """Gate classes / constants exported by cirq, cirq_google, cirq_ionq without a reference row."""
    out = []
    for mod in (cirq, cirq_google, cirq_ionq):
        for n in sorted(dir(mod)):
            o = getattr(mod, n)
            if inspect.isclass(o) and issubclass(o, cirq.Gate) and n not in COVERED_CLASSES[mod.__name__]:
                why = NO_REFERENCE.get(f"{mod.__name__}.{n}", "NEW: no reference row")
                out.append(f"{mod.__name__}.{n}: {why}")
    known = set(CONST_FAMILY)
    for n in _all_exported_constants():
        if n not in known:
            out.append(f"cirq.{n}: constant without a reference row")
    return out


def _covered_classes_seen():
    """Classes actually produced by the family builders (used by the self-test to keep COVERED_CLASSES honest)."""
    return COVERED_CLASSES


_EXP_KEYS = ("e", "p", "x", "z", "a", "neg", "pos", "phi", "phi0", "phi1", "turns")
_RAD_KEYS = ("r", "theta", "zeta", "chi", "gamma", "b0", "b1", "a0", "a1")


@st.composite
def _generic(draw, base):
    """Hypothesis' float strategy favours 'nice' values; for half of the cases replace exponent-like / angle-like
    parameters by uniformly drawn generic ones (k/1000 in [-4, 4], radians k/500 in [-7, 7])."""
    name, p = draw(base)
    if isinstance(p, dict) and draw(st.booleans()):
        p = dict(p)
        fam = GX.all_families()[name]
        for k in sorted(p):
            if not isinstance(p[k], float) or fam.channel:
                continue
            if (k in _EXP_KEYS or (k == "theta" and name.endswith("Wide"))) and not (name.startswith("Ionq") and k == "theta" and not name.endswith("Wide")) and draw(st.integers(0, 3)) > 0:
                p[k] = draw(st.integers(-4000, 4000)) / 1000.0
            elif k in _RAD_KEYS and not name.startswith("Ionq") and draw(st.integers(0, 3)) > 0:
                p[k] = draw(st.integers(-3500, 3500)) / 500.0
    return {"g": [name, p]}


_UNITARY = _generic(GX.gate_recipes(_is_unitary_family, max_arity=4))
_UNITARY_EVEN = _generic(GX.gate_recipes(_is_unitary_family, max_arity=4, even=True))
_CHANNEL = st.fixed_dictionaries({"g": GX.gate_recipes(_is_channel_family, max_arity=3, even=True)})

SUBCHECKS = [
    SubCheck("unitary_families", _UNITARY, oracle_unitary, quick=24000, thorough=600000, shards_quick=8, shards_thorough=16,
             essential={"two_forms": 0.3, "shifted": 0.1, "qudit": 0.03},
             examples=[{"g": ["PauliStringPhasor", {"neg": 0.5, "pos": 0.0, "ps": ["I", "Z"], "sign": 1}]},  # F12 (fixed)
                       {"g": ["PauliStringPhasor", {"neg": 0.0, "pos": 1.0, "ps": ["I"], "sign": 1}]},  # F12b (fixed)
                       {"g": ["PauliStringPhasor", {"neg": 0.25, "pos": -0.5, "ps": ["X", "I", "Y"], "sign": -1}]},
                       {"g": ["BooleanHamiltonian", {"names": ["x0", "x1"], "exprs": [["^", ["v", "x0"], ["v", "x0"]]], "theta": 0.5}]},
                       {"g": ["BooleanHamiltonian", {"names": ["x0"], "exprs": [["|", ["v", "x0"], ["~", ["v", "x0"]]]], "theta": 0.5}]}]),
    SubCheck("unitary_families_even", _UNITARY_EVEN, oracle_unitary, quick=8000, thorough=200000, shards_quick=4, shards_thorough=16),
    SubCheck("channels", _CHANNEL, oracle_channel, quick=6000, thorough=150000, shards_quick=3, shards_thorough=16,
             essential={"has_mixture": 0.3}),
    SubCheck("phased_xz_constructors", _pxz_forms(), oracle_pxz_forms, quick=3000, thorough=80000, shards_quick=1, shards_thorough=8),
    SubCheck("constants", None, oracle_constant, enumerate=_const_list, exhaustive_in=("quick", "thorough"), shards_quick=1, shards_thorough=1),
]
