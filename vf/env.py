"""Import the *working tree* of Cirq (never the released copy in site-packages).

``setup()`` puts the five package roots of the repository in front of sys.path and
asserts that every package really comes from there.  A wrong import is a harness
error (exit 2), never a pass.
"""
from __future__ import annotations

import os
import sys
import warnings

REPO = os.path.realpath(os.environ.get("VERIF_REPO", "/repo"))
VERIF = os.path.dirname(os.path.dirname(os.path.realpath(__file__)))
PKGS = ["cirq-core", "cirq-google", "cirq-ionq", "cirq-aqt", "cirq-pasqal"]
GUARD = "CIRQ_VERIF_HOOKS"  # no hook commits exist; recorded in MANIFEST.hooks

_done = False


class HarnessError(Exception):
    """Something is wrong with the harness / environment (exit code 2)."""


def setup(vendors: bool = True):
    global _done
    if _done:
        return
    for p in reversed(PKGS):
        d = os.path.join(REPO, p)
        if d in sys.path:
            sys.path.remove(d)
        sys.path.insert(0, d)
    warnings.filterwarnings("ignore")
    import cirq

    mods = [cirq]
    if vendors:
        import cirq_google, cirq_ionq, cirq_aqt, cirq_pasqal

        mods += [cirq_google, cirq_ionq, cirq_aqt, cirq_pasqal]
    for m in mods:
        f = os.path.realpath(m.__file__)
        if not f.startswith(REPO + os.sep):
            raise HarnessError(f"{m.__name__} imported from {f}, expected under {REPO}")
    _done = True


def in_repo(filename: str) -> bool:
    return os.path.realpath(filename).startswith(REPO + os.sep)


def in_harness(filename: str) -> bool:
    return os.path.realpath(filename).startswith(os.path.join(VERIF, "vf") + os.sep)
