"""Independent reference linear algebra (plain numpy, shares no code with Cirq).

Conventions: big-endian.  A register of qid shape ``shape = (d0, d1, ...)`` has basis index
``i0*d1*d2*... + i1*d2*... + ...``; a k-qudit operator acting on ``axes = (a0, a1, ...)`` has its
own big-endian index over ``(shape[a0], shape[a1], ...)``.
"""
from __future__ import annotations

import itertools
from typing import Iterable, Sequence, Tuple

import numpy as np

I2 = np.eye(2, dtype=complex)
PX = np.array([[0, 1], [1, 0]], dtype=complex)
PY = np.array([[0, -1j], [1j, 0]], dtype=complex)
PZ = np.array([[1, 0], [0, -1]], dtype=complex)
PAULI = {"I": I2, "X": PX, "Y": PY, "Z": PZ}


def dim(shape: Sequence[int]) -> int:
    n = 1
    for d in shape:
        n *= int(d)
    return n


def embed(m: np.ndarray, axes: Sequence[int], shape: Sequence[int]) -> np.ndarray:
    """Full (D x D) matrix of ``m`` acting on ``axes`` of a register with ``shape``.

    Written element-wise from the definition (slow but obviously right): for every pair of
    register basis states that agree off ``axes``, entry = m[sub_row, sub_col].
    """
    shape = tuple(int(d) for d in shape)
    axes = tuple(int(a) for a in axes)
    D = dim(shape)
    sub_shape = tuple(shape[a] for a in axes)
    k = dim(sub_shape)
    m = np.asarray(m, dtype=complex)
    assert m.shape == (k, k), (m.shape, k)
    assert len(set(axes)) == len(axes)
    n = len(shape)
    # vectorised construction via tensor reshaping, cross-checked by embed_slow in self-test
    t = m.reshape(sub_shape + sub_shape)
    rest = [a for a in range(n) if a not in axes]
    rest_shape = tuple(shape[a] for a in rest)
    r = dim(rest_shape)
    full = np.einsum("ab,cd->acbd", t.reshape(k, k), np.eye(r, dtype=complex))  # (k, r, k, r)
    full = full.reshape(sub_shape + rest_shape + sub_shape + rest_shape)
    # current row axes order: axes + rest ; want natural order 0..n-1
    order = list(axes) + rest
    inv = [order.index(i) for i in range(n)]
    perm = inv + [n + i for i in inv]
    full = full.transpose(perm)
    return full.reshape(D, D)


def embed_slow(m, axes, shape):
    shape = tuple(shape)
    D = dim(shape)
    out = np.zeros((D, D), dtype=complex)
    sub_shape = tuple(shape[a] for a in axes)
    idx = list(itertools.product(*[range(d) for d in shape]))

    def sub_index(t):
        v = 0
        for a, d in zip(axes, sub_shape):
            v = v * d + t[a]
        return v

    for i, ti in enumerate(idx):
        for j, tj in enumerate(idx):
            if all(ti[a] == tj[a] for a in range(len(shape)) if a not in axes):
                out[i, j] = m[sub_index(ti), sub_index(tj)]
    return out


def circuit_unitary(ops: Iterable[Tuple[np.ndarray, Sequence[int]]], shape: Sequence[int]) -> np.ndarray:
    """Product of embedded matrices; ``ops`` in time order (first op applied first)."""
    u = np.eye(dim(shape), dtype=complex)
    for m, axes in ops:
        u = embed(m, axes, shape) @ u
    return u


def apply_ops_to_vector(ops, shape, psi):
    psi = np.asarray(psi, dtype=complex).reshape(-1)
    for m, axes in ops:
        psi = apply_matrix(m, axes, shape, psi)
    return psi


def apply_matrix(m, axes, shape, psi):
    """Apply ``m`` on ``axes`` of state vector ``psi`` (returns new flat vector)."""
    shape = tuple(int(d) for d in shape)
    n = len(shape)
    axes = list(axes)
    sub_shape = tuple(shape[a] for a in axes)
    k = dim(sub_shape)
    t = np.asarray(psi, dtype=complex).reshape(shape)
    t = np.moveaxis(t, axes, list(range(len(axes))))
    rest_shape = t.shape[len(axes):]
    t = (np.asarray(m, dtype=complex).reshape(k, k) @ t.reshape(k, -1)).reshape(sub_shape + rest_shape)
    t = np.moveaxis(t, list(range(len(axes))), axes)
    return t.reshape(-1)


def apply_kraus_to_rho(kraus, axes, shape, rho):
    D = dim(shape)
    rho = np.asarray(rho, dtype=complex).reshape(D, D)
    out = np.zeros_like(rho)
    for k in kraus:
        K = embed(k, axes, shape)
        out = out + K @ rho @ K.conj().T
    return out


def basis_vector(index: int, D: int) -> np.ndarray:
    v = np.zeros(D, dtype=complex)
    v[index] = 1
    return v


def digits_to_index(digits: Sequence[int], shape: Sequence[int]) -> int:
    v = 0
    for x, d in zip(digits, shape):
        v = v * d + x
    return v


def index_to_digits(index: int, shape: Sequence[int]):
    out = []
    for d in reversed(shape):
        out.append(index % d)
        index //= d
    return out[::-1]


def kron_all(ms):
    out = np.eye(1, dtype=complex)
    for m in ms:
        out = np.kron(out, m)
    return out


def permute_vector(psi, shape, perm):
    """New vector whose axis j is old axis perm[j]."""
    t = np.asarray(psi).reshape(tuple(shape)).transpose(perm)
    return t.reshape(-1)


def permutation_matrix_qubits(perm, shape):
    """Matrix P with P|x_0..x_{n-1}> = |y> where y[perm[i]] = x[i] (moves wire i to wire perm[i])."""
    shape = tuple(shape)
    D = dim(shape)
    new_shape = [0] * len(shape)
    for i, p in enumerate(perm):
        new_shape[p] = shape[i]
    P = np.zeros((D, D), dtype=complex)
    for idx in range(D):
        x = index_to_digits(idx, shape)
        y = [0] * len(shape)
        for i, p in enumerate(perm):
            y[p] = x[i]
        P[digits_to_index(y, new_shape), idx] = 1
    return P


def phase_align(a: np.ndarray, ref: np.ndarray):
    """Return a * phase so that it best matches ref (phase of largest |ref| entry)."""
    a = np.asarray(a)
    ref = np.asarray(ref)
    k = int(np.argmax(np.abs(ref)))
    r = ref.reshape(-1)[k]
    x = a.reshape(-1)[k]
    if abs(x) < 1e-12 or abs(r) < 1e-12:
        return a
    return a * ((r / abs(r)) / (x / abs(x)))


def max_abs_diff(a, b) -> float:
    a = np.asarray(a)
    b = np.asarray(b)
    if a.shape != b.shape:
        return float("inf")
    if a.size == 0:
        return 0.0
    return float(np.max(np.abs(a - b)))


def diff_up_to_phase(a, ref) -> float:
    a = np.asarray(a)
    ref = np.asarray(ref)
    if a.shape != ref.shape:
        return float("inf")
    return max_abs_diff(phase_align(a, ref), ref)


def is_unitary(m, atol=1e-8) -> bool:
    m = np.asarray(m)
    return m.ndim == 2 and m.shape[0] == m.shape[1] and np.allclose(m @ m.conj().T, np.eye(m.shape[0]), atol=atol)


def kraus_to_choi(kraus) -> np.ndarray:
    """Choi matrix J = sum_k vec(K) vec(K)^dagger with row-major vec; J[(i,j),(k,l)] = sum K[i,j] K*[k,l]."""
    ks = [np.asarray(k, dtype=complex) for k in kraus]
    d0, d1 = ks[0].shape
    J = np.zeros((d0 * d1, d0 * d1), dtype=complex)
    for k in ks:
        v = k.reshape(-1)
        J += np.outer(v, v.conj())
    return J


def kraus_to_superop(kraus) -> np.ndarray:
    """Superoperator acting on row-major vec(rho): sum K (x) K*."""
    ks = [np.asarray(k, dtype=complex) for k in kraus]
    return sum(np.kron(k, k.conj()) for k in ks)


def is_trace_preserving(kraus, atol=1e-7) -> bool:
    ks = [np.asarray(k, dtype=complex) for k in kraus]
    s = sum(k.conj().T @ k for k in ks)
    return np.allclose(s, np.eye(s.shape[0]), atol=atol)


def partial_trace(rho, shape, keep):
    shape = tuple(shape)
    n = len(shape)
    t = np.asarray(rho).reshape(shape + shape)
    drop = [a for a in range(n) if a not in keep]
    letters = "abcdefghijklmnopqrstuvwxyz"
    row = list(letters[:n])
    col = list(letters[n:2 * n])
    for a in drop:
        col[a] = row[a]
    out_row = [row[a] for a in keep]
    out_col = [col[a] for a in keep]
    res = np.einsum("".join(row + col) + "->" + "".join(out_row + out_col), t)
    k = dim([shape[a] for a in keep])
    return res.reshape(k, k)


def pauli_string_matrix(paulis: Sequence[str], coeff: complex = 1.0) -> np.ndarray:
    return coeff * kron_all([PAULI[p] for p in paulis])


def random_unitary_from_floats(vals: Sequence[float], d: int) -> np.ndarray:
    """Deterministic unitary from 2*d*d drawn floats (QR of the complex matrix they define)."""
    a = np.array(vals[: d * d], dtype=float).reshape(d, d) + 1j * np.array(vals[d * d: 2 * d * d], dtype=float).reshape(d, d)
    a = a + np.eye(d) * 1e-3
    q, r = np.linalg.qr(a)
    ph = np.diag(r).copy()
    ph[np.abs(ph) < 1e-14] = 1
    return q * (ph / np.abs(ph))


def state_from_floats(vals: Sequence[float], D: int) -> np.ndarray:
    v = np.array(vals[:D], dtype=float) + 1j * np.array(vals[D: 2 * D], dtype=float)
    nrm = np.linalg.norm(v)
    if nrm < 1e-6:
        v = np.zeros(D, dtype=complex)
        v[0] = 1
        return v
    return v / nrm
