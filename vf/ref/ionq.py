"""Independent interpreter of IonQ job payloads (plain numpy; shares no code with cirq_ionq).

Sources of the semantics (all quoted inside the repository, none of it executed here):

* QIS gates (``"gateset": "qis"``), IonQ API gate table: ``x y z h s si t ti v vi swap cnot`` are the textbook
  matrices (``v`` = sqrt(X), ``vi`` its inverse, ``s`` = diag(1, i), ``t`` = diag(1, e^{i pi/4})); ``rx ry rz`` with a
  ``rotation`` in *radians* are ``exp(-i rotation sigma / 2)``; ``xx yy zz`` with a ``rotation`` in radians are
  ``exp(-i rotation sigma (x) sigma / 2)``; ``cnot`` carries ``control``/``target`` (or ``controls``/``targets``).
* ``pauliexp``: ``exp(-i * time * sum_k coefficients[k] * terms[k])``; the serializer's comment states that IonQ's Pauli
  strings are little-endian relative to ``targets`` (the *last* character acts on ``targets[0]``).
* native gates (``"gateset": "native"``), matrices from the class docstrings of ``cirq_ionq.ionq_native_gates`` (= IonQ's
  "getting started with native gates" guide), all phases / angles in *turns*:
  ``gpi(phi)   = [[0, e^{-2 pi i phi}], [e^{2 pi i phi}, 0]]``
  ``gpi2(phi)  = 1/sqrt2 [[1, -i e^{-2 pi i phi}], [-i e^{2 pi i phi}, 1]]``
  ``ms(phi0, phi1, theta)`` = cos(pi theta) on the diagonal, ``-i e^{-+2 pi i (phi0 +- phi1)} sin(pi theta)`` on the
  anti-diagonal, ``zz(theta) = diag(e^{-i pi theta}, e^{i pi theta}, e^{i pi theta}, e^{-i pi theta})``.
* qubit ``k`` of the program is wire ``k``; the program has ``body["qubits"]`` wires.  The reference register is
  big-endian in the wire number (wire 0 = most significant), like ``vf.ref.linalg``.
* measurement metadata (``Serializer._serialize_measurements`` docstring): the values of ``measurement0``,
  ``measurement1``, ... concatenated; records separated by chr(30); each record is ``key chr(31) comma-separated
  targets``.
* result histograms: IonQ's integer keys are little-endian, bit ``q`` of the key (value ``1 << q``) is qubit ``q``.
"""
from __future__ import annotations

import cmath
import json
import math
import re
from typing import Dict, List, Sequence, Tuple

import numpy as np

from . import linalg as L


class PayloadError(Exception):
    """The payload is not a well-formed IonQ program (unknown gate, bad targets, ...)."""


_SQ = 1 / math.sqrt(2)
_FIXED1 = {
    "x": L.PX, "not": L.PX, "y": L.PY, "z": L.PZ,
    "h": np.array([[_SQ, _SQ], [_SQ, -_SQ]], dtype=complex),
    "s": np.diag([1, 1j]).astype(complex), "si": np.diag([1, -1j]).astype(complex),
    "t": np.diag([1, cmath.exp(1j * math.pi / 4)]).astype(complex),
    "ti": np.diag([1, cmath.exp(-1j * math.pi / 4)]).astype(complex),
    "v": 0.5 * np.array([[1 + 1j, 1 - 1j], [1 - 1j, 1 + 1j]], dtype=complex),
    "vi": 0.5 * np.array([[1 - 1j, 1 + 1j], [1 + 1j, 1 - 1j]], dtype=complex),
}
_ROT1 = {"rx": L.PX, "ry": L.PY, "rz": L.PZ}
_ROT2 = {"xx": L.PX, "yy": L.PY, "zz": L.PZ}
_SWAP = np.array([[1, 0, 0, 0], [0, 0, 1, 0], [0, 1, 0, 0], [0, 0, 0, 1]], dtype=complex)
_CNOT = np.array([[1, 0, 0, 0], [0, 1, 0, 0], [0, 0, 0, 1], [0, 0, 1, 0]], dtype=complex)


def _exp_pauli(theta: float, p: np.ndarray) -> np.ndarray:
    """exp(-i theta P / 2) for an involution P."""
    return math.cos(theta / 2) * np.eye(p.shape[0], dtype=complex) - 1j * math.sin(theta / 2) * p


def _num(x, what):
    if isinstance(x, bool) or not isinstance(x, (int, float)) or not math.isfinite(x):
        raise PayloadError(f"{what} is not a finite number: {x!r}")
    return float(x)


def _targets(op, n, count=None) -> List[int]:
    if "targets" in op:
        t = op["targets"]
    elif "target" in op:
        t = [op["target"]]
    else:
        raise PayloadError(f"op without targets: {op}")
    t = list(t)
    for x in t:
        if isinstance(x, bool) or not isinstance(x, int) or not 0 <= x < n:
            raise PayloadError(f"target {x!r} outside 0..{n - 1}: {op}")
    if count is not None and len(t) != count:
        raise PayloadError(f"gate {op.get('gate')} needs {count} targets: {op}")
    return t


def _controls(op, n) -> List[int]:
    c = op["controls"] if "controls" in op else ([op["control"]] if "control" in op else [])
    c = list(c)
    for x in c:
        if isinstance(x, bool) or not isinstance(x, int) or not 0 <= x < n:
            raise PayloadError(f"control {x!r} outside 0..{n - 1}: {op}")
    return c


def op_matrix(op: dict, n: int, gateset: str) -> Tuple[np.ndarray, List[int]]:
    """(matrix, wires) of one serialized op."""
    g = op.get("gate")
    if gateset == "qis":
        if g in ("cnot",):
            c, t = _controls(op, n), _targets(op, n, 1)
            if len(c) != 1:
                raise PayloadError(f"cnot needs one control: {op}")
            return _CNOT, c + t
        if "control" in op or "controls" in op:
            raise PayloadError(f"controls on gate {g} are not used by this serializer: {op}")
        if g in _FIXED1:
            return _FIXED1[g], _targets(op, n, 1)
        if g in _ROT1:
            return _exp_pauli(_num(op.get("rotation"), "rotation"), _ROT1[g]), _targets(op, n, 1)
        if g in _ROT2:
            p = np.kron(_ROT2[g], _ROT2[g])
            return _exp_pauli(_num(op.get("rotation"), "rotation"), p), _targets(op, n, 2)
        if g == "swap":
            return _SWAP, _targets(op, n, 2)
        if g == "pauliexp":
            t = _targets(op, n)
            terms, coeffs = op.get("terms"), op.get("coefficients")
            if not isinstance(terms, list) or not isinstance(coeffs, list) or len(terms) != len(coeffs) or not terms:
                raise PayloadError(f"pauliexp terms/coefficients malformed: {op}")
            time = _num(op.get("time"), "time")
            if time < 0:
                raise PayloadError("pauliexp with negative time")
            h = np.zeros((2 ** len(t), 2 ** len(t)), dtype=complex)
            for term, c in zip(terms, coeffs):
                if not isinstance(term, str) or len(term) != len(t) or any(ch not in "IXYZ" for ch in term):
                    raise PayloadError(f"pauliexp term {term!r} does not fit targets {t}")
                # little-endian string: last character <-> targets[0]
                h += _num(c, "coefficient") * L.pauli_string_matrix(term[::-1])
            w, v = np.linalg.eigh(h)
            return (v * np.exp(-1j * time * w)) @ v.conj().T, t
        raise PayloadError(f"unknown qis gate {g!r}")
    if gateset == "native":
        if g == "gpi":
            phi = _num(op.get("phase"), "phase")
            return np.array([[0, cmath.exp(-2j * math.pi * phi)], [cmath.exp(2j * math.pi * phi), 0]]), _targets(op, n, 1)
        if g == "gpi2":
            phi = _num(op.get("phase"), "phase")
            return _SQ * np.array([[1, -1j * cmath.exp(-2j * math.pi * phi)],
                                   [-1j * cmath.exp(2j * math.pi * phi), 1]]), _targets(op, n, 1)
        if g == "ms":
            ph = op.get("phases")
            if not isinstance(ph, (list, tuple)) or len(ph) != 2:
                raise PayloadError(f"ms needs two phases: {op}")
            p0, p1 = _num(ph[0], "phase"), _num(ph[1], "phase")
            th = _num(op.get("angle", 0.25), "angle")
            c, s = math.cos(math.pi * th), math.sin(math.pi * th)
            m = np.zeros((4, 4), dtype=complex)
            for k in range(4):
                m[k, k] = c
            m[0, 3] = -1j * cmath.exp(-2j * math.pi * (p0 + p1)) * s
            m[3, 0] = -1j * cmath.exp(2j * math.pi * (p0 + p1)) * s
            m[1, 2] = -1j * cmath.exp(-2j * math.pi * (p0 - p1)) * s
            m[2, 1] = -1j * cmath.exp(2j * math.pi * (p0 - p1)) * s
            return m, _targets(op, n, 2)
        if g == "zz":
            # the serializer ships ZZGate.theta in the field "phase" (IonQ's own examples call it "angle")
            th = _num(op["phase"] if "phase" in op else op.get("angle"), "zz angle")
            a, b = cmath.exp(-1j * math.pi * th), cmath.exp(1j * math.pi * th)
            return np.diag([a, b, b, a]).astype(complex), _targets(op, n, 2)
        raise PayloadError(f"unknown native gate {g!r}")
    raise PayloadError(f"unknown gateset {gateset!r}")


def programs(body: dict) -> List[List[dict]]:
    """The op lists of a single-circuit (``circuit``) or batch (``circuits``) body."""
    if "circuits" in body:
        return [c["circuit"] for c in body["circuits"]]
    return [body["circuit"]]


def interpret_ops(ops: Sequence[dict], n: int, gateset: str) -> np.ndarray:
    mats = []
    for op in ops:
        m, wires = op_matrix(op, n, gateset)
        if len(set(wires)) != len(wires):
            raise PayloadError(f"repeated wire in {op}")
        mats.append((m, wires))
    return L.circuit_unitary(mats, [2] * n)


def interpret(body: dict) -> List[np.ndarray]:
    """Unitaries (2^qubits square, big-endian in the wire number) of every circuit of the body."""
    body = json.loads(json.dumps(body))  # what the wire sees; fails on non JSON-able content
    n = body["qubits"]
    if isinstance(n, bool) or not isinstance(n, int) or n < 1:
        raise PayloadError(f"bad qubit count {n!r}")
    return [interpret_ops(ops, n, body["gateset"]) for ops in programs(body)]


_MKEY = re.compile(r"^measurement(\d+)$")


def parse_measurement_metadata(md: Dict[str, str]) -> List[Tuple[str, List[int]]]:
    """[(key, targets)] in serialized order from a ``measurementX`` metadata dict."""
    chunks = []
    for k, v in md.items():
        m = _MKEY.match(k)
        if m:
            if not isinstance(v, str):
                raise PayloadError(f"metadata value of {k} is not a string")
            chunks.append((int(m.group(1)), v))
    chunks.sort()
    if [i for i, _ in chunks] != list(range(len(chunks))):
        raise PayloadError(f"measurement chunks are not numbered 0..k: {[i for i, _ in chunks]}")
    full = "".join(v for _, v in chunks)
    if full == "":
        return []
    out = []
    for rec in full.split(chr(30)):
        parts = rec.split(chr(31))
        if len(parts) != 2:
            raise PayloadError(f"measurement record without exactly one unit separator: {rec!r}")
        try:
            out.append((parts[0], [int(t) for t in parts[1].split(",")]))
        except ValueError:
            raise PayloadError(f"measurement record with non-integer targets: {rec!r}")
    return out


def chunk_sizes(md: Dict[str, str]) -> List[int]:
    return [len(v) for k, v in sorted(md.items()) if _MKEY.match(k)]


# ------------------------------------------------------------------------------------------ results


def little_endian_key(bits: Sequence[int]) -> int:
    """IonQ's histogram key for an outcome ``bits[q]`` = value of qubit q."""
    return sum(int(b) << q for q, b in enumerate(bits))


def big_endian_value(bits: Sequence[int]) -> int:
    v = 0
    for b in bits:
        v = 2 * v + int(b)
    return v
