"""List-of-lists reference model of a circuit (C05).  No cirq import: everything here is written from the
docstrings of ``Circuit`` / ``InsertStrategy`` and from the C05 property statement.

A *layout* is ``list[list[int]]``: one inner list of operation ids per moment.  ``info`` maps an id to an
``OpInfo`` (qubits as ints, measurement keys, control keys, parameter names ...).  The same id may occur in several
moments (after ``circuit * n``); an *instance* is then ``(id, rank)`` with rank = n-th occurrence in moment order.
"""
from __future__ import annotations

import dataclasses
from typing import Callable, Dict, Iterable, List, Optional, Sequence, Tuple

Layout = List[List[int]]


@dataclasses.dataclass(frozen=True)
class OpInfo:
    qubits: Tuple[int, ...]
    mkeys: frozenset = frozenset()
    ckeys: frozenset = frozenset()
    params: frozenset = frozenset()
    is_meas: bool = False
    invertible: bool = True

    def on(self, qubits):
        return dataclasses.replace(self, qubits=tuple(qubits))


def conflict_q(a: OpInfo, b: OpInfo) -> bool:
    return not set(a.qubits).isdisjoint(b.qubits)


def conflict_k(a: OpInfo, b: OpInfo) -> bool:
    """measure/measure or measure/control on one key (control/control commutes)."""
    return bool((a.mkeys & b.mkeys) or (a.mkeys & b.ckeys) or (a.ckeys & b.mkeys))


def conflict(a: OpInfo, b: OpInfo, keys: bool = True) -> bool:
    return conflict_q(a, b) or (keys and conflict_k(a, b))


def copy_layout(layout: Layout) -> Layout:
    return [list(m) for m in layout]


def canon(layout: Layout):
    """Order inside a moment is not part of a circuit's value."""
    return [sorted(m) for m in layout]


def compatible(info, moment: Sequence[int], x: int, keys: bool = True) -> bool:
    return not any(conflict(info[y], info[x], keys) for y in moment)


def moment_qubits(info, moment) -> set:
    s = set()
    for y in moment:
        s.update(info[y].qubits)
    return s


def disjoint_moment(info, moment) -> bool:
    seen = set()
    for y in moment:
        for q in info[y].qubits:
            if q in seen:
                return False
            seen.add(q)
    return True


def clamp_index(index: int, n: int) -> int:
    """``Circuit.insert``: negative indices count from the end, everything is limited to 0..len."""
    k = index if index >= 0 else n + index
    return max(0, min(k, n))


# ----------------------------------------------------------------------------- documented placement (I4)


def earliest_index(layout: Layout, info, x: int, end: int) -> int:
    """EARLIEST: scan backward from ``end`` until a moment that conflicts (qubit or key); the op goes just after it.
    Returns ``end`` when moment ``end-1`` conflicts or ``end == 0``."""
    p = end
    j = end - 1
    while j >= 0 and compatible(info, layout[j], x):
        p = j
        j -= 1
    return p


def append_earliest(layout: Layout, info, items) -> Layout:
    """Append op-tree items one by one with EARLIEST; a Moment item always becomes a new last moment."""
    out = copy_layout(layout)
    for kind, ids in items:
        if kind == "m":
            out.append(list(ids))
        else:
            (x,) = ids
            p = earliest_index(out, info, x, len(out))
            if p == len(out):
                out.append([x])
            else:
                out[p].append(x)
    return out


def insert_single(layout: Layout, info, k: int, x: int, strategy: str):
    """All layouts the documentation allows for inserting ONE operation at clamped index k.
    -> list of (layout, p) with p the moment the operation landed in."""

    def new_at(i):
        out = copy_layout(layout)
        out.insert(i, [x])
        return out, i

    def join(i):
        out = copy_layout(layout)
        out[i].append(x)
        return out, i

    n = len(layout)
    if strategy in ("NEW", "NEW_THEN_INLINE"):
        return [new_at(k)]
    if strategy == "INLINE":
        if k > 0 and compatible(info, layout[k - 1], x):
            return [join(k - 1)]
        return [new_at(k)]
    if strategy == "EARLIEST":
        p = earliest_index(layout, info, x, k)
        if p < k:
            return [join(p)]
        # moment k-1 conflicts (or k == 0).  insert_strategy.py: "inserted into a new moment at the desired
        # location"; the repository's own tests (test_insert_earliest_op_with_control_key_unions_with_existing_moment,
        # test_insert_op_tree_earliest) and the property statement also allow sharing the moment AT the location.
        cands = [new_at(k)]
        if k < n and compatible(info, layout[k], x):
            cands.append(join(k))
        return cands
    if strategy == "LATEST":
        c = None
        for j in range(k, n):
            if not compatible(info, layout[j], x):
                c = j
                break
        if c is None:
            return [new_at(n)] if k == n else [join(n - 1)]
        if c == k:
            return [new_at(k)]
        return [join(c - 1)]
    raise KeyError(strategy)


def insert_new(layout: Layout, k: int, items) -> Layout:
    """NEW with any op tree: every operation (and every Moment, intact) gets its own new moment at k, in order."""
    out = copy_layout(layout)
    for j, (kind, ids) in enumerate(items):
        out.insert(k + j, list(ids))
    return out


# ----------------------------------------------------------------------------- instances / order constraints (I3)


def instance_positions(layout: Layout) -> Dict[Tuple[int, int], int]:
    seen: Dict[int, int] = {}
    pos = {}
    for i, m in enumerate(layout):
        for x in m:
            r = seen.get(x, 0)
            seen[x] = r + 1
            pos[(x, r)] = i
    return pos


def check_order(pre: Layout, post: Layout, info, inserted: Sequence[Sequence[int]] = (), point: Optional[dict] = None,
                slack: Optional[dict] = None, bpoint: Optional[dict] = None, zone: Optional[dict] = None, keys_existing: bool = True, keys_inserted: bool = True,
                before_clause: bool = True, intact: bool = True) -> Optional[str]:
    """Order constraints of the property statement for an insertion-type edit.

    ``zone[x]`` (batch_insert): number of op-tree items of x's index group when that group is a multi-op mid-circuit
    EARLIEST insert; its operations may occupy the existing moments point .. point+zone-1.
    ``bpoint`` (default = point) is the index used by the "before" clause (insert_into_range: end of the range).
    ``inserted``: the op-tree items in the order the edit prescribes (an item = ids of one op or of one Moment);
    ``point[x]``: pre-edit moment index the item of x was inserted at; ``slack[x]``: the carve-out for several
    operations inserted mid-circuit with EARLIEST (clause "before everything after the insertion point" is only
    enforced against existing operations at pre-edit index >= point + slack).  Returns a message or None."""
    point = point or {}
    slack = slack or {}
    bpoint = point if bpoint is None else bpoint
    ppre = instance_positions(pre)
    ppost = instance_positions(post)
    ins_ids = [x for it in inserted for x in it]
    ins_set = set(ins_ids)
    existing = [k for k in ppre]
    for k in existing:
        if k not in ppost:
            return f"existing operation id {k[0]} (occurrence {k[1]}) disappeared"
    # (a) existing among themselves
    for a in existing:
        for b in existing:
            if ppre[a] < ppre[b] and conflict(info[a[0]], info[b[0]], keys_existing) and not ppost[a] < ppost[b]:
                return (f"existing conflicting operations id {a[0]} (was moment {ppre[a]}) and id {b[0]} (was moment {ppre[b]}) "
                        f"no longer in strict order: now moments {ppost[a]} and {ppost[b]}")
    ipos = {}
    for x in ins_ids:
        if (x, 0) not in ppost:
            return f"inserted operation id {x} is missing"
        ipos[x] = ppost[(x, 0)]
    # (d) Moments of the op tree stay intact
    if intact:
        for it in inserted:
            if len({ipos[x] for x in it}) > 1:
                return f"operations {list(it)} of one inserted Moment ended up in different moments {[ipos[x] for x in it]}"
    # (b) inserted among themselves
    for i in range(len(inserted)):
        for j in range(i + 1, len(inserted)):
            for x in inserted[i]:
                for y in inserted[j]:
                    if zone and x in point and y in point and point[x] < point[y] < point[x] + zone.get(x, 0):
                        continue  # batch_insert: y's insertion point lies inside the carve-out zone of x's group
                    if conflict(info[x], info[y], keys_inserted) and not ipos[x] < ipos[y]:
                        return (f"inserted conflicting operations id {x} then id {y} are not in the given order: "
                                f"moments {ipos[x]} and {ipos[y]}")
    # (c) inserted vs existing
    for x in ins_ids:
        if x not in point:
            continue
        k = point[x]
        for e in existing:
            if e[0] in ins_set:
                continue
            if not conflict(info[x], info[e[0]], keys_inserted):
                continue
            if ppre[e] < k and not ppost[e] < ipos[x]:
                return (f"inserted operation id {x} (insertion point {k}) landed in moment {ipos[x]}, not after conflicting "
                        f"operation id {e[0]} which was before the insertion point (moment {ppre[e]}, now {ppost[e]})")
            if before_clause and ppre[e] >= bpoint.get(x, k) + slack.get(x, 0) and not ipos[x] < ppost[e]:
                return (f"inserted operation id {x} (insertion point {k}) landed in moment {ipos[x]}, not before conflicting "
                        f"operation id {e[0]} which was at/after the insertion point (moment {ppre[e]}, now {ppost[e]})")
    return None


# ----------------------------------------------------------------------------- exact edits


def zip_layouts(layouts: Sequence[Layout], info, align: str = "LEFT"):
    """-> (layout, None) or (None, moment index of the first overlap)."""
    n = max([len(l) for l in layouts], default=0)
    out = []
    for k in range(n):
        m = []
        for l in layouts:
            j = k if align == "LEFT" else len(l) - n + k
            if 0 <= j < len(l):
                m += l[j]
        if not disjoint_moment(info, m):
            return None, k
        out.append(m)
    return out, None


def concat_ragged(l1: Layout, l2: Layout, info, align: str = "LEFT") -> Layout:
    """Place l2 after l1, then move it inward until just before operations would collide (share a qubit in one
    moment), but never further than aligning the starts (LEFT), the ends (RIGHT) or whichever comes first (FIRST)."""
    n1, n2 = len(l1), len(l2)
    bound = {"LEFT": n1, "RIGHT": n2, "FIRST": min(n1, n2)}[align]
    last1: Dict[int, int] = {}
    for i, m in enumerate(l1):
        for x in m:
            for q in info[x].qubits:
                last1[q] = i
    first2: Dict[int, int] = {}
    for i, m in enumerate(l2):
        for x in m:
            for q in info[x].qubits:
                first2.setdefault(q, i)
    s = bound
    for q, i2 in first2.items():
        if q in last1:
            s = min(s, (n1 - 1 - last1[q]) + i2)
    off2 = n1 - s  # index of l2's first moment relative to l1's first moment (may be negative)
    lo = min(0, off2)
    hi = max(n1, off2 + n2)
    out: Layout = [[] for _ in range(hi - lo)]
    for i, m in enumerate(l1):
        out[i - lo] += m
    for i, m in enumerate(l2):
        out[off2 + i - lo] += m
    return out


def independent_qubit_sets(layout: Layout, info) -> List[set]:
    parent: Dict[int, int] = {}

    def find(a):
        while parent[a] != a:
            parent[a] = parent[parent[a]]
            a = parent[a]
        return a

    for m in layout:
        for x in m:
            qs = info[x].qubits
            for q in qs:
                parent.setdefault(q, q)
            for q in qs[1:]:
                ra, rb = find(qs[0]), find(q)
                if ra != rb:
                    parent[ra] = rb
    groups: Dict[int, set] = {}
    for q in parent:
        groups.setdefault(find(q), set()).add(q)
    return sorted(groups.values(), key=min)


def restrict(layout: Layout, info, qubits: Iterable[int]) -> Layout:
    qs = set(qubits)
    return [[x for x in m if not qs.isdisjoint(info[x].qubits)] for m in layout]


def without_touching(layout: Layout, info, qubits: Iterable[int], moments: Iterable[int]) -> Layout:
    qs = set(qubits)
    out = copy_layout(layout)
    for k in moments:
        if 0 <= k < len(out):
            out[k] = [x for x in out[k] if qs.isdisjoint(info[x].qubits)]
    return out


# ----------------------------------------------------------------------------- queries (I5)


def all_qubits(layout, info) -> set:
    return {q for m in layout for x in m for q in info[x].qubits}


def all_mkeys(layout, info) -> set:
    return {k for m in layout for x in m for k in info[x].mkeys}


def all_params(layout, info) -> set:
    return {k for m in layout for x in m for k in info[x].params}


def has_measurements(layout, info) -> bool:
    return any(info[x].is_meas for m in layout for x in m)


def next_moment_operating_on(layout, info, qubits, start=0, max_distance=None) -> Optional[int]:
    qs = set(qubits)
    n = len(layout)
    stop = n if max_distance is None else min(n, start + max_distance)
    for i in range(max(start, 0), stop):
        if not qs.isdisjoint(moment_qubits(info, layout[i])):
            return i
    return None


def prev_moment_operating_on(layout, info, qubits, end=None, max_distance=None) -> Optional[int]:
    qs = set(qubits)
    n = len(layout)
    if end is None:
        end = n
    lo = 0 if max_distance is None else max(0, end - max_distance)
    for i in range(min(end, n) - 1, lo - 1, -1):
        if not qs.isdisjoint(moment_qubits(info, layout[i])):
            return i
    return None


def op_at(layout, info, q, i) -> Optional[int]:
    if not 0 <= i < len(layout):
        return None
    for x in layout[i]:
        if q in info[x].qubits:
            return x
    return None


def measurements_terminal(layout, info, need_all: bool) -> bool:
    """all: "True iff no measurement is followed by a gate"; any: "some measurements are not followed by a gate"."""
    res = []
    for i, m in enumerate(layout):
        for x in m:
            if info[x].is_meas:
                res.append(next_moment_operating_on(layout, info, info[x].qubits, i + 1) is None)
    return all(res) if need_all else any(res)


def reachable_frontier(layout, info, start: Dict[int, int], blocker: Callable[[int], bool]) -> Dict[int, int]:
    """Reachability definition from the docstring of ``reachable_frontier_from``, with frontier indices read as
    lying *between* moments (as the docstring says): qubit q can be entered at moment i if i == max(start[q], 0) or
    (q, i-1) is reachable; (q, i) is reachable if it is not covered by a blocking operation and either no operation
    covers it and q can be entered, or every qubit of the covering operation can be entered at i.  (Read literally,
    clause 1 of the docstring would make a location reachable even if the covering operation cannot be entered on its
    other qubits, which contradicts the docstring's own "contiguous range" statement.)
    end_q = end of the contiguous reachable range that starts at start[q]."""
    n = len(layout)
    reach = set()

    def blocking(x, i):
        return blocker(x) or any(q not in start or start[q] > i for q in info[x].qubits)

    def enter(q, i):
        return q in start and (i == max(start[q], 0) or (q, i - 1) in reach)

    for i in range(n):
        for q in start:
            x = op_at(layout, info, q, i)
            if x is None:
                ok = enter(q, i)
            else:
                ok = not blocking(x, i) and all(enter(p, i) for p in info[x].qubits)
            if ok:
                reach.add((q, i))
    out = {}
    for q, s in start.items():
        e = max(s, 0)
        if e >= n:
            out[q] = s
            continue
        while e < n and (q, e) in reach:
            e += 1
        out[q] = e
    return out


def findall_between(layout, info, start: Dict[int, int], end: Dict[int, int], omit_crossing: bool):
    n = len(layout)
    involved = set(start) | set(end)
    found = set()
    for q in involved:
        for i in range(start.get(q, 0), end.get(q, n)):
            x = op_at(layout, info, q, i)
            if x is None:
                continue
            if omit_crossing and not involved.issuperset(info[x].qubits):
                continue
            found.add((i, x))
    return sorted(found)


def findall_until_blocked(layout, info, start: Dict[int, int], blocker: Callable[[int], bool]):
    """Docstring of ``findall_operations_until_blocked``: walk moments from min(start); an op is blocking if
    is_blocker(op) or it acts on a blocked qubit; its qubits are blocked from then on; other ops touching a qubit
    whose start index has been reached are reported.  -> (list, ambiguous): the docstring restricts blocking ops to
    the 'light cone' of the frontier without defining it, so a history in which is_blocker fires on an op that touches
    neither a reached frontier qubit nor a blocked qubit is flagged ambiguous (only live == rebuilt is then compared)."""
    out = []
    ambiguous = False
    if not start:
        return out, ambiguous
    blocked = set()
    for i in range(max(0, min(start.values())), len(layout)):
        active = {q for q, s in start.items() if s <= i}
        for x in layout[i]:
            qs = info[x].qubits
            if blocker(x) or not blocked.isdisjoint(qs):
                if blocked.isdisjoint(qs) and active.isdisjoint(qs):
                    ambiguous = True
                blocked.update(qs)
            elif not active.isdisjoint(qs):
                out.append((i, x))
        if blocked.issuperset(start):
            break
    return out, ambiguous
