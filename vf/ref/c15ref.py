"""C15 reference helpers: independent (numpy-only) two-qubit Weyl-chamber arithmetic and builders.

Nothing in here imports Cirq.  Conventions follow vf.ref.linalg (big-endian kron).

Canonical region used by the property (documented for ``cirq.kak_canonicalize_vector``)::

    0 <= |z| <= y <= x <= pi/4,   x == pi/4  =>  z >= 0
"""
from __future__ import annotations

import itertools
import math

import numpy as np

from vf.ref import linalg as L

PI = math.pi
Q = PI / 4

XX = np.kron(L.PX, L.PX)
YY = np.kron(L.PY, L.PY)
ZZ = np.kron(L.PZ, L.PZ)

# magic basis (columns = Bell-like states); any fixed maximally-entangled basis with real local
# action works, the reference only needs that local gates become real orthogonal in it.
_MAGIC = np.array([[1, 0, 0, 1j], [0, 1j, 1, 0], [0, 1j, -1, 0], [1, 0, 0, -1j]], dtype=complex) / math.sqrt(2)


def interaction(x: float, y: float, z: float) -> np.ndarray:
    """exp(i (x XX + y YY + z ZZ)) in closed form (the three terms commute, each squares to 1)."""
    out = np.eye(4, dtype=complex)
    for c, p in ((x, XX), (y, YY), (z, ZZ)):
        out = out @ (math.cos(c) * np.eye(4) + 1j * math.sin(c) * p)
    return out


def polar_unitary(m: np.ndarray) -> np.ndarray:
    """Closest unitary (polar factor) -- re-projection so inputs are unitary to ~1e-16."""
    u, _, vh = np.linalg.svd(np.asarray(m, dtype=complex))
    w = u @ vh
    # one Newton step of the polar iteration removes the residual of the SVD itself
    w = 0.5 * (w + np.linalg.inv(w).conj().T)
    return w


def unitarity_defect(m: np.ndarray) -> float:
    m = np.asarray(m)
    return float(np.max(np.abs(m.conj().T @ m - np.eye(m.shape[0]))))


def canonicalize(x: float, y: float, z: float, face_tol: float = 0.0):
    """Independent canonicaliser of an interaction vector (no local gates tracked).

    Equivalences used: shift of any coordinate by pi/2, permutation of coordinates, sign flip of
    any *two* coordinates.  Brute force over the finite orbit (no swap/negate/shift bookkeeping
    like the code under test): every orbit element that lies in the region is a candidate.
    ``face_tol``: x within face_tol of pi/4 counts as "on the face" (z must then be >= 0), and
    x may exceed pi/4 by at most face_tol.
    """
    v = [((c + Q) % (PI / 2)) - Q for c in (x, y, z)]  # each into [-pi/4, pi/4)
    best = None
    for perm in itertools.permutations(range(3)):
        for sg in ((1, 1, 1), (-1, -1, 1), (-1, 1, -1), (1, -1, -1)):
            w = [sg[i] * v[perm[i]] for i in range(3)]
            for ks in itertools.product((0, 1, -1), repeat=3):
                u0, u1, u2 = (w[i] + ks[i] * (PI / 2) for i in range(3))
                if not (Q + face_tol >= u0 >= u1 >= abs(u2)):
                    continue
                if u0 >= Q - face_tol and u2 < 0:
                    continue
                key = (u0, u1, u2)
                if best is None or key > best:
                    best = key
    assert best is not None, (x, y, z)
    return best


_ORBIT = None


def _orbit_maps():
    """Signed permutations (even number of sign flips) and lattice shifts generating the local-equivalence orbit."""
    global _ORBIT
    if _ORBIT is None:
        mats = []
        for perm in itertools.permutations(range(3)):
            for sg in ((1, 1, 1), (-1, -1, 1), (-1, 1, -1), (1, -1, -1)):
                m = np.zeros((3, 3))
                for i in range(3):
                    m[i, perm[i]] = sg[i]
                mats.append(m)
        shifts = np.array(list(itertools.product((0, 1, -1), repeat=3)), dtype=float) * (PI / 2)
        _ORBIT = (np.stack(mats), shifts)
    return _ORBIT


def weyl_distance(a, b) -> float:
    """Distance between the local-equivalence classes of two (near-canonical) interaction vectors: the minimum
    max-norm distance between b and any orbit image of a (coordinate permutations, pairwise sign flips, shifts by
    pi/2 of magnitude <= 1 per coordinate).  Insensitive to which representative a canonicaliser picks on the walls
    of the Weyl chamber (x = pi/4 face, SWAP corner where a reflection has to be followed by a re-sort)."""
    a = np.array(a, dtype=float)
    b = np.array(b, dtype=float)
    mats, shifts = _orbit_maps()
    img = (mats @ a)[:, None, :] + shifts[None, :, :]
    return float(np.min(np.max(np.abs(img - b), axis=-1)))


class ReferenceUnavailable(Exception):
    """The numpy reference itself could not be evaluated (LAPACK non-convergence); callers reject the case."""


def _normal_eigvals(m: np.ndarray) -> np.ndarray:
    """Eigenvalues of a symmetric unitary matrix.  LAPACK's zgeev occasionally reports non-convergence on exactly
    (block-)diagonal inputs; fall back to the real symmetric eigensolver on a generic combination of the commuting
    real and imaginary parts, and give up (ReferenceUnavailable) if that does not diagonalise m."""
    try:
        return np.linalg.eigvals(m)
    except np.linalg.LinAlgError:
        pass
    try:
        for c in (math.sqrt(2.0), 0.37, 2.9):
            _, v = np.linalg.eigh(np.real(m) + c * np.imag(m))
            d = v.T @ m @ v
            if np.max(np.abs(d - np.diag(np.diag(d)))) < 1e-12:
                return np.diag(d)
    except np.linalg.LinAlgError:
        pass
    raise ReferenceUnavailable("eigenvalues of the magic-basis Gram matrix did not converge")


def weyl_from_matrix(u: np.ndarray):
    """Canonical interaction vector of a 4x4 unitary, from the spectrum of the magic-basis Gram matrix.

    Independent of the code under test: eigvals of (M^+ U M)^T (M^+ U M) for det-normalised U are
    exp(2i theta_j) with theta = (x-y+z, x+y-z, -x-y-z, -x+y+z) up to the Weyl group.
    """
    u = np.asarray(u, dtype=complex)
    det = np.linalg.det(u)
    su = u * np.exp(-1j * np.angle(det) / 4)
    ub = _MAGIC.conj().T @ su @ _MAGIC
    m = ub.T @ ub
    ev = _normal_eigvals(m)
    th = np.angle(ev) / 2  # each theta_j known mod pi, representative in (-pi/2, pi/2]
    n = int(round(float(np.sum(th)) / PI))
    th = list(th)
    # restore sum(theta) == 0 by moving |n| representatives by pi (which ones only changes the
    # result by lattice shifts of pi/2)
    order = sorted(range(4), key=lambda j: -th[j] if n > 0 else th[j])
    for j in order[: abs(n)]:
        th[j] -= PI * (1 if n > 0 else -1)
    t0, t1, t2, t3 = th
    x = (t0 + t1 - t2 - t3) / 4
    y = (-t0 + t1 - t2 + t3) / 4
    z = (t0 - t1 - t2 + t3) / 4
    return canonicalize(x, y, z, face_tol=1e-9)


# --------------------------------------------------------------------------- classes & boundaries


def cz_class(v, t0: float, t1: float | None = None, t2: float | None = None) -> int:
    """Number of full CZ/CNOT gates for canonical vector v; each test has its own tolerance so that a caller
    can enumerate every reading of a tolerance band.  0: local; 1: (pi/4,0,0); 2: z == 0; else 3."""
    t1 = t0 if t1 is None else t1
    t2 = t0 if t2 is None else t2
    x, y, z = v
    if abs(x) < t0 and abs(y) < t0 and abs(z) < t0:
        return 0
    if abs(x - Q) < t1 and abs(y) < t1 and abs(z) < t1:
        return 1
    if abs(z) < t2:
        return 2
    return 3


def sqrt_iswap_class(v, t0: float, t1: float | None = None, t2: float | None = None) -> int:
    """Fewest sqrt-iSWAP gates: 0 local, 1 at (pi/8,pi/8,0), 2 if x >= y+|z|, else 3 (per-test tolerances)."""
    t1 = t0 if t1 is None else t1
    t2 = t0 if t2 is None else t2
    x, y, z = v
    if abs(x) <= t0 and abs(y) <= t0 and abs(z) <= t0:
        return 0
    if abs(x - PI / 8) <= t1 and abs(y - PI / 8) <= t1 and abs(z) <= t1:
        return 1
    if x + t2 >= y + abs(z):
        return 2
    return 3


def shende_count(v, t0: float, t1: float | None = None, t2: float | None = None) -> int:
    """CNOT count from the trace invariants of Shende et al. (Prop. III.1-3) evaluated on the class vector."""
    t1 = t0 if t1 is None else t1
    t2 = t0 if t2 is None else t2
    x, y, z = v
    th = np.array([x - y + z, x + y - z, -x - y - z, -x + y + z])
    a3 = -np.sum(np.exp(2j * th))
    a2 = (a3 * a3 - np.sum(np.exp(4j * th))) / 2
    if abs(a3 - 4) < t0 or abs(a3 + 4) < t0:
        return 0
    if abs(a3) < t1 and abs(a2 - 2) < t1:
        return 1
    if abs(a3.imag) < t2:
        return 2
    return 3


def admissible(fn, v, tol: float, band: float = 100.0):
    """All outcomes of ``fn`` when every individual test may read the tolerance anywhere in [tol/band, tol*band]."""
    lo, hi = tol / band, tol * band
    return {fn(v, a, b, c) for a in (lo, hi) for b in (lo, hi) for c in (lo, hi)}


# --------------------------------------------------------------------------- one-qubit builders


def rot(axis, angle: float) -> np.ndarray:
    """exp(-i angle/2 (n . sigma)) for a (not necessarily normalised) axis."""
    a = np.array(axis, dtype=float)
    nrm = float(np.linalg.norm(a))
    if nrm < 1e-300:
        return np.eye(2, dtype=complex)
    a = a / nrm
    g = a[0] * L.PX + a[1] * L.PY + a[2] * L.PZ
    return math.cos(angle / 2) * np.eye(2, dtype=complex) - 1j * math.sin(angle / 2) * g


def controlled(m: np.ndarray, n_controls: int) -> np.ndarray:
    """Matrix of m controlled by n_controls leading (most significant) qubits, all on |1>."""
    d = m.shape[0]
    D = d * 2 ** n_controls
    out = np.eye(D, dtype=complex)
    out[D - d:, D - d:] = m
    return out
