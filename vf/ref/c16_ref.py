"""Independent references for C16 (Google wire formats).

Nothing in here imports cirq_google's serialization code: the wire conventions are restated from the
proto comments / docstrings (float32 fields, little-endian bit packing, product = first factor slowest...).
"""
from __future__ import annotations

import math
from typing import Any, Dict, List

import numpy as np


# ------------------------------------------------------------------------------------------ numbers


def f32(x) -> float:
    """The value a real number has after travelling through a proto ``float`` field."""
    return float(np.float32(x))


def same_real(got, want_unrounded, rounded=True) -> bool:
    """``got`` equals ``want`` after float32 rounding of ``want`` (exact comparison, no tolerance)."""
    try:
        g = float(got)
    except (TypeError, ValueError):
        return False
    w = f32(want_unrounded) if rounded else float(want_unrounded)
    return g == w or (math.isnan(g) and math.isnan(w))


# ------------------------------------------------------------------------------------------ expressions

POINTS = [
    {"a": 0.7310585786, "b": 1.6180339887, "c": 2.2360679775, "d": 0.5772156649, "t": 3.3166247904, "m": 1.0, "n": 2.0},
    {"a": 1.2599210499, "b": 0.4142135624, "c": 0.9159655942, "d": 2.6651441427, "t": 1.1447298858, "m": 0.0, "n": 3.0},
    {"a": 2.0943951024, "b": 1.7724538509, "c": 0.3678794412, "d": 1.2020569032, "t": 0.6931471806, "m": 2.0, "n": 1.0},
]


def eval_tree(tree, point, rounded=True):
    """Evaluate an expression *recipe* (see vf.gen.c16_gen.EXPR) at a point.  Constants are float32-rounded
    when ``rounded`` (that is what the FloatArg / Arg ``float_value`` fields hold)."""
    k = tree[0]
    if k == "f":
        return f32(tree[1]) if rounded else float(tree[1])
    if k == "s":
        return point[tree[1]]
    if k == "add":
        return eval_tree(tree[1], point, rounded) + eval_tree(tree[2], point, rounded)
    if k == "mul":
        return eval_tree(tree[1], point, rounded) * eval_tree(tree[2], point, rounded)
    if k == "neg":
        return -eval_tree(tree[1], point, rounded)
    if k == "pow":
        return eval_tree(tree[1], point, rounded) ** tree[2]
    raise KeyError(k)


def tree_symbols(tree) -> set:
    k = tree[0]
    if k == "f":
        return set()
    if k == "s":
        return {tree[1]}
    if k in ("add", "mul"):
        return tree_symbols(tree[1]) | tree_symbols(tree[2])
    return tree_symbols(tree[1])


def eval_sympy(expr, point, rounded=True):
    """Own evaluator over a sympy expression built from Symbol/Add/Mul/Pow and numbers (numbers float32-rounded).

    Used for the *original* expression: sympy may have folded constants while building it, so the recipe tree
    cannot be used when two constants were combined before serialization."""
    import sympy

    if isinstance(expr, (int, float)):
        return f32(expr) if rounded else float(expr)
    if isinstance(expr, sympy.Symbol):
        return point[expr.name]
    if isinstance(expr, sympy.Number) or isinstance(expr, sympy.NumberSymbol):
        return f32(float(expr)) if rounded else float(expr)
    if isinstance(expr, sympy.Add):
        return sum(eval_sympy(a, point, rounded) for a in expr.args)
    if isinstance(expr, sympy.Mul):
        r = 1.0
        for a in expr.args:
            r *= eval_sympy(a, point, rounded)
        return r
    if isinstance(expr, sympy.Pow):
        return eval_sympy(expr.args[0], point, rounded) ** eval_sympy(expr.args[1], point, rounded)
    raise TypeError(f"unsupported expression node {type(expr)}")


# ------------------------------------------------------------------------------------------ bit packing


def ref_pack_bits(bits: List[int]) -> bytes:
    """Result.proto: 'bit i of the results is stored in byte i//8 at bit position i%8 (little endian)', zero padded."""
    out = bytearray((len(bits) + 7) // 8)
    for i, b in enumerate(bits):
        if b:
            out[i // 8] |= 1 << (i % 8)
    return bytes(out)


def ref_unpack_bits(data: bytes, n: int) -> List[int]:
    return [(data[i // 8] >> (i % 8)) & 1 for i in range(n)]


# ------------------------------------------------------------------------------------------ sweeps


def sweep_keys(r) -> List[str]:
    k = r[0]
    if k in ("lin", "pts", "frv"):
        return [r[1]]
    if k in ("zip", "prod", "ziplongest"):
        out = []
        for c in r[1]:
            out += sweep_keys(c)
        return out
    if k == "concat":
        return sweep_keys(r[1][0]) if r[1] else []
    if k == "list":
        return list(r[1][0].keys()) if r[1] else []
    return []


# SI prefixes of the units the generator draws (one dimension per group); the wire stores ONE unit per sweep
UNIT_GROUPS = [["ns", "us", "ms"], ["kHz", "MHz", "GHz"], ["mV", "V"]]
UNIT_FACTOR = {"ns": 1e-9, "us": 1e-6, "ms": 1e-3, "s": 1.0, "Hz": 1.0, "kHz": 1e3, "MHz": 1e6, "GHz": 1e9, "uV": 1e-6, "mV": 1e-3, "V": 1.0}


def to_unit(x, u_from, u_to):
    """The number that expresses x [u_from] in u_to (exact powers of ten: multiply or divide by an integer power)."""
    if u_from == u_to:
        return float(x)
    a, b = UNIT_FACTOR[u_from], UNIT_FACTOR[u_to]
    k = round(math.log10(a / b))
    return float(x) * (10.0 ** k) if k >= 0 else float(x) / (10.0 ** (-k))


def lin_units(unit):
    """lin recipes carry unit = None | "ns" | ["ns", "us"] (start unit, stop unit)."""
    if not unit:
        return None, None
    if isinstance(unit, str):
        return unit, unit
    return unit[0], unit[1]


def _val(v, single, f64, base_unit=None):
    """Value of one sweep point after the wire.  v = ["f",x] | ["i",n] | ["str",s] | ["none"] | ["u",x,unit]."""
    t = v[0]
    if t == "f":
        return ("num", float(v[1]) if f64 else f32(v[1]))
    if t == "i":
        # a single point is a ConstValue (int64 kept); several points share a repeated float field
        return ("num", float(v[1])) if single else ("num", float(v[1]) if f64 else f32(v[1]))
    if t == "str":
        return ("str", v[1])
    if t == "none":
        return ("none", None)
    if t == "u":
        # units: a single point is a with_unit ConstValue (double, own unit); several points are floats in the unit of the
        # FIRST point (the proto stores one unit), so points given in another unit of the dimension are converted
        if single:
            return ("unit", float(v[1]), v[2])
        x = to_unit(v[1], v[2], base_unit or v[2])
        return ("unit", x if f64 else f32(x), base_unit or v[2])
    raise KeyError(t)


def sweep_enumerate(r, f64=False) -> List[Dict[str, Any]]:
    """All assignments of a sweep recipe, in order, as dicts key -> tagged value, *after* the wire format."""
    k = r[0]
    if k == "unit":
        return [{}]
    if k == "lin":
        _, key, start, stop, n, unit = r[:6]
        us, ue = lin_units(unit)
        unit = us
        if us:
            stop = to_unit(stop, ue, us)  # the proto keeps the start's unit; the stop is converted into it
        s = float(start) if f64 else f32(start)
        e = float(stop) if f64 else f32(stop)
        out = []
        for i in range(n):
            if n == 1:
                v = s
            else:
                p = i / (n - 1)
                v = s * (1 - p) + e * p
            out.append({key: ("unit", v, unit) if unit else ("num", v)})
        return out
    if k == "pts":
        _, key, vals = r[:3]
        single = len(vals) == 1
        base = vals[0][2] if vals and vals[0][0] == "u" else None
        return [{key: _val(v, single, f64, base)} for v in vals]
    if k == "list":
        rows = r[1]
        single = len(rows) == 1
        return [{kk: _val(vv, single, f64) for kk, vv in row.items()} for row in rows]
    if k == "zip":
        parts = [sweep_enumerate(c, f64) for c in r[1]]
        if not parts:
            return [{}]  # cirq: Zip() of nothing... decided by the caller (never generated)
        n = min(len(p) for p in parts)
        return [_merge(p[i] for p in parts) for i in range(n)]
    if k == "ziplongest":
        parts = [sweep_enumerate(c, f64) for c in r[1]]
        n = max(len(p) for p in parts)
        return [_merge(p[min(i, len(p) - 1)] for p in parts) for i in range(n)]
    if k == "prod":
        out = [{}]
        for c in r[1]:
            part = sweep_enumerate(c, f64)
            out = [_merge([a, b]) for a in out for b in part]  # first factor slowest
        return out
    if k == "concat":
        out = []
        for c in r[1]:
            out += sweep_enumerate(c, f64)
        return out
    raise KeyError(k)


def _merge(ds):
    out = {}
    for d in ds:
        out.update(d)
    return out


def sweep_depth(r) -> int:
    if r[0] in ("zip", "prod", "concat", "ziplongest"):
        return 1 + max([sweep_depth(c) for c in r[1]] or [0])
    return 0


# ------------------------------------------------------------------------------------------ devices

# DeviceSpecification.GateSpecification name -> probe kinds it makes valid (device.proto comments / GridDevice docs)
SPEC_ACCEPTS = {
    "syc": {"SYC", "FSIM_SYC"},
    "sqrt_iswap": {"SQRT_ISWAP", "FSIM_SQRT_ISWAP"},
    "sqrt_iswap_inv": {"SQRT_ISWAP_INV", "FSIM_SQRT_ISWAP_INV"},
    "cz": {"CZ", "FSIM_CZ"},
    "cz_pow_gate": {"CZ", "CZ_POW"},
    "phased_xz": {"PHXZ", "XPOW", "YPOW", "HPOW", "PHX", "IDENT", "CLIFF"},
    "virtual_zpow": {"ZPOW"},
    "physical_zpow": {"ZPOW_PHYS"},
    "coupler_pulse": {"COUPLER"},
    "meas": {"MEAS1", "MEAS2", "MEAS3"},
    "wait": {"WAIT1", "WAIT2", "WAITU"},
    "fsim_via_model": {"FSIM_MODEL"},
    "two_pulse_fsim": {"FSIM_TWO_PULSE"},
    "internal_gate": {"INTERNAL1", "INTERNAL2"},
    "reset": {"RESET"},
    "analog_detune_qubit": {"ADQ"},
    "analog_detune_coupler_only": {"ADCO1"},
    "wait_gate_with_unit": {"WAITU"},
}
VARIADIC = {"MEAS1", "MEAS2", "MEAS3", "WAIT1", "WAIT2", "WAITU"}


def spec_invalid_reason(spec):
    """Documented reasons for GridDevice.from_proto to raise ValueError, evaluated on the recipe."""
    qs = spec["qubits"]
    names = [q if isinstance(q, str) else f"{q[0]}_{q[1]}" for q in qs]
    if len(set(names)) != len(names):
        return "duplicate qubit"
    import re

    for n in names:
        if re.match(r"^[0-9]+_[0-9]+$", n) is None:
            return "qubit name not <int>_<int>"
    for ts in spec["targets"]:
        for t in ts["t"]:
            for i in t:
                if isinstance(i, str):
                    return "target qubit not in valid_qubits"
        if ts["ord"] == "SYMMETRIC":
            for t in ts["t"]:
                if len(set(t)) < len(t):
                    return "symmetric self loop"
        if ts["ord"] == "ASYMMETRIC":
            return "asymmetric"
    for a in spec.get("attrs", []):
        if isinstance(a[0], str):
            return "attribute qubit not in valid_qubits"
    return None


def spec_pairs(spec):
    out = set()
    for ts in spec["targets"]:
        if ts["ord"] == "SYMMETRIC":
            for t in ts["t"]:
                if len(t) == 2:
                    out.add(frozenset(t))
    return out


def spec_allows(spec, kind, qubit_idx, on_device):
    """Reference for validate_operation: gate in the gate set, qubits on device, 2-qubit non-variadic ops on a pair."""
    accepted = set()
    for g in spec["gates"]:
        accepted |= SPEC_ACCEPTS[g[0]]
    if kind not in accepted:
        return False
    if not all(on_device):
        return False
    if len(qubit_idx) == 2 and kind not in VARIADIC:
        if frozenset(qubit_idx) not in spec_pairs(spec):
            return False
    return True
