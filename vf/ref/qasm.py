"""Independent reader for the OpenQASM 2.0 / 3.0 subset that Cirq emits (plain python + numpy).

Shares no code with Cirq (neither the exporter nor cirq.contrib.qasm_import).

* tokenizer + recursive-descent parser for
    2.0: ``OPENQASM 2.0; include "qelib1.inc"; qreg/creg; gate ... { } ; opaque; barrier; reset; measure a -> c;
          if (creg==int) qop; U(..) q; CX a,b; name(params) qargs;``  (grammar of arXiv:1707.03429, appendix A)
    3.0: ``OPENQASM 3.0; include "stdgates.inc"; qubit[n] q; bit[n] c; c[i] = measure q[j]; measure q -> c;
          if (expr) stmt | { stmts } [else ...]; gate ... { }; U / gphase; reset; barrier``
  Register broadcast follows the 2.0 paper (whole registers of equal size, or register + single qubits).
* gate library
    - ``QELIB1_PAPER``: the text of qelib1.inc as printed in the 2.0 paper, *parsed by this parser*; every gate is
      therefore a sequence of the two built-ins ``U(theta,phi,lambda) = Rz(phi) Ry(theta) Rz(lambda)`` and ``CX``.
    - ``EXT``: the mnemonics that only Qiskit's extended qelib1.inc / the 3.0 stdgates.inc define, as closed-form
      matrices written from their definitions (``sx = pow(1/2) @ x`` ...).  Using one of them under
      ``include "qelib1.inc"`` (or one that stdgates.inc lacks under 3.0) is *recorded* in ``Program.ext_used``.
    - ``selftest()`` cross-checks every paper body against the closed forms (double-entry bookkeeping).
  Unknown mnemonics, undeclared registers, out-of-range indices, wrong arities, malformed numbers
  (``1e-5`` is not a 2.0 real) raise ``QasmError``.
* conventions: a gate's matrix is big-endian over its *argument list* (first argument = most significant), the
  register ``q`` of size n is laid out as qubit index i -> axis ``offset(q)+i``.  A creg read as an integer has
  **bit 0 as the least significant bit** (2.0 paper section 3.3 "if(creg==int)"; 3.0 spec: bit[n] cast to int).

``parse(text) -> Program``; ``Program.ops`` is a flat list
    {"t":"u","m":matrix,"ax":[...],"name":str,"params":[...]} | {"t":"measure","q":i,"c":(creg,j)} |
    {"t":"reset","q":i} | {"t":"barrier","qs":[...]} | {"t":"if","cond":ast,"body":[ops],"orelse":[ops]}
condition ast: ("int",v) | ("creg",name) | ("cbit",name,j) | ("cmp",op,a,b) | ("and"|"or",a,b) | ("not",a)
"""
from __future__ import annotations

import cmath
import math
import re
from dataclasses import dataclass, field
from typing import Dict, List, Optional, Tuple

import numpy as np

from . import linalg as L


class QasmError(Exception):
    pass


# ----------------------------------------------------------------------------------------- tokenizer

_TOKEN_RE = re.compile(
    r"""
    (?P<ws>[ \t\r\n]+)
  | (?P<lcomment>//[^\n]*)
  | (?P<bcomment>/\*.*?\*/)
  | (?P<real>(?:[0-9]+\.[0-9]*|\.[0-9]+)(?:[eE][-+]?[0-9]+)?)
  | (?P<sci>[0-9]+[eE][-+]?[0-9]+)
  | (?P<int>[0-9]+)
  | (?P<str>"[^"\n]*")
  | (?P<id>[A-Za-z_πτℇ][A-Za-z0-9_]*)
  | (?P<sym>->|==|!=|<=|>=|&&|\|\||\*\*|[;,()\[\]{}=+\-*/^<>!@&|~%:])
    """,
    re.VERBOSE | re.DOTALL,
)


@dataclass
class Tok:
    kind: str  # id real sci int str sym eof
    val: str
    line: int


def tokenize(text: str):
    """-> (tokens, comments) ; comments = [(line, text)]"""
    toks: List[Tok] = []
    comments: List[Tuple[int, str]] = []
    pos, line = 0, 1
    n = len(text)
    while pos < n:
        m = _TOKEN_RE.match(text, pos)
        if m is None:
            raise QasmError(f"line {line}: unexpected character {text[pos]!r}")
        kind = m.lastgroup
        s = m.group(kind)
        if kind == "lcomment":
            comments.append((line, s[2:].strip()))
        elif kind == "bcomment":
            comments.append((line, s[2:-2].strip()))
        elif kind != "ws":
            toks.append(Tok(kind, s, line))
        line += s.count("\n")
        pos = m.end()
    toks.append(Tok("eof", "", line))
    return toks, comments


# ----------------------------------------------------------------------------------------- built-in matrices


def u_paper(theta, phi, lam):
    """2.0 paper, eq. (2): U(theta,phi,lambda) := Rz(phi) Ry(theta) Rz(lambda)."""
    c, s = math.cos(theta / 2), math.sin(theta / 2)
    return np.array(
        [[cmath.exp(-1j * (phi + lam) / 2) * c, -cmath.exp(-1j * (phi - lam) / 2) * s],
         [cmath.exp(1j * (phi - lam) / 2) * s, cmath.exp(1j * (phi + lam) / 2) * c]], dtype=complex)


def u_v3(theta, phi, lam):
    """3.0 spec, built-in U: [[cos, -e^{i lam} sin], [e^{i phi} sin, e^{i(phi+lam)} cos]] (angles halved)."""
    c, s = math.cos(theta / 2), math.sin(theta / 2)
    return np.array([[c, -cmath.exp(1j * lam) * s], [cmath.exp(1j * phi) * s, cmath.exp(1j * (phi + lam)) * c]], dtype=complex)


CX_M = np.array([[1, 0, 0, 0], [0, 1, 0, 0], [0, 0, 0, 1], [0, 0, 1, 0]], dtype=complex)


def _ctrl(m):
    k = m.shape[0]
    out = np.eye(2 * k, dtype=complex)
    out[k:, k:] = m
    return out


def _rot(p, theta):
    return math.cos(theta / 2) * L.I2 - 1j * math.sin(theta / 2) * p


_H = np.array([[1, 1], [1, -1]], dtype=complex) / math.sqrt(2)
_SX = np.array([[1 + 1j, 1 - 1j], [1 - 1j, 1 + 1j]], dtype=complex) / 2
_SWAP = np.array([[1, 0, 0, 0], [0, 0, 1, 0], [0, 1, 0, 0], [0, 0, 0, 1]], dtype=complex)


def _ph(lam):
    return np.diag([1, cmath.exp(1j * lam)]).astype(complex)


# closed forms: name -> (n_params, n_qubits, fn(*params) -> matrix).  Written from the *meaning* of each gate in
# the 3.0 stdgates.inc (``ctrl @``, ``pow(1/2) @`` ...) and Qiskit's qelib1.inc header comments.
CLOSED: Dict[str, Tuple[int, int, object]] = {
    "u3": (3, 1, lambda t, p, l: u_v3(t, p, l)),
    "u2": (2, 1, lambda p, l: u_v3(math.pi / 2, p, l)),
    "u1": (1, 1, lambda l: _ph(l)),
    "u": (3, 1, lambda t, p, l: u_v3(t, p, l)),
    "p": (1, 1, lambda l: _ph(l)),
    "phase": (1, 1, lambda l: _ph(l)),
    "u0": (1, 1, lambda g: L.I2.copy()),
    "id": (0, 1, lambda: L.I2.copy()),
    "x": (0, 1, lambda: L.PX.copy()),
    "y": (0, 1, lambda: L.PY.copy()),
    "z": (0, 1, lambda: L.PZ.copy()),
    "h": (0, 1, lambda: _H.copy()),
    "s": (0, 1, lambda: _ph(math.pi / 2)),
    "sdg": (0, 1, lambda: _ph(-math.pi / 2)),
    "t": (0, 1, lambda: _ph(math.pi / 4)),
    "tdg": (0, 1, lambda: _ph(-math.pi / 4)),
    "sx": (0, 1, lambda: _SX.copy()),
    "sxdg": (0, 1, lambda: _SX.conj().T.copy()),
    "rx": (1, 1, lambda t: _rot(L.PX, t)),
    "ry": (1, 1, lambda t: _rot(L.PY, t)),
    "rz": (1, 1, lambda t: _rot(L.PZ, t)),
    "cx": (0, 2, lambda: CX_M.copy()),
    "CX": (0, 2, lambda: CX_M.copy()),
    "cy": (0, 2, lambda: _ctrl(L.PY)),
    "cz": (0, 2, lambda: _ctrl(L.PZ)),
    "ch": (0, 2, lambda: _ctrl(_H)),
    "csx": (0, 2, lambda: _ctrl(_SX)),
    "swap": (0, 2, lambda: _SWAP.copy()),
    "cp": (1, 2, lambda l: _ctrl(_ph(l))),
    "cphase": (1, 2, lambda l: _ctrl(_ph(l))),
    "cu1": (1, 2, lambda l: _ctrl(_ph(l))),
    "crx": (1, 2, lambda t: _ctrl(_rot(L.PX, t))),
    "cry": (1, 2, lambda t: _ctrl(_rot(L.PY, t))),
    "crz": (1, 2, lambda t: _ctrl(_rot(L.PZ, t))),
    "cu3": (3, 2, lambda t, p, l: _ctrl(u_v3(t, p, l))),
    "cu": (4, 2, lambda t, p, l, g: _ctrl(cmath.exp(1j * g) * u_v3(t, p, l))),
    "rxx": (1, 2, lambda t: math.cos(t / 2) * np.eye(4) - 1j * math.sin(t / 2) * np.kron(L.PX, L.PX)),
    "rzz": (1, 2, lambda t: math.cos(t / 2) * np.eye(4) - 1j * math.sin(t / 2) * np.kron(L.PZ, L.PZ)),
    "ccx": (0, 3, lambda: _ctrl(CX_M)),
    "cswap": (0, 3, lambda: _ctrl(_SWAP)),
    "c3x": (0, 4, lambda: _ctrl(_ctrl(CX_M))),
    "c4x": (0, 5, lambda: _ctrl(_ctrl(_ctrl(CX_M)))),
}

# qelib1.inc exactly as printed in the OpenQASM 2.0 paper (arXiv:1707.03429v2, appendix "qelib1.inc")
QELIB1_PAPER = """
gate u3(theta,phi,lambda) q { U(theta,phi,lambda) q; }
gate u2(phi,lambda) q { U(pi/2,phi,lambda) q; }
gate u1(lambda) q { U(0,0,lambda) q; }
gate cx c,t { CX c,t; }
gate id a { U(0,0,0) a; }
gate x a { u3(pi,0,pi) a; }
gate y a { u3(pi,pi/2,pi/2) a; }
gate z a { u1(pi) a; }
gate h a { u2(0,pi) a; }
gate s a { u1(pi/2) a; }
gate sdg a { u1(-pi/2) a; }
gate t a { u1(pi/4) a; }
gate tdg a { u1(-pi/4) a; }
gate rx(theta) a { u3(theta,-pi/2,pi/2) a; }
gate ry(theta) a { u3(theta,0,0) a; }
gate rz(phi) a { u1(phi) a; }
gate cz a,b { h b; cx a,b; h b; }
gate cy a,b { sdg b; cx a,b; s b; }
gate ch a,b {
h b; sdg b;
cx a,b;
h b; t b;
cx a,b;
t b; h b; s b; x b; s a;
}
gate ccx a,b,c
{
  h c;
  cx b,c; tdg c;
  cx a,c; t c;
  cx b,c; tdg c;
  cx a,c; t b; t c; h c;
  cx a,b; t a; tdg b;
  cx a,b;
}
gate crz(lambda) a,b
{
  u1(lambda/2) b;
  cx a,b;
  u1(-lambda/2) b;
  cx a,b;
}
gate cu1(lambda) a,b
{
  u1(lambda/2) a;
  cx a,b;
  u1(-lambda/2) b;
  cx a,b;
  u1(lambda/2) b;
}
gate cu3(theta,phi,lambda) c, t
{
  u1((lambda-phi)/2) t;
  cx c,t;
  u3(-theta/2,0,-(phi+lambda)/2) t;
  cx c,t;
  u3(theta/2,phi,0) t;
}
"""
PAPER_SET = ["u3", "u2", "u1", "cx", "id", "x", "y", "z", "h", "s", "sdg", "t", "tdg", "rx", "ry", "rz", "cz", "cy",
             "ch", "ccx", "crz", "cu1", "cu3"]
# Qiskit's qelib1.inc adds:
QELIB1_EXT = ["u", "p", "u0", "sx", "sxdg", "swap", "cswap", "crx", "cry", "cp", "csx", "cu", "rxx", "rzz", "c3x", "c4x"]
# stdgates.inc of OpenQASM 3.0 (spec, "Standard library"):
STDGATES = ["p", "x", "y", "z", "h", "s", "sdg", "t", "tdg", "sx", "rx", "ry", "rz", "cx", "cy", "cz", "cp", "crx",
            "cry", "crz", "ch", "swap", "ccx", "cswap", "cu", "CX", "phase", "cphase", "id", "u1", "u2", "u3"]


@dataclass
class GateDef:
    name: str
    params: List[str]
    qargs: List[str]
    body: list  # [(name, [param expr ast], [qarg names])] ; ("barrier", [], names) ignored
    opaque: bool = False


@dataclass
class Program:
    version: str = ""
    includes: List[str] = field(default_factory=list)
    qregs: Dict[str, Tuple[int, int]] = field(default_factory=dict)  # name -> (offset, size)
    cregs: Dict[str, int] = field(default_factory=dict)  # name -> size (declaration order)
    creg_comments: Dict[str, str] = field(default_factory=dict)  # trailing comment on the declaration line
    ops: List[dict] = field(default_factory=list)
    calls: List[str] = field(default_factory=list)  # top-level mnemonics in order (incl. measure/reset/if)
    ext_used: List[str] = field(default_factory=list)  # extended-library mnemonics used (sorted, unique)
    comments: List[Tuple[int, str]] = field(default_factory=list)
    n_qubits: int = 0
    n_statements: int = 0  # gate-application statements
    n_param_statements: int = 0  # ... of which carry at least one angle parameter (for rounding tolerances)


# ----------------------------------------------------------------------------------------- expressions

_FUNCS = {"sin": math.sin, "cos": math.cos, "tan": math.tan, "exp": math.exp, "ln": math.log, "sqrt": math.sqrt,
          "arcsin": math.asin, "arccos": math.acos, "arctan": math.atan, "log": math.log}
_CONSTS = {"pi": math.pi, "π": math.pi, "tau": 2 * math.pi, "τ": 2 * math.pi, "euler": math.e, "ℇ": math.e}


def eval_expr(ast, envd):
    k = ast[0]
    if k == "num":
        return ast[1]
    if k == "var":
        if ast[1] in envd:
            return envd[ast[1]]
        if ast[1] in _CONSTS:
            return _CONSTS[ast[1]]
        raise QasmError(f"unknown identifier {ast[1]!r} in expression")
    if k == "neg":
        return -eval_expr(ast[1], envd)
    if k == "fn":
        return _FUNCS[ast[1]](eval_expr(ast[2], envd))
    a, b = eval_expr(ast[2], envd), eval_expr(ast[3], envd)
    op = ast[1]
    if op == "+":
        return a + b
    if op == "-":
        return a - b
    if op == "*":
        return a * b
    if op == "/":
        if b == 0:
            raise QasmError("division by zero in expression")
        return a / b
    if op == "^":
        return a ** b
    raise QasmError(f"bad operator {op}")


def eval_cond(ast, getbit, cregs) -> int:
    """Evaluate a condition ast; ``getbit(name, j)`` -> current value of a classical bit."""
    k = ast[0]
    if k == "int":
        return ast[1]
    if k == "creg":
        return sum(getbit(ast[1], j) << j for j in range(cregs[ast[1]]))  # bit 0 = least significant
    if k == "cbit":
        return getbit(ast[1], ast[2])
    if k == "not":
        return int(not eval_cond(ast[1], getbit, cregs))
    if k == "and":
        return int(bool(eval_cond(ast[1], getbit, cregs)) and bool(eval_cond(ast[2], getbit, cregs)))
    if k == "or":
        return int(bool(eval_cond(ast[1], getbit, cregs)) or bool(eval_cond(ast[2], getbit, cregs)))
    if k == "cmp":
        a, b = eval_cond(ast[2], getbit, cregs), eval_cond(ast[3], getbit, cregs)
        return int({"==": a == b, "!=": a != b, "<": a < b, ">": a > b, "<=": a <= b, ">=": a >= b}[ast[1]])
    raise QasmError(f"bad condition node {k}")


def cond_cregs(ast):
    """names of classical registers a condition reads."""
    if ast[0] in ("creg", "cbit"):
        return {ast[1]}
    out = set()
    for x in ast[1:]:
        if isinstance(x, tuple):
            out |= cond_cregs(x)
    return out


# ----------------------------------------------------------------------------------------- parser


class _Parser:
    def __init__(self, text, lib_only=False):
        self.toks, self.comments = tokenize(text)
        self.i = 0
        self.prog = Program(comments=self.comments)
        self.gates: Dict[str, GateDef] = {}
        self.available: Dict[str, str] = {}  # mnemonic -> "paper" | "closed"
        self.ext_ok: set = set()
        self.user_gates: set = set()
        self.cache: Dict[tuple, np.ndarray] = {}
        self.lib_only = lib_only
        self.v3 = False

    # -- token helpers
    def peek(self, k=0):
        return self.toks[min(self.i + k, len(self.toks) - 1)]

    def next(self):
        t = self.toks[self.i]
        self.i += 1
        return t

    def err(self, msg, tok=None):
        tok = tok or self.peek()
        raise QasmError(f"line {tok.line}: {msg} (at {tok.val!r})")

    def accept(self, val):
        t = self.peek()
        if t.kind in ("sym", "id") and t.val == val:
            self.i += 1
            return True
        return False

    def expect(self, val):
        if not self.accept(val):
            self.err(f"expected {val!r}")

    def ident(self):
        t = self.peek()
        if t.kind != "id":
            self.err("expected identifier")
        self.i += 1
        return t.val

    def nninteger(self):
        t = self.peek()
        if t.kind != "int":
            self.err("expected non-negative integer")
        self.i += 1
        if len(t.val) > 1 and t.val[0] == "0" and not self.v3:
            self.err("integer with leading zero", t)
        return int(t.val)

    # -- expressions (2.0 yacc precedences: + - < * / < unary minus < ^ (right))
    def expr(self):
        a = self.term()
        while self.peek().kind == "sym" and self.peek().val in ("+", "-"):
            op = self.next().val
            a = ("bin", op, a, self.term())
        return a

    def term(self):
        a = self.unary()
        while self.peek().kind == "sym" and self.peek().val in ("*", "/"):
            op = self.next().val
            a = ("bin", op, a, self.unary())
        return a

    def unary(self):
        if self.peek().kind == "sym" and self.peek().val == "-":
            self.next()
            return ("neg", self.unary())
        if self.peek().kind == "sym" and self.peek().val == "+":
            self.next()
            return self.unary()
        return self.power()

    def power(self):
        a = self.atom()
        t = self.peek()
        if t.kind == "sym" and (t.val == "^" or (t.val == "**" and self.v3)):
            self.next()
            return ("bin", "^", a, self.unary())
        return a

    def atom(self):
        t = self.next()
        if t.kind == "real":
            return ("num", float(t.val))
        if t.kind == "sci":
            if not self.v3:
                self.err("malformed real number: OpenQASM 2.0 reals need a decimal point", t)
            return ("num", float(t.val))
        if t.kind == "int":
            return ("num", int(t.val))
        if t.kind == "id":
            if t.val in _FUNCS and self.peek().val == "(":
                self.expect("(")
                a = self.expr()
                self.expect(")")
                return ("fn", t.val, a)
            return ("var", t.val)
        if t.kind == "sym" and t.val == "(":
            a = self.expr()
            self.expect(")")
            return a
        self.err("expected expression", t)

    # -- program
    def program(self):
        p = self.prog
        if not self.lib_only:
            if not self.accept("OPENQASM"):
                self.err("program must start with OPENQASM <version>;")
            t = self.next()
            if t.kind not in ("real", "int"):
                self.err("expected version number", t)
            p.version = t.val
            if p.version.split(".")[0] == "3":
                self.v3 = True
            elif p.version != "2.0":
                self.err(f"unsupported OPENQASM version {p.version}", t)
            self.expect(";")
        while self.peek().kind != "eof":
            self.statement(p.ops, top=True)
        p.ext_used = sorted(set(p.ext_used))
        return p

    def _load_lib(self, name):
        if name == "qelib1.inc":
            if self.v3:
                self.err('include "qelib1.inc" in an OpenQASM 3 program')
            sub = _paper_lib()
            for g, d in sub.items():
                self.gates[g] = d
                self.available[g] = "paper"
            for g in QELIB1_EXT:
                self.available.setdefault(g, "closed")
                self.ext_ok.add(g)
        elif name == "stdgates.inc":
            if not self.v3:
                self.err('include "stdgates.inc" in an OpenQASM 2.0 program')
            for g in STDGATES:
                self.available[g] = "closed"
            for g in QELIB1_EXT + PAPER_SET:  # accepted but recorded as extension when stdgates.inc lacks them
                if g not in self.available:
                    self.available[g] = "closed"
                    self.ext_ok.add(g)
        else:
            self.err(f"unknown include file {name!r}")

    def statement(self, out, top=False):
        t = self.peek()
        if t.kind == "sym" and t.val == ";" and self.v3:
            self.next()
            return
        if t.kind != "id":
            self.err("expected statement")
        v = t.val
        if v == "include":
            self.next()
            s = self.next()
            if s.kind != "str":
                self.err("expected file name string", s)
            self.expect(";")
            self.prog.includes.append(s.val[1:-1])
            self._load_lib(s.val[1:-1])
            return
        if v in ("qreg", "creg") and not (self.v3 and False):
            self.next()
            name = self.ident()
            self.expect("[")
            n = self.nninteger()
            self.expect("]")
            semi = self.peek()
            self.expect(";")
            self._declare(v == "qreg", name, n, semi.line)
            return
        if v in ("qubit", "bit") and self.v3:
            self.next()
            n = None
            if self.accept("["):
                n = self.nninteger()
                self.expect("]")
            name = self.ident()
            semi = self.peek()
            self.expect(";")
            self._declare(v == "qubit", name, 1 if n is None else n, semi.line, scalar=n is None)
            return
        if v == "gate":
            self.gatedecl()
            return
        if v == "opaque":
            self.next()
            name = self.ident()
            params = []
            if self.accept("("):
                if not self.accept(")"):
                    params = self.idlist()
                    self.expect(")")
            qargs = self.idlist()
            self.expect(";")
            self.gates[name] = GateDef(name, params, qargs, [], opaque=True)
            self.available[name] = "user"
            return
        if v == "barrier":
            self.next()
            qs = []
            if not (self.peek().val == ";"):
                for a in self.arglist():
                    qs += self._qubits_of(a)
            self.expect(";")
            out.append({"t": "barrier", "qs": qs})
            return
        if v == "reset":
            self.next()
            a = self.argument()
            self.expect(";")
            self.prog.calls.append("reset")
            for q in self._qubits_of(a):
                out.append({"t": "reset", "q": q})
            return
        if v == "measure":
            self.next()
            a = self.argument()
            self.expect("->")
            c = self.argument()
            self.expect(";")
            self._measure(out, a, c)
            return
        if v == "if":
            self.ifstmt(out)
            return
        # 3.0 assignment form:  c[i] = measure q[j];
        if self.v3 and v in self.prog.cregs:
            c = self.argument()
            self.expect("=")
            if not self.accept("measure"):
                self.err("only 'measure' may be assigned to a bit")
            a = self.argument()
            self.expect(";")
            self._measure(out, a, c)
            return
        self.gatecall(out)

    def _declare(self, quantum, name, n, line, scalar=False):
        p = self.prog
        if name in p.qregs or name in p.cregs or name in self.available:
            raise QasmError(f"line {line}: identifier {name!r} declared twice")
        if n < 1:
            raise QasmError(f"line {line}: register {name!r} of size {n}")
        if quantum:
            p.qregs[name] = (p.n_qubits, n)
            p.n_qubits += n
        else:
            p.cregs[name] = n
            for ln, txt in self.comments:
                if ln == line:
                    p.creg_comments[name] = txt

    def idlist(self):
        out = [self.ident()]
        while self.accept(","):
            out.append(self.ident())
        return out

    def argument(self):
        name = self.ident()
        if self.accept("["):
            j = self.nninteger()
            self.expect("]")
            return (name, j)
        return (name, None)

    def arglist(self):
        out = [self.argument()]
        while self.accept(","):
            out.append(self.argument())
        return out

    def _qubits_of(self, a):
        name, j = a
        if name not in self.prog.qregs:
            raise QasmError(f"undeclared quantum register {name!r}")
        off, n = self.prog.qregs[name]
        if j is None:
            return [off + i for i in range(n)]
        if j >= n:
            raise QasmError(f"index {name}[{j}] out of range (size {n})")
        return [off + j]

    def _cbits_of(self, a):
        name, j = a
        if name not in self.prog.cregs:
            raise QasmError(f"undeclared classical register {name!r}")
        n = self.prog.cregs[name]
        if j is None:
            return [(name, i) for i in range(n)]
        if j >= n:
            raise QasmError(f"index {name}[{j}] out of range (size {n})")
        return [(name, j)]

    def _measure(self, out, a, c):
        qs, cs = self._qubits_of(a), self._cbits_of(c)
        if len(qs) != len(cs):
            raise QasmError(f"measure: register sizes differ ({len(qs)} qubits -> {len(cs)} bits)")
        self.prog.calls.append("measure")
        for q, cb in zip(qs, cs):
            out.append({"t": "measure", "q": q, "c": cb})

    def gatedecl(self):
        self.expect("gate")
        name = self.ident()
        params = []
        if self.accept("("):
            if not self.accept(")"):
                params = self.idlist()
                self.expect(")")
        qargs = self.idlist()
        if len(set(qargs)) != len(qargs) or len(set(params)) != len(params):
            self.err(f"gate {name}: repeated formal name")
        self.expect("{")
        body = []
        while not self.accept("}"):
            if self.peek().kind == "eof":
                self.err("unterminated gate body")
            if self.accept("barrier"):
                self.idlist()
                self.expect(";")
                continue
            g = self.ident()
            pexprs = []
            if self.accept("("):
                if not self.accept(")"):
                    pexprs.append(self.expr())
                    while self.accept(","):
                        pexprs.append(self.expr())
                    self.expect(")")
            args = self.idlist()
            self.expect(";")
            for a in args:
                if a not in qargs:
                    self.err(f"gate {name}: body uses undeclared qubit {a!r}")
            if len(set(args)) != len(args):
                self.err(f"gate {name}: repeated qubit in call of {g}")
            self._check_sig(g, len(pexprs), len(args))
            body.append((g, pexprs, args))
        if name in self.available or name in ("U", "CX", "gphase"):
            self.err(f"gate {name!r} defined twice")
        self.gates[name] = GateDef(name, params, qargs, body)
        self.available[name] = "user"
        self.user_gates.add(name)

    def _sig(self, g):
        if g == "U":
            return 3, 1
        if g == "CX" and not self.v3:
            return 0, 2
        if g == "gphase" and self.v3:
            return 1, 0
        kind = self.available.get(g)
        if kind is None:
            return None
        if kind in ("paper", "user"):
            d = self.gates[g]
            return len(d.params), len(d.qargs)
        return CLOSED[g][0], CLOSED[g][1]

    def _check_sig(self, g, np_, nq):
        sig = self._sig(g)
        if sig is None:
            raise QasmError(f"line {self.peek().line}: unknown gate mnemonic {g!r}")
        if sig != (np_, nq):
            raise QasmError(f"line {self.peek().line}: gate {g} expects {sig[0]} parameters / {sig[1]} qubits, got {np_} / {nq}")

    def matrix(self, g, params):
        key = (g, tuple(params))
        m = self.cache.get(key)
        if m is not None:
            return m
        if g == "U":
            m = u_v3(*params) if self.v3 else u_paper(*params)
        elif g == "CX":
            m = CX_M
        elif g == "gphase":
            m = np.array([[cmath.exp(1j * params[0])]])
        elif self.available[g] == "closed":
            m = np.asarray(CLOSED[g][2](*params), dtype=complex)
        else:
            d = self.gates[g]
            if d.opaque:
                raise QasmError(f"opaque gate {g} has no definition")
            k = len(d.qargs)
            envd = dict(zip(d.params, params))
            m = np.eye(2 ** k, dtype=complex)
            for sub, pexprs, args in d.body:
                sm = self.matrix(sub, [float(eval_expr(e, envd)) for e in pexprs])
                if sub == "gphase":
                    m = sm[0, 0] * m
                else:
                    m = L.embed(sm, [d.qargs.index(a) for a in args], [2] * k) @ m
        if len(self.cache) < 20000:
            self.cache[key] = m
        return m

    def gatecall(self, out):
        t = self.peek()
        g = self.ident()
        pexprs = []
        if self.accept("("):
            if not self.accept(")"):
                pexprs.append(self.expr())
                while self.accept(","):
                    pexprs.append(self.expr())
                self.expect(")")
        if g == "gphase" and self.v3:
            self.expect(";")
            self._check_sig(g, len(pexprs), 0)
            out.append({"t": "u", "m": self.matrix(g, [float(eval_expr(pexprs[0], {}))]), "ax": [], "name": g, "params": []})
            return
        args = self.arglist()
        self.expect(";")
        if self._sig(g) is None:
            raise QasmError(f"line {t.line}: unknown gate mnemonic {g!r}")
        self._check_sig(g, len(pexprs), len(args))
        params = [float(eval_expr(e, {})) for e in pexprs]
        for x in params:
            if not math.isfinite(x):
                raise QasmError(f"line {t.line}: non-finite parameter")
        if g in self.ext_ok and g not in self.user_gates:
            self.prog.ext_used.append(g)
        self.prog.calls.append(g)
        m = self.matrix(g, params)
        # broadcast over whole registers
        lists = [self._qubits_of(a) for a in args]
        sizes = {len(l) for a, l in zip(args, lists) if a[1] is None}
        if len(sizes) > 1:
            raise QasmError(f"line {t.line}: broadcast over registers of different sizes")
        reps = sizes.pop() if sizes else 1
        for r in range(reps):
            ax = [l[r] if a[1] is None else l[0] for a, l in zip(args, lists)]
            if len(set(ax)) != len(ax):
                raise QasmError(f"line {t.line}: gate {g} applied to the same qubit twice")
            self.prog.n_statements += 1
            if params:
                self.prog.n_param_statements += 1
            out.append({"t": "u", "m": m, "ax": ax, "name": g, "params": params})

    # -- conditions
    def ifstmt(self, out):
        self.expect("if")
        self.expect("(")
        if not self.v3:
            name = self.ident()
            if name not in self.prog.cregs:
                self.err(f"if: undeclared classical register {name!r}")
            self.expect("==")
            v = self.nninteger()
            cond = ("cmp", "==", ("creg", name), ("int", v))
        else:
            cond = self.cond_or()
        self.expect(")")
        self.prog.calls.append("if")
        body: List[dict] = []
        orelse: List[dict] = []
        if self.v3 and self.accept("{"):
            while not self.accept("}"):
                if self.peek().kind == "eof":
                    self.err("unterminated block")
                self.statement(body)
        else:
            t = self.peek()
            if t.kind != "id" or (not self.v3 and t.val in ("if", "barrier", "gate", "qreg", "creg", "include", "opaque")):
                self.err("if: expected a quantum operation")
            self.statement(body)
        if self.v3 and self.accept("else"):
            if self.accept("{"):
                while not self.accept("}"):
                    if self.peek().kind == "eof":
                        self.err("unterminated block")
                    self.statement(orelse)
            else:
                self.statement(orelse)
        out.append({"t": "if", "cond": cond, "body": body, "orelse": orelse})

    def cond_or(self):
        a = self.cond_and()
        while self.accept("||"):
            a = ("or", a, self.cond_and())
        return a

    def cond_and(self):
        a = self.cond_cmp()
        while self.accept("&&"):
            a = ("and", a, self.cond_cmp())
        return a

    def cond_cmp(self):
        a = self.cond_atom()
        t = self.peek()
        if t.kind == "sym" and t.val in ("==", "!=", "<", ">", "<=", ">="):
            self.next()
            b = self.cond_atom()
            return ("cmp", t.val, a, b)
        return a

    def cond_atom(self):
        if self.accept("!"):
            return ("not", self.cond_atom())
        if self.accept("("):
            a = self.cond_or()
            self.expect(")")
            return a
        t = self.peek()
        if t.kind == "int":
            return ("int", self.nninteger())
        if t.kind == "id":
            if t.val in ("true", "false"):
                self.next()
                return ("int", int(t.val == "true"))
            name, j = self.argument()
            if name not in self.prog.cregs:
                self.err(f"condition uses undeclared classical register {name!r}", t)
            if j is None:
                return ("creg", name)
            if j >= self.prog.cregs[name]:
                self.err(f"index {name}[{j}] out of range", t)
            return ("cbit", name, j)
        self.err("expected condition operand")


_PAPER_LIB = None


def _paper_lib() -> Dict[str, GateDef]:
    global _PAPER_LIB
    if _PAPER_LIB is None:
        p = _Parser(QELIB1_PAPER, lib_only=True)
        p.program()
        _PAPER_LIB = p.gates
    return dict(_PAPER_LIB)


def parse(text: str) -> Program:
    """Parse a complete program (must begin with ``OPENQASM x.y;``)."""
    return _Parser(text).program()


def parse_fragment(fragment: str, n_qubits: int, version: str = "2.0", cregs: Optional[Dict[str, int]] = None) -> Program:
    """Parse statements emitted for a single operation, inside a synthesised header declaring q[n] (+ cregs)."""
    v3 = version.startswith("3")
    head = f"OPENQASM {version};\ninclude \"{'stdgates.inc' if v3 else 'qelib1.inc'}\";\n"
    if n_qubits:
        head += f"qubit[{n_qubits}] q;\n" if v3 else f"qreg q[{n_qubits}];\n"
    for name, n in (cregs or {}).items():
        head += f"bit[{n}] {name};\n" if v3 else f"creg {name}[{n}];\n"
    return parse(head + fragment)


def flat_unitary(prog: Program):
    """[(matrix, axes)] of a program that contains only gate applications (and barriers); else QasmError."""
    out = []
    for op in prog.ops:
        if op["t"] == "u":
            out.append((op["m"], op["ax"]))
        elif op["t"] != "barrier":
            raise QasmError(f"non-unitary statement {op['t']} in a unitary program")
    return out


def selftest():
    """Every paper body equals the closed form of the same mnemonic up to global phase; a few identities."""
    p = _Parser('OPENQASM 2.0;\ninclude "qelib1.inc";\n')
    p.program()
    vals = [0.3, -1.1, 2.2, 0.7]
    worst = 0.0
    for g in PAPER_SET:
        np_, nq, fn = CLOSED[g]
        params = vals[:np_]
        a = p.matrix(g, params)
        b = fn(*params)
        if g == "cu3":
            # the paper's body controls the SU(2) matrix Rz(phi)Ry(theta)Rz(lambda); Qiskit's later file adds
            # ``u1((lambda+phi)/2) c`` to control u_v3 instead.  Cirq never emits cu3.
            b = _ctrl(u_paper(*params))
        d = L.diff_up_to_phase(a, b)
        worst = max(worst, d)
        assert d < 1e-12, (g, d)
    assert L.diff_up_to_phase(u_paper(0.3, 0.4, 0.5), u_v3(0.3, 0.4, 0.5)) < 1e-12
    for g in ["sx", "sxdg"]:
        m = CLOSED[g][2]()
        assert L.max_abs_diff(m @ m, L.PX if g == "sx" else L.PX) < 1e-12
    assert L.max_abs_diff(CLOSED["sx"][2]() @ CLOSED["sxdg"][2](), L.I2) < 1e-12
    return worst
