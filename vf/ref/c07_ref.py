"""Reference helpers for C07: circuit unitaries by independent embedding, permutations, device predicates."""
from __future__ import annotations

import numpy as np

from vf.ref import linalg as L

# fixed, non-symmetric surrogate for a measurement on one qubit (commutes with nothing interesting): used to compare
# two circuits that must contain the *same* measurements at the same causal position
_W = L.random_unitary_from_floats([0.31, -0.72, 0.55, 0.18, 0.43, 0.27, -0.64, 0.81], 2)


def op_matrix(op, measure_surrogate=False):
    """Matrix of one operation (Cirq's own per-op unitary is trusted, composition is not)."""
    import cirq

    if cirq.is_measurement(op):
        if not measure_surrogate:
            return None
        return L.kron_all([_W] * len(op.qubits))
    u = cirq.unitary(op, None)
    return u


def circuit_matrix(circuit, wires, skip_measure=False, measure_surrogate=False, max_dim=256):
    """Ordered product of embedded op matrices over ``wires`` (all qubits); returns (U, n_ops) or (None, reason)."""
    import cirq

    idx = {q: i for i, q in enumerate(wires)}
    shape = [2] * len(wires)
    D = L.dim(shape)
    if D > max_dim:
        return None, "too large"
    U = np.eye(D, dtype=complex)
    n = 0
    for op in circuit.all_operations():
        if cirq.is_measurement(op) and skip_measure:
            continue
        m = op_matrix(op, measure_surrogate)
        if m is None:
            return None, f"no unitary for {op!r}"
        for q in op.qubits:
            if q not in idx:
                return None, f"qubit {q!r} not among wires"
        if len(op.qubits) == 0:
            U = complex(np.asarray(m).reshape(-1)[0]) * U
        else:
            U = L.embed(m, [idx[q] for q in op.qubits], shape) @ U
        n += 1
    return U, n


def phase_distance(a, b):
    """max |a*phase - b| with the phase that maximises overlap (trace inner product); robust for unitaries."""
    a = np.asarray(a)
    b = np.asarray(b)
    if a.shape != b.shape:
        return float("inf")
    ov = np.vdot(a.reshape(-1), b.reshape(-1))  # sum conj(a) b
    if abs(ov) < 1e-12:
        return float(np.max(np.abs(a - b)))
    ph = ov / abs(ov)
    return float(np.max(np.abs(a * ph - b)))


def wire_permutation_matrix(moves, n):
    """P with P|x> = |y>, y[moves[i]] = x[i]  (content of wire i is moved to wire moves[i])."""
    return L.permutation_matrix_qubits(list(moves), [2] * n)


# ------------------------------------------------------------------------------------ device reference predicates
# Truth tables are written per *pool key* (see vf.gen.c07_gen.POOL_KEYS) from the documentation of the devices:
#  * GridDevice: the gate-spec table `_GATES` / device.proto: which Cirq gates each GateSpecification stands for
#  * IonQAPIDevice docstring: XPow/YPow/ZPow, XXPow/YYPow/ZZPow, CNOT, H, SWAP, measurement
#  * AQTTargetGateset docstring: XXPowGate, ZPowGate, PhasedXPowGate, measurement
#  * PasqalGateset docstring / families: H, PhasedXPow, XPow, YPow, ZPow (also in parallel), integer powers of CZ,
#    identity, measurement; optionally integer powers of CNOT, CCNOT, CCZ

_FSIM_SPEC = {"SYC": "syc", "FSIM_SYC": "syc", "SQRT_ISWAP": "sqrt_iswap", "FSIM_SQRT_ISWAP": "sqrt_iswap",
              "SQRT_ISWAP_INV": "sqrt_iswap_inv", "FSIM_SQRT_ISWAP_INV": "sqrt_iswap_inv", "CZ": "cz", "FSIM_CZ": "cz", "CZ_INV": "cz"}
_PHXZ_KEYS = {"X", "X_T", "Y_T", "RX", "H", "H_HALF", "PHX", "PHXZ", "I1", "I2", "CLIFF"}
_Z_KEYS = {"Z_T", "S"}
_FSIM_TYPE_KEYS = {"SYC", "FSIM_SYC", "FSIM_SQRT_ISWAP", "FSIM_SQRT_ISWAP_INV", "FSIM_CZ", "FSIM_OTHER"}  # isinstance(gate, FSimGate)


def grid_member(key, tag, specs):
    """Is the pool gate ``key`` carrying ``tag`` a member of the device gateset described by gate-spec names ``specs``?"""
    specs = set(specs)
    if key in _FSIM_SPEC and _FSIM_SPEC[key] in specs:
        return True
    if key in ("CZ", "CZ_HALF", "CZ_SQ", "CZ_INV") and "cz_pow_gate" in specs:
        return True
    if key in _PHXZ_KEYS and "phased_xz" in specs:
        return True
    if key in _Z_KEYS:
        if tag == "physz":
            return "physical_zpow" in specs
        return "virtual_zpow" in specs
    if key in ("MEAS1", "MEAS2", "MEAS_INV") and "meas" in specs:
        return True
    if key in ("WAIT", "WAIT2") and "wait" in specs:
        return True
    if key == "RESET" and "reset" in specs:
        return True
    if key in _FSIM_TYPE_KEYS:
        if tag == "fsim_model" and "fsim_via_model" in specs:
            return True
        if tag == "two_pulse" and "two_pulse_fsim" in specs:
            return True
    return False


def grid_valid(key, tag, specs, wires, nq, pairs):
    """Reference predicate of GridDevice.validate_operation (docstring): gate in gateset AND every qubit on the device
    AND (two-qubit operation => pair is a device pair; measurement / wait may address any subset of qubits)."""
    if not grid_member(key, tag, specs):
        return False, "gate"
    if any(w >= nq for w in wires):
        return False, "qubit"
    if len(wires) == 2 and key not in ("MEAS2", "WAIT2"):
        if frozenset(wires) not in {frozenset(p) for p in pairs}:
            return False, "pair"
    return True, "ok"


IONQ_OK = {"X", "X_T", "Y_T", "Z_T", "RX", "S", "H", "CNOT", "SWAP", "XX", "YY", "ZZ", "MS", "MEAS1", "MEAS2", "MEAS_INV"}
AQT_OK = {"Z_T", "S", "XX", "MS", "PHX", "MEAS1", "MEAS2", "MEAS_INV"}
PASQAL_BASE = {"X", "X_T", "Y_T", "Z_T", "RX", "S", "H", "PHX", "CZ", "CZ_SQ", "CZ_INV", "I1", "I2", "MEAS1", "MEAS2", "MEAS_INV",
               "PAR_X", "PAR_S"}
PASQAL_CTRL = {"CNOT", "CCX", "CCZ"}
PASQAL_CONTROLLED = {"CZ", "CZ_SQ", "CZ_INV"}  # members of the "controlled gateset" subject to the distance limit
