"""cirq circuit -> vf.ref.interp IR, reading only public attributes, plus instrument comparison helpers.

Per operation:
  * CircuitOperation: flattened here (not via ``mapped_circuit``): ``repetitions`` copies of the body in program
    order, qubits through ``qubit_map``, measurement *and* control keys through ``measurement_key_map``.  Only the
    sub-grammar C06 generates is supported (non-negative integer repetitions, no repetition ids, no parent path,
    no repeat_until, no param resolver); anything else raises ``Unsupported``.
  * ClassicallyControlledOperation: ``classical_controls`` (KeyCondition key/index, BitMaskKeyCondition
    key/index/target_value/equal_target/bitmask, SympyCondition expr/keys) around ``without_classical_controls()``.
  * MeasurementGate: ``key``, ``full_invert_mask()``, ``confusion_map``.
  * anything else: ``cirq.unitary(op)`` if it has one, else ``cirq.kraus(op)``.
Every IR entry carries ``"ign"`` (an enclosing or own tag is in the ignore set) for oracles that need it.
"""
from __future__ import annotations

from typing import Dict, List, Sequence

import numpy as np

from . import interp as I
from . import linalg as L


class Unsupported(Exception):
    pass


def _ident(x):
    return x


def _cond_ir(cond, kf):
    import cirq

    def mk(key):
        return kf(str(key))

    if isinstance(cond, cirq.BitMaskKeyCondition):
        return {"t": "bitmask", "key": mk(cond.key), "index": int(cond.index), "target": int(cond.target_value),
                "equal": bool(cond.equal_target), "mask": None if cond.bitmask is None else int(cond.bitmask)}
    if isinstance(cond, cirq.KeyCondition):
        return {"t": "key", "key": mk(cond.key), "index": int(cond.index)}
    if isinstance(cond, cirq.SympyCondition):
        import sympy

        expr = cond.expr
        names = [str(k) for k in cond.keys]

        def f(get, expr=expr, names=names):
            vals = {sympy.Symbol(nm): get(mk(nm)) for nm in names}
            return bool(expr.subs(vals))

        return {"t": "fn", "f": f, "keys": [mk(nm) for nm in names]}
    raise Unsupported(f"condition {type(cond).__name__}")


def to_ir(circuit, order: Sequence, ignore_tags=(), _qmap=None, _kmap=None, _ign=False, _out=None) -> List[dict]:
    """Flatten ``circuit`` (program order = all_operations()) into IR on the axes given by ``order``."""
    import cirq

    out = [] if _out is None else _out
    qf = _qmap or _ident  # body qubit -> qubit of the outermost frame
    kf = _kmap or _ident  # body key name -> key name of the outermost frame
    pos = {q: i for i, q in enumerate(order)}
    ign_set = set(ignore_tags)

    def ax(qs):
        try:
            return [pos[qf(q)] for q in qs]
        except KeyError as e:
            raise Unsupported(f"qubit {e} not in the reference order")

    for op in circuit.all_operations():
        ign = _ign or bool(ign_set & set(op.tags))
        u = op.untagged
        if isinstance(u, cirq.CircuitOperation):
            reps = u.repetitions
            if not isinstance(reps, (int, np.integer)) or reps < 0:
                raise Unsupported("repetitions")
            if u.use_repetition_ids or u.parent_path or u.repeat_until is not None:
                raise Unsupported("circuit operation feature outside the C06 grammar")
            body = u.circuit
            if u.param_resolver.param_dict:
                body = cirq.resolve_parameters(body, u.param_resolver)
            own_q = dict(u.qubit_map)
            own_k = {str(a): str(b) for a, b in u.measurement_key_map.items()}
            inner_q = (lambda q, own_q=own_q, qf=qf: qf(own_q.get(q, q)))
            inner_k = (lambda k, own_k=own_k, kf=kf: kf(own_k.get(k, k)))
            for _ in range(int(reps)):
                to_ir(body, order, ignore_tags, inner_q, inner_k, ign, out)
            continue
        conds = None
        if isinstance(u, cirq.ClassicallyControlledOperation):
            conds = [_cond_ir(c, kf) for c in u.classical_controls]
            u = u.without_classical_controls()
            inner = u.untagged
            if isinstance(inner, cirq.CircuitOperation):
                raise Unsupported("classically controlled circuit operation")
            ign = ign or bool(ign_set & set(u.tags))
        axes = ax(u.qubits)
        g = u.gate
        if isinstance(g, cirq.MeasurementGate):
            key = kf(str(g.key))
            conf = [[list(k), np.asarray(v, dtype=float)] for k, v in g.confusion_map.items()]
            e = {"t": "m", "key": key, "ax": axes, "inv": [bool(b) for b in g.full_invert_mask()], "conf": conf}
        elif cirq.has_unitary(u):
            e = {"t": "u", "m": np.asarray(cirq.unitary(u), dtype=complex), "ax": axes}
        elif cirq.has_kraus(u):
            e = {"t": "k", "ks": [np.asarray(k, dtype=complex) for k in cirq.kraus(u)], "ax": axes}
        else:
            raise Unsupported(f"operation without unitary/kraus: {u!r}")
        if conds is not None:
            e = {"t": "c", "conds": conds, "op": e}
        e["ign"] = ign
        out.append(e)
    return out


def is_unitary_ir(ir) -> bool:
    return all(e["t"] == "u" for e in ir)


def ir_unitary(ir, shape):
    return L.circuit_unitary([(e["m"], e["ax"]) for e in ir], shape)


def has_records(ir) -> bool:
    return any(e["t"] == "m" for e in ir)


def instrument(ir, shape, psi0=None, rho0=None, keep=None, forget=False, max_branches=2048) -> Dict[str, tuple]:
    """records-key -> (probability, unnormalised state on ``keep`` axes (default all))."""
    br = I.run(ir, shape, psi0=psi0, rho0=rho0, max_branches=max_branches)
    out: Dict[str, list] = {}
    for b in br:
        k = "" if forget else I.records_key(b.records)
        rho = b.prob * b.rho
        if keep is not None and len(keep) != len(shape):
            rho = L.partial_trace(rho, shape, list(keep))
        if k in out:
            out[k][0] += b.prob
            out[k][1] = out[k][1] + rho
        else:
            out[k] = [b.prob, rho]
    return {k: (v[0], v[1]) for k, v in out.items()}


def compare_instruments(a: Dict[str, tuple], b: Dict[str, tuple], tol: float, states: bool = True):
    """-> None if equal else a short description.  ``a`` = out, ``b`` = in."""
    keys = sorted(set(a) | set(b))
    for k in keys:
        pa = a.get(k, (0.0, None))[0]
        pb = b.get(k, (0.0, None))[0]
        if abs(pa - pb) > tol:
            return f"probability of records [{k}] is {pa:.6g}, expected {pb:.6g}"
    if states:
        for k in keys:
            if k in a and k in b:
                d = L.max_abs_diff(a[k][1], b[k][1])
                if d > tol:
                    return f"state conditional on records [{k}] differs by {d:.3g}"
    return None
