"""C10 reference models (plain python, no sympy in the evaluation path).

1. Expression trees.  A recipe *is* the expression:
     ["s", "a"]            symbol
     ["n", 0.5]            python float literal        ["i", 3]   python int literal
     ["q", 1, 3]           sympy.Rational(1, 3)        ["pi"]     sympy.pi
     ["+", [e, e, ...]]    sum        ["*", [e, e, ...]]  product
     ["-", e1, e2]         difference ["neg", e]          ["/", e1, e2]     ["^", base, exponent]
     ["sin", e] ["cos", e] ["exp", e]
   ``to_sympy`` builds the object handed to Cirq with ordinary python operators; ``ev`` evaluates the tree
   with python arithmetic given ``lookup(name) -> number``.  ``ev`` never looks at the sympy object.

2. Resolvers.  ``vals``: name -> value recipe
     ["f", x] float  ["int", n]  ["np64", x] ["np32", x] ["npint", n]  ["c", re, im] complex ["npc", re, im]
     ["sf", x] sympy.Float  ["si", n] sympy.Integer  ["expr", tree]  ["str", "b"] (string naming another symbol)

3. Sweeps.  Recipe tree -> list of assignments (each an ordered list of [key, value]); see ``sweep_points``.
"""
from __future__ import annotations

import cmath
import itertools
import math


class Unresolved(Exception):
    def __init__(self, name):
        super().__init__(name)
        self.name = name


class Cycle(Exception):
    pass


class OutOfDomain(Exception):
    """The expression leaves the real/finite domain the property talks about (0**-1, (-2)**0.5, overflow)."""


SYMS = ["a", "b", "c"]
LIMIT = 1e4


# ----------------------------------------------------------------------------------------- expressions


def names_of(t) -> set:
    """Syntactic symbol names of a tree."""
    k = t[0]
    if k == "s":
        return {t[1]}
    if k in ("n", "i", "q", "pi"):
        return set()
    if k in ("+", "*"):
        out = set()
        for c in t[1]:
            out |= names_of(c)
        return out
    out = set()
    for c in t[1:]:
        out |= names_of(c)
    return out


def depth_of(t) -> int:
    k = t[0]
    if k in ("s", "n", "i", "q", "pi"):
        return 0
    if k in ("+", "*"):
        return 1 + max([depth_of(c) for c in t[1]] or [0])
    return 1 + max(depth_of(c) for c in t[1:])


def has_kind(t, kinds) -> bool:
    k = t[0]
    if k in kinds:
        return True
    if k in ("s", "n", "i", "q", "pi"):
        return False
    ch = t[1] if k in ("+", "*") else t[1:]
    return any(has_kind(c, kinds) for c in ch)


def to_sympy(t):
    import sympy

    k = t[0]
    if k == "s":
        return sympy.Symbol(t[1])
    if k == "n":
        return float(t[1])
    if k == "i":
        return int(t[1])
    if k == "q":
        return sympy.Rational(int(t[1]), int(t[2]))
    if k == "pi":
        return sympy.pi
    if k == "+":
        out = to_sympy(t[1][0])
        for c in t[1][1:]:
            out = out + to_sympy(c)
        return out
    if k == "*":
        out = to_sympy(t[1][0])
        for c in t[1][1:]:
            out = out * to_sympy(c)
        return out
    if k == "-":
        return to_sympy(t[1]) - to_sympy(t[2])
    if k == "neg":
        return -to_sympy(t[1])
    if k == "/":
        a, b = to_sympy(t[1]), to_sympy(t[2])
        if not isinstance(b, sympy.Basic) and b == 0:
            raise OutOfDomain("literal division by zero")
        return a / b
    if k == "^":
        b, e = to_sympy(t[1]), to_sympy(t[2])
        if not isinstance(b, sympy.Basic) and not isinstance(e, sympy.Basic):
            b = sympy.sympify(b)
        if (isinstance(b, sympy.Number) or not isinstance(b, sympy.Basic)) and float(b) == 1.0 and isinstance(e, sympy.Basic) and e.free_symbols:
            # sympy keeps 1.0**a unevaluated, calls it constant, yet cannot convert it to float: not an expression any
            # gate constructor accepts (canonicalize_half_turns raises) -- outside the domain
            raise OutOfDomain("1**symbol")
        return b ** e
    if k in ("sin", "cos", "exp"):
        return getattr(sympy, k)(to_sympy(t[1]))
    raise KeyError(k)


PROBE = {"a": 0.731, "b": 1.377, "c": 0.513}


def probe_lookup(name):
    """A fixed positive assignment, used only to tell "undefined whatever the assignment" ((a - a)**-2) from a real expression
    when no drawn assignment is available."""
    if name in PROBE:
        return PROBE[name]
    raise Unresolved(name)


def validate(t, lookup=None):
    """Domain gate, decided by this evaluator before anything is handed to Cirq: every symbol-free sub-tree must evaluate to a
    finite real number (3/0, (-2)**0.5, 0**-1 as literals are not expressions of the property's domain), and the whole tree
    must evaluate at ``lookup`` (default: the probe assignment).  Raises OutOfDomain."""
    k = t[0]
    if k not in ("s", "n", "i", "q", "pi"):
        for c in (t[1] if k in ("+", "*") else t[1:]):
            validate_const(c)
    try:
        v = ev(t, lookup or probe_lookup)
    except Unresolved:
        return
    if isinstance(v, complex) and lookup is None:
        raise OutOfDomain("complex constant")


def validate_const(t):
    k = t[0]
    if k in ("s", "n", "i", "pi"):
        return
    if not names_of(t):
        v = ev(t, None)
        if isinstance(v, complex):
            raise OutOfDomain("complex constant")
        return
    if k == "q":
        return
    for c in (t[1] if k in ("+", "*") else t[1:]):
        validate_const(c)


def depends_on(trees, fixed: dict, free) -> set:
    """Symbols of ``free`` the value of some tree really depends on once ``fixed`` (name -> number) is substituted: found by
    evaluating at a probe point and at two points that differ only in that symbol.  A lower bound (never claims a dependence
    that is not there); probes outside the domain are skipped."""
    free = list(free)
    out = set()
    base = {n: 0.731 + 0.323 * i for i, n in enumerate(sorted(free))}

    def val(t, env):
        def look(n):
            if n in fixed:
                return fixed[n]
            if n in env:
                return env[n]
            raise Unresolved(n)
        return complex(ev(t, look))

    for s in free:
        for t in trees:
            if s not in names_of(t):
                continue
            try:
                v0 = val(t, base)
            except (OutOfDomain, Unresolved, Cycle):
                continue
            for alt in (base[s] * 1.9 + 0.17, base[s] + 0.61):
                try:
                    v1 = val(t, dict(base, **{s: alt}))
                except (OutOfDomain, Unresolved, Cycle):
                    continue
                if abs(v1 - v0) > 1e-6 * (1 + abs(v0)):
                    out.add(s)
                    break
            if s in out:
                break
    return out


def _chk(v):
    if isinstance(v, complex):
        if not (math.isfinite(v.real) and math.isfinite(v.imag)) or abs(v) > LIMIT:
            raise OutOfDomain("magnitude")
        return v
    if not math.isfinite(v) or abs(v) > LIMIT:
        raise OutOfDomain("magnitude")
    return v


def _pow(b, e):
    cplx = isinstance(b, complex) or isinstance(e, complex)
    if cplx:
        if isinstance(e, complex) or not float(e).is_integer() or b == 0:
            raise OutOfDomain("complex power")
        if abs(e) > 8:
            raise OutOfDomain("magnitude")
        return complex(b) ** int(e)
    if b == 0 and e < 0:
        raise OutOfDomain("0**negative")
    if b < 0 and not float(e).is_integer():
        raise OutOfDomain("negative**fraction")
    if abs(e) > 64:
        raise OutOfDomain("magnitude")
    try:
        return float(b) ** float(e) if not (isinstance(b, int) and isinstance(e, int) and e >= 0) else b ** e
    except (OverflowError, ZeroDivisionError):
        raise OutOfDomain("magnitude")


def ev(t, lookup, stat=None):
    """Value of the tree; ``lookup(name)`` returns a python number or raises Unresolved/Cycle.
    ``stat`` (optional dict) collects the largest intermediate magnitude under key "max"."""
    v = _ev(t, lookup, stat)
    if stat is not None:
        try:
            stat["max"] = max(stat.get("max", 0.0), abs(v))
        except TypeError:
            pass
    return v


def _ev(t, lookup, stat):
    k = t[0]
    if k == "s":
        return lookup(t[1])
    if k == "n":
        return float(t[1])
    if k == "i":
        return int(t[1])
    if k == "q":
        if t[2] == 0:
            raise OutOfDomain("zero denominator")
        return int(t[1]) / int(t[2])
    if k == "pi":
        return math.pi
    if k == "+":
        out = 0
        for c in t[1]:
            out = out + ev(c, lookup, stat)
        return _chk(out)
    if k == "*":
        out = 1
        for c in t[1]:
            out = out * ev(c, lookup, stat)
        return _chk(out)
    if k == "-":
        return _chk(ev(t[1], lookup, stat) - ev(t[2], lookup, stat))
    if k == "neg":
        return -ev(t[1], lookup, stat)
    if k == "/":
        d = ev(t[2], lookup, stat)
        if d == 0 or abs(d) < 1e-6:
            raise OutOfDomain("division by ~0")
        return _chk(ev(t[1], lookup, stat) / d)
    if k == "^":
        return _chk(_pow(ev(t[1], lookup, stat), ev(t[2], lookup, stat)))
    if k in ("sin", "cos", "exp"):
        x = ev(t[1], lookup, stat)
        if isinstance(x, complex):
            # stated domain (ASSUMPTIONS): complex values only through +, *, -, / and integer powers
            raise OutOfDomain("function of a complex value")
        if k == "exp" and x > 9:
            raise OutOfDomain("magnitude")
        return _chk(getattr(math, k)(x))
    raise KeyError(k)


# ----------------------------------------------------------------------------------------- resolver values


def value_to_python(v):
    """Numeric python value of a *numeric* value recipe (None for expr/str)."""
    import numpy as np

    k = v[0]
    if k in ("f", "np64", "sf"):
        return float(v[1])
    if k == "np32":
        return float(np.float32(v[1]))
    if k in ("int", "npint", "si"):
        return int(v[1])
    if k in ("c", "npc"):
        return complex(v[1], v[2])
    return None


def value_to_cirq(v):
    import numpy as np
    import sympy

    k = v[0]
    if k == "f":
        return float(v[1])
    if k == "int":
        return int(v[1])
    if k == "np64":
        return np.float64(v[1])
    if k == "np32":
        return np.float32(v[1])
    if k == "npint":
        return np.int64(v[1])
    if k == "c":
        return complex(v[1], v[2])
    if k == "npc":
        return np.complex128(complex(v[1], v[2]))
    if k == "sf":
        return sympy.Float(v[1])
    if k == "si":
        return sympy.Integer(int(v[1]))
    if k == "expr":
        return to_sympy(v[1])
    if k == "str":
        return str(v[1])
    raise KeyError(k)


def build_param_dict(vals: dict, keyform: str = "str"):
    """dict for cirq: keys as str / sympy.Symbol / alternating."""
    import sympy

    out = {}
    for i, (name, v) in enumerate(vals.items()):
        sym = keyform == "sym" or (keyform == "mixed" and i % 2 == 0)
        out[sympy.Symbol(name) if sym else name] = value_to_cirq(v)
    return out


def make_lookup(*layers, recursive=True, stat=None):
    """Reference semantics of resolution.

    ``layers`` = resolver value tables applied one after the other (resolve(resolve(x, l0), l1) ...).
    Inside one layer: recursive=True follows symbol -> expression chains within the same layer until a number
    or a symbol the layer does not know (which then goes to the next layer); recursive=False substitutes one
    level only.  A chain that comes back to a symbol being evaluated is a Cycle.
    """

    rec_flags = list(recursive) if isinstance(recursive, (list, tuple)) else [bool(recursive)] * len(layers)

    def look(name, li, visiting):
        if li >= len(layers):
            raise Unresolved(name)
        vals = layers[li]
        recursive = rec_flags[li]
        if name not in vals:
            return look(name, li + 1, frozenset())
        v = vals[name]
        num = value_to_python(v)
        if num is not None:
            return num
        alias = v[1] if v[0] == "str" else (v[1][1] if v[1][0] == "s" else None)
        if alias == name:  # a symbol mapped to itself stays (documented: unresolvable symbols are returned unchanged)
            return look(name, li + 1, frozenset())
        if recursive:
            if name in visiting:
                raise Cycle(name)
            vis = visiting | {name}
            if v[0] == "str":
                return look(v[1], li, vis)
            return ev(v[1], lambda n: look(n, li, vis), stat)
        if v[0] == "str":
            return look(v[1], li + 1, frozenset())
        return ev(v[1], lambda n: look(n, li + 1, frozenset()), stat)

    return lambda name: look(name, 0, frozenset())


def uses_float32(*layers) -> bool:
    return any(v[0] == "np32" for vals in layers for v in vals.values())


# ----------------------------------------------------------------------------------------- sweeps


class SweepError(Exception):
    """The definition is documented to be rejected with ValueError (duplicate keys, mismatched concat, ...)."""


def sweep_keys(t):
    k = t[0]
    if k in ("points", "linspace"):
        return [t[1]]
    if k == "unit":
        return []
    if k == "list":
        return list(t[1][0].keys()) if t[1] else []
    if k in ("d2p", "d2z"):
        return list(t[1].keys())
    if k in ("zip", "ziplongest", "product", "mul", "add"):
        out = []
        for c in t[1]:
            out += sweep_keys(c)
        return out
    if k == "concat":
        return sweep_keys(t[1][0])
    raise KeyError(k)


def linspace_values(start, stop, length):
    if length == 1:
        return [start]
    return [start + i * (stop - start) / (length - 1) for i in range(length)]


def sweep_points(t):
    """List of assignments; an assignment is a list of [key, value] pairs in key order."""
    k = t[0]
    if k == "points":
        return [[[t[1], v]] for v in t[2]]
    if k == "linspace":
        return [[[t[1], v]] for v in linspace_values(t[2], t[3], t[4])]
    if k == "unit":
        return [[]]
    if k == "list":
        return [[[kk, vv] for kk, vv in d.items()] for d in t[1]]
    if k in ("d2p", "d2z"):
        ch = [["points", kk, vv if isinstance(vv, list) else [vv]] for kk, vv in t[1].items()]
        return sweep_points(["product" if k == "d2p" else "zip", ch])
    if k in ("zip", "ziplongest", "product", "mul", "add"):
        keys = sweep_keys(t)
        if len(set(keys)) != len(keys):
            raise SweepError("duplicate keys")
        parts = [sweep_points(c) for c in t[1]]
        if k in ("product", "mul"):
            return [sum(combo, []) for combo in itertools.product(*parts)]
        if k in ("zip", "add"):
            if not parts:
                return []
            n = min(len(p) for p in parts)
            return [sum((p[i] for p in parts), []) for i in range(n)]
        if any(len(p) == 0 for p in parts):
            raise SweepError("empty sweep in ZipLongest")
        if not parts:
            return []
        n = max(len(p) for p in parts)
        return [sum((p[min(i, len(p) - 1)] for p in parts), []) for i in range(n)]
    if k == "concat":
        if not t[1]:
            raise SweepError("empty concat")
        k0 = sweep_keys(t[1][0])
        for c in t[1][1:]:
            if sweep_keys(c) != k0:
                raise SweepError("concat descriptors differ")
        out = []
        for c in t[1]:
            out += sweep_points(c)
        return out
    raise KeyError(k)


def sweep_depth(t):
    if t[0] in ("zip", "ziplongest", "product", "concat", "mul", "add"):
        return 1 + max([sweep_depth(c) for c in t[1]] or [0])
    return 0


def sweep_has(t, kinds):
    if t[0] in kinds:
        return True
    if t[0] in ("zip", "ziplongest", "product", "concat", "mul", "add"):
        return any(sweep_has(c, kinds) for c in t[1])
    return False


def build_sweep(t, keyform="str"):
    import cirq
    import sympy

    def key(name):
        return sympy.Symbol(name) if keyform == "sym" else name

    k = t[0]
    if k == "points":
        return cirq.Points(key(t[1]), list(t[2]))
    if k == "linspace":
        return cirq.Linspace(key(t[1]), start=t[2], stop=t[3], length=t[4])
    if k == "unit":
        return cirq.UnitSweep
    if k == "list":
        return cirq.ListSweep([{key(kk): vv for kk, vv in d.items()} if i % 2 else cirq.ParamResolver({key(kk): vv for kk, vv in d.items()})
                               for i, d in enumerate(t[1])])
    if k == "d2p":
        return cirq.dict_to_product_sweep({key(kk): vv for kk, vv in t[1].items()})
    if k == "d2z":
        return cirq.dict_to_zip_sweep({key(kk): vv for kk, vv in t[1].items()})
    ch = [build_sweep(c, keyform) for c in t[1]]
    if k == "zip":
        return cirq.Zip(*ch)
    if k == "ziplongest":
        return cirq.ZipLongest(*ch)
    if k == "product":
        return cirq.Product(*ch)
    if k == "concat":
        return cirq.Concat(*ch)
    if k == "mul":
        out = ch[0]
        for c in ch[1:]:
            out = out * c
        return out
    if k == "add":
        out = ch[0]
        for c in ch[1:]:
            out = out + c
        return out
    raise KeyError(k)
