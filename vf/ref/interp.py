"""Reference interpreter for circuits with measurement, feed-forward, channels (plain numpy).

Works on a small IR (list of dicts), never on Cirq objects:
  {"t":"u", "m": matrix, "ax":[...]}                          unitary on axes
  {"t":"k", "ks":[K...], "ax":[...]}                          channel (Kraus) on axes
  {"t":"m", "key":str, "ax":[...], "inv":[bool...], "conf":[[positions, matrix], ...]}  measurement
  {"t":"reset", "ax":[a]}                                     reset to |0>
  {"t":"pm", "key":str, "ax":[...], "obs": matrix}            measurement of a +-1 valued observable (one record bit)
  {"t":"c", "conds":[cond...], "op": <IR op>}                 op applied iff all conditions hold
  {"t":"cb", "conds":[cond...], "ops": [<IR op>...]}          block: conditions evaluated once, then all ops run
conditions:
  {"t":"key", "key":k, "index":-1}                            int value of that record != 0
  {"t":"bitmask", "key":k, "index":-1, "target":v, "equal":bool, "mask":m|None}
  {"t":"fn", "f": callable(get_int) -> bool}                  get_int(key, index=-1)
Semantics (documented in cirq.MeasurementGate / ClassicalDataStore): projective measurement in the
computational basis of the measured axes, collapse, the confusion map is applied to the raw digits first and
the invert mask afterwards; a key measured several times accumulates instances; the integer value of a record is
the big-endian (mixed radix) value of its digits.

``run`` branches exhaustively and returns every branch ``Branch(prob, records, rho, psi)`` with prob > 1e-12.
"""
from __future__ import annotations

import itertools
from dataclasses import dataclass
from typing import Dict, List, Optional, Tuple

import numpy as np

from . import linalg as L

EPS = 1e-12


@dataclass
class Branch:
    prob: float
    records: Dict[str, Tuple[Tuple[int, ...], ...]]
    rho: np.ndarray  # normalised
    psi: Optional[np.ndarray]  # normalised pure state if the branch stayed pure through unitary/projective steps


def _get_int(records, shapes, key, index=-1):
    inst = records[key][index]
    return L.digits_to_index(inst, shapes[key][index if index >= 0 else len(records[key]) + index])


def _cond_holds(cond, records, shapes):
    t = cond["t"]
    if t == "key":
        return _get_int(records, shapes, cond["key"], cond.get("index", -1)) != 0
    if t == "bitmask":
        v = _get_int(records, shapes, cond["key"], cond.get("index", -1))
        if cond.get("mask") is not None:
            v &= cond["mask"]
        tv = cond["target"]
        return (v == tv) if cond["equal"] else (v != tv)
    if t == "fn":
        return bool(cond["f"](lambda k, i=-1: _get_int(records, shapes, k, i)))
    raise KeyError(t)


def run(ir: List[dict], shape, rho0=None, psi0=None, max_branches=4096) -> List[Branch]:
    shape = tuple(int(d) for d in shape)
    D = L.dim(shape)
    if rho0 is None:
        if psi0 is None:
            psi0 = L.basis_vector(0, D)
        psi0 = np.asarray(psi0, dtype=complex).reshape(-1)
        rho0 = np.outer(psi0, psi0.conj())
    # state: (prob, records dict key->list of tuples, shapes dict key->list of dims tuples, rho, psi)
    states = [(1.0, {}, {}, np.asarray(rho0, dtype=complex).reshape(D, D), None if psi0 is None else np.asarray(psi0, dtype=complex).reshape(-1))]
    for op in ir:
        nxt = []
        for st in states:
            nxt.extend(_step(op, st, shape))
        states = [s for s in nxt if s[0] > EPS]
        if len(states) > max_branches:
            raise OverflowError("too many branches")
    return [Branch(p, {k: tuple(tuple(i) for i in v) for k, v in rec.items()}, rho, psi) for p, rec, shp, rho, psi in states]


def _step(op, st, shape):
    p, rec, shp, rho, psi = st
    t = op["t"]
    if t == "c":
        if all(_cond_holds(c, rec, shp) for c in op["conds"]):
            return _step(op["op"], st, shape)
        return [st]
    if t == "cb":
        # block conditional: the conditions are evaluated ONCE, then the whole block runs (or is skipped)
        if not all(_cond_holds(c, rec, shp) for c in op["conds"]):
            return [st]
        cur = [st]
        for sub in op["ops"]:
            nxt = []
            for s2 in cur:
                nxt.extend(_step(sub, s2, shape))
            cur = [s2 for s2 in nxt if s2[0] > EPS]
        return cur
    if t == "u":
        U = L.embed(op["m"], op["ax"], shape)
        return [(p, rec, shp, U @ rho @ U.conj().T, None if psi is None else U @ psi)]
    if t == "k":
        ks = op["ks"]
        if len(ks) == 1:
            K = L.embed(ks[0], op["ax"], shape)
            return [(p, rec, shp, K @ rho @ K.conj().T, None if psi is None else K @ psi)]
        return [(p, rec, shp, L.apply_kraus_to_rho(ks, op["ax"], shape, rho), None)]
    if t == "reset":
        (a,) = op["ax"]
        d = shape[a]
        ks = []
        for i in range(d):
            k = np.zeros((d, d), dtype=complex)
            k[0, i] = 1
            ks.append(k)
        # a reset keeps a pure state pure only if the qubit is unentangled; track purity numerically
        new_rho = L.apply_kraus_to_rho(ks, [a], shape, rho)
        return [(p, rec, shp, new_rho, _pure_or_none(new_rho))]
    if t == "pm":
        # measurement of a +-1 valued observable O on the axes: outcome 0 <-> eigenvalue +1, outcome 1 <-> eigenvalue -1;
        # projective collapse onto the eigenspace (not onto individual qubit values)
        ax = list(op["ax"])
        O = np.asarray(op["obs"], dtype=complex)
        eye = np.eye(O.shape[0], dtype=complex)
        out = []
        for bit, proj in ((0, (eye + O) / 2), (1, (eye - O) / 2)):
            P = L.embed(proj, ax, shape)
            r2 = P @ rho @ P
            pr = float(np.real(np.trace(r2)))
            if pr <= EPS:
                continue
            psi2 = None
            if psi is not None:
                psi2 = P @ psi
                psi2 = psi2 / np.linalg.norm(psi2)
            rec2 = dict(rec)
            rec2[op["key"]] = list(rec.get(op["key"], [])) + [(bit,)]
            shp2 = dict(shp)
            shp2[op["key"]] = list(shp.get(op["key"], [])) + [(2,)]
            out.append((p * pr, rec2, shp2, r2 / pr, psi2))
        return out
    if t == "m":
        ax = list(op["ax"])
        dims = tuple(shape[a] for a in ax)
        out = []
        for digits in itertools.product(*[range(d) for d in dims]):
            proj = np.zeros((L.dim(dims), L.dim(dims)), dtype=complex)
            i = L.digits_to_index(digits, dims)
            proj[i, i] = 1
            P = L.embed(proj, ax, shape)
            r2 = P @ rho @ P
            pr = float(np.real(np.trace(r2)))
            if pr <= EPS:
                continue
            r2 = r2 / pr
            psi2 = None
            if psi is not None:
                psi2 = P @ psi
                psi2 = psi2 / np.linalg.norm(psi2)
            # confusion first, then invert mask
            alts = [(1.0, list(digits))]
            for positions, cm in op.get("conf", []) or []:
                cm = np.asarray(cm, dtype=float)
                pdims = tuple(dims[j] for j in positions)
                new_alts = []
                for q, dg in alts:
                    row = L.digits_to_index([dg[j] for j in positions], pdims)
                    for col in range(cm.shape[1]):
                        if cm[row, col] > EPS:
                            nd = list(dg)
                            for j, v in zip(positions, L.index_to_digits(col, pdims)):
                                nd[j] = v
                            new_alts.append((q * cm[row, col], nd))
                alts = new_alts
            inv = list(op.get("inv", []) or [])
            inv = inv + [False] * (len(ax) - len(inv))
            for q, dg in alts:
                dg = [(b ^ 1) if (m and b < 2) else b for b, m in zip(dg, inv)]
                rec2 = dict(rec)
                rec2[op["key"]] = list(rec.get(op["key"], [])) + [tuple(dg)]
                shp2 = dict(shp)
                shp2[op["key"]] = list(shp.get(op["key"], [])) + [dims]
                out.append((p * pr * q, rec2, shp2, r2, psi2))
        return out
    raise KeyError(t)


def _pure_or_none(rho):
    w, v = np.linalg.eigh(rho)
    if w[-1] > 1 - 1e-9:
        return v[:, -1]
    return None


def distribution(branches: List[Branch]) -> Dict[str, float]:
    """records (canonical string) -> total probability."""
    out: Dict[str, float] = {}
    for b in branches:
        k = records_key(b.records)
        out[k] = out.get(k, 0.0) + b.prob
    return out


def records_key(records) -> str:
    return ";".join(f"{k}=" + "|".join("".join(str(int(d)) + "," for d in inst) for inst in records[k]) for k in sorted(records))


def total_rho(branches: List[Branch]):
    return sum(b.prob * b.rho for b in branches)
