"""Closed-form reference matrices of the gate library (plain numpy, shares no code with Cirq).

Every function is written from the class docstring of the gate ("doc" form) and, for gates that are
powers of a textbook operator, from the spectral definition ("spectral" form)

    G**t with global shift s  =  e^{i pi t s} * sum_k e^{i pi t theta_k} P_k

where ``theta_k`` are the eigen-phases (in half turns) and ``P_k`` the eigen-projectors of the textbook
operator G.  For an involution (G*G = 1) this is ``e^{i pi t s} ((1+G)/2 + e^{i pi t} (1-G)/2)``.

``reference(family, params)`` returns a ``Ref``:
    shape   -- documented qid shape
    forms   -- {"doc": matrix, "spectral": matrix, ...}  (all forms must agree with each other)
    phase   -- "exact" (global phase fixed by the documentation) or "upto" (defined up to global phase)
    kraus   -- reference Kraus operators for channels (compared through the Choi matrix)
    column0 -- only the image of |0..0> is documented (UniformSuperpositionGate)
Keys of the parameter dicts are those of ``vf.gen.gates`` / ``vf.gen.gates_extra`` recipes.
"""
from __future__ import annotations

import cmath
import itertools
import math
from dataclasses import dataclass, field
from typing import Callable, Dict, List, Optional, Sequence

import numpy as np

from . import linalg as L

I2 = np.eye(2, dtype=complex)
X = np.array([[0, 1], [1, 0]], dtype=complex)
Y = np.array([[0, -1j], [1j, 0]], dtype=complex)
Z = np.array([[1, 0], [0, -1]], dtype=complex)
HAD = np.array([[1, 1], [1, -1]], dtype=complex) / math.sqrt(2)
PAULIS = {"I": I2, "X": X, "Y": Y, "Z": Z}
SQ2 = math.sqrt(2)


@dataclass
class Ref:
    shape: tuple
    forms: Dict[str, np.ndarray] = field(default_factory=dict)
    phase: str = "exact"
    kraus: Optional[List[np.ndarray]] = None
    column0: Optional[np.ndarray] = None

    @property
    def matrix(self):
        return next(iter(self.forms.values()))


# ----------------------------------------------------------------------------- helpers


def ph(x: float) -> complex:
    """e^{i pi x} (x in half turns)."""
    return cmath.exp(1j * math.pi * x)


def kron(*ms):
    out = np.eye(1, dtype=complex)
    for m in ms:
        out = np.kron(out, np.asarray(m, dtype=complex))
    return out


def direct_sum(*ms):
    n = sum(m.shape[0] for m in ms)
    out = np.zeros((n, n), dtype=complex)
    k = 0
    for m in ms:
        d = m.shape[0]
        out[k:k + d, k:k + d] = m
        k += d
    return out


def ctrl(u, n_controls=1):
    """Identity except the bottom-right block (all controls = 1, controls first, big-endian)."""
    u = np.asarray(u, dtype=complex)
    d = u.shape[0]
    return direct_sum(np.eye(d * (2 ** n_controls - 1), dtype=complex), u)


def involution_pow(G, t, s=0.0):
    G = np.asarray(G, dtype=complex)
    n = G.shape[0]
    assert np.allclose(G @ G, np.eye(n)), "reference operator is not an involution"
    one = np.eye(n, dtype=complex)
    return ph(t * s) * ((one + G) / 2 + ph(t) * (one - G) / 2)


def exp_i(Hm, a):
    """exp(i * a * Hm) for Hermitian Hm via its own eigen-decomposition."""
    Hm = np.asarray(Hm, dtype=complex)
    assert np.allclose(Hm, Hm.conj().T)
    w, v = np.linalg.eigh(Hm)
    return (v * np.exp(1j * a * w)) @ v.conj().T


def rot2(c, s):
    return np.array([[c, -s], [s, c]], dtype=complex)


def _cs(t):
    return math.cos(math.pi * t / 2), math.sin(math.pi * t / 2)


def _two(shape, doc, spectral=None, phase="exact"):
    forms = {"doc": np.asarray(doc, dtype=complex)}
    if spectral is not None:
        forms["spectral"] = np.asarray(spectral, dtype=complex)
    return Ref(tuple(shape), forms, phase)


# ----------------------------------------------------------------------------- single-qubit powers


def x_pow(t, s=0.0):
    c, sn = _cs(t)
    return ph(t * (s + 0.5)) * np.array([[c, -1j * sn], [-1j * sn, c]], dtype=complex)


def y_pow(t, s=0.0):
    c, sn = _cs(t)
    g = ph(t / 2)
    return ph(t * s) * np.array([[g * c, -g * sn], [g * sn, g * c]], dtype=complex)


def z_pow(t, s=0.0):
    return ph(t * s) * np.array([[1, 0], [0, ph(t)]], dtype=complex)


def h_pow(t, s=0.0):
    c, sn = _cs(t)
    g = ph(t / 2)
    return ph(t * s) * np.array([[g * (c - 1j * sn / SQ2), -1j * g * sn / SQ2],
                                 [-1j * g * sn / SQ2, g * (c + 1j * sn / SQ2)]], dtype=complex)


def r_XPow(p):
    return _two((2,), x_pow(p["e"], p["s"]), involution_pow(X, p["e"], p["s"]))


def r_YPow(p):
    return _two((2,), y_pow(p["e"], p["s"]), involution_pow(Y, p["e"], p["s"]))


def r_ZPow(p):
    return _two((2,), z_pow(p["e"], p["s"]), involution_pow(Z, p["e"], p["s"]))


def r_HPow(p):
    return _two((2,), h_pow(p["e"], p["s"]), involution_pow(HAD, p["e"], p["s"]))


def r_Rx(p):
    t = p["r"]
    return _two((2,), [[math.cos(t / 2), -1j * math.sin(t / 2)], [-1j * math.sin(t / 2), math.cos(t / 2)]], exp_i(X, -t / 2))


def r_Ry(p):
    t = p["r"]
    return _two((2,), [[math.cos(t / 2), -math.sin(t / 2)], [math.sin(t / 2), math.cos(t / 2)]], exp_i(Y, -t / 2))


def r_Rz(p):
    t = p["r"]
    return _two((2,), [[cmath.exp(-1j * t / 2), 0], [0, cmath.exp(1j * t / 2)]], exp_i(Z, -t / 2))


def phased_x_pow(p_exp, t, s=0.0):
    c, sn = _cs(t)
    return ph(t * s) * np.array([[ph(t / 2) * c, -1j * ph(t / 2 - p_exp) * sn],
                                 [-1j * ph(t / 2 + p_exp) * sn, ph(t / 2) * c]], dtype=complex)


def r_PhasedXPow(p):
    # "Z^-p X^t Z^p in time order"  =>  matrix product  Z^p . X^t . Z^-p
    comp = z_pow(p["p"]) @ x_pow(p["e"], p["s"]) @ z_pow(-p["p"])
    return _two((2,), phased_x_pow(p["p"], p["e"], p["s"]), comp)


def r_PhasedXZ(p):
    x, z, a = p["x"], p["z"], p["a"]
    c, sn = _cs(x)
    doc = np.array([[ph(x / 2) * c, -1j * ph(x / 2 - a) * sn],
                    [-1j * ph(x / 2 + z + a) * sn, ph(x / 2 + z) * c]], dtype=complex)
    # "Z^-a X^x Z^a Z^z in time order"
    comp = z_pow(z) @ z_pow(a) @ x_pow(x) @ z_pow(-a)
    return _two((2,), doc, comp)


# ----------------------------------------------------------------------------- two-qubit powers

CNOT = np.array([[1, 0, 0, 0], [0, 1, 0, 0], [0, 0, 0, 1], [0, 0, 1, 0]], dtype=complex)
CY_ = np.array([[1, 0, 0, 0], [0, 1, 0, 0], [0, 0, 0, -1j], [0, 0, 1j, 0]], dtype=complex)
CZ_ = np.diag([1, 1, 1, -1]).astype(complex)
SWAP = np.array([[1, 0, 0, 0], [0, 0, 1, 0], [0, 1, 0, 0], [0, 0, 0, 1]], dtype=complex)
ISWAP = np.array([[1, 0, 0, 0], [0, 0, 1j, 0], [0, 1j, 0, 0], [0, 0, 0, 1]], dtype=complex)
XX_ = np.kron(X, X)
YY_ = np.kron(Y, Y)
ZZ_ = np.kron(Z, Z)


def r_CZPow(p):
    t, s = p["e"], p["s"]
    return _two((2, 2), ph(t * s) * np.diag([1, 1, 1, ph(t)]), involution_pow(CZ_, t, s))


def r_CXPow(p):
    t, s = p["e"], p["s"]
    return _two((2, 2), ph(t * s) * direct_sum(I2, x_pow(t)), involution_pow(CNOT, t, s))


def r_CYPow(p):
    t, s = p["e"], p["s"]
    return _two((2, 2), ph(t * s) * direct_sum(I2, y_pow(t)), involution_pow(CY_, t, s))


def r_SwapPow(p):
    t, s = p["e"], p["s"]
    c, sn = _cs(t)
    g = ph(t / 2)
    doc = np.array([[1, 0, 0, 0], [0, g * c, -1j * g * sn, 0], [0, -1j * g * sn, g * c, 0], [0, 0, 0, 1]], dtype=complex)
    return _two((2, 2), ph(t * s) * doc, involution_pow(SWAP, t, s))


def iswap_pow(t, s=0.0):
    c, sn = _cs(t)
    return ph(t * s) * np.array([[1, 0, 0, 0], [0, c, 1j * sn, 0], [0, 1j * sn, c, 0], [0, 0, 0, 1]], dtype=complex)


def r_ISwapPow(p):
    t, s = p["e"], p["s"]
    # ISWAP**t = exp(+i pi t (XX + YY) / 4)
    return _two((2, 2), iswap_pow(t, s), ph(t * s) * exp_i((XX_ + YY_) / 4, math.pi * t))


def _parity(t, s, sign):
    c, sn = _cs(t)
    f = ph(t / 2)
    cc, ss = f * c, -1j * f * sn
    return ph(t * s) * np.array([[cc, 0, 0, sign * ss], [0, cc, ss, 0], [0, ss, cc, 0], [sign * ss, 0, 0, cc]], dtype=complex)


def r_XXPow(p):
    return _two((2, 2), _parity(p["e"], p["s"], 1), involution_pow(XX_, p["e"], p["s"]))


def r_YYPow(p):
    return _two((2, 2), _parity(p["e"], p["s"], -1), involution_pow(YY_, p["e"], p["s"]))


def r_ZZPow(p):
    t, s = p["e"], p["s"]
    return _two((2, 2), ph(t * s) * np.diag([1, ph(t), ph(t), 1]), involution_pow(ZZ_, t, s))


def r_MS(p):
    t = p["r"]
    c, sn = math.cos(t), -1j * math.sin(t)
    doc = np.array([[c, 0, 0, sn], [0, c, sn, 0], [0, sn, c, 0], [sn, 0, 0, c]], dtype=complex)
    return _two((2, 2), doc, exp_i(XX_, -t))


def phased_iswap_pow(pe, t, s=0.0):
    c, sn = _cs(t)
    f = cmath.exp(2j * math.pi * pe)
    return ph(t * s) * np.array([[1, 0, 0, 0], [0, c, 1j * sn * f, 0], [0, 1j * sn * f.conjugate(), c, 0], [0, 0, 0, 1]], dtype=complex)


def r_PhasedISwapPow(p):
    pe, t, s = p["p"], p["e"], p.get("s", 0.0)
    comp = kron(z_pow(-pe), z_pow(pe)) @ iswap_pow(t, s) @ kron(z_pow(pe), z_pow(-pe))
    return _two((2, 2), phased_iswap_pow(pe, t, s), comp)


def fsim(theta, phi):
    a, b, c = math.cos(theta), -1j * math.sin(theta), cmath.exp(-1j * phi)
    return np.array([[1, 0, 0, 0], [0, a, b, 0], [0, b, a, 0], [0, 0, 0, c]], dtype=complex)


def r_FSim(p):
    th, phi = p["theta"], p["phi"]
    # FSimGate(theta, phi) = ISWAP**(-2 theta/pi) CZPowGate(exponent=-phi/pi)
    comp = iswap_pow(-2 * th / math.pi) @ np.diag([1, 1, 1, ph(-phi / math.pi)])
    return _two((2, 2), fsim(th, phi), comp)


def phased_fsim(theta, zeta, chi, gamma, phi):
    e = lambda x: cmath.exp(1j * x)
    c, s = math.cos(theta), math.sin(theta)
    return np.array([[1, 0, 0, 0],
                     [0, e(-gamma - zeta) * c, -1j * e(-gamma + chi) * s, 0],
                     [0, -1j * e(-gamma - chi) * s, e(-gamma + zeta) * c, 0],
                     [0, 0, 0, e(-2 * gamma - phi)]], dtype=complex)


def r_PhasedFSim(p):
    return _two((2, 2), phased_fsim(p["theta"], p["zeta"], p["chi"], p["gamma"], p["phi"]))


def rz(t):
    return np.array([[cmath.exp(-1j * t / 2), 0], [0, cmath.exp(1j * t / 2)]], dtype=complex)


def r_FSimRz(p):
    """PhasedFSimGate.from_fsim_rz: Rz(before) -> FSim(theta, phi) -> Rz(after), up to global phase."""
    b0, b1, a0, a1 = p["b0"], p["b1"], p["a0"], p["a1"]
    m = kron(rz(a0), rz(a1)) @ fsim(p["theta"], p["phi"]) @ kron(rz(b0), rz(b1))
    return _two((2, 2), m, phase="upto")


def r_CPhase(p):
    return _two((2, 2), np.diag([1, 1, 1, cmath.exp(1j * p["r"])]))


def r_Givens(p):
    a = p["r"]
    c, s = math.cos(a), math.sin(a)
    doc = np.array([[1, 0, 0, 0], [0, c, -s, 0], [0, s, c, 0], [0, 0, 0, 1]], dtype=complex)
    return _two((2, 2), doc, exp_i((np.kron(Y, X) - np.kron(X, Y)) / 2, -a))


def r_RISwap(p):
    return _two((2, 2), exp_i((XX_ + YY_) / 2, p["r"]))


# ----------------------------------------------------------------------------- three-qubit gates

CCX_ = ctrl(X, 2)
CCY_ = ctrl(Y, 2)
CCZ_ = ctrl(Z, 2)
CSWAP_ = ctrl(SWAP, 1)


def r_CCZPow(p):
    t, s = p["e"], p["s"]
    return _two((2, 2, 2), ph(t * s) * np.diag([1] * 7 + [ph(t)]), involution_pow(CCZ_, t, s))


def r_CCXPow(p):
    t, s = p["e"], p["s"]
    # "8x8 identity except the bottom right 2x2 area is the matrix of X**t"
    return _two((2, 2, 2), ph(t * s) * ctrl(x_pow(t), 2), involution_pow(CCX_, t, s))


def r_CCYPow(p):
    t, s = p["e"], p["s"]
    return _two((2, 2, 2), ph(t * s) * ctrl(y_pow(t), 2), involution_pow(CCY_, t, s))


def r_CSwap(p):
    m = np.zeros((8, 8), dtype=complex)
    for a, b, c in itertools.product(range(2), repeat=3):
        bb, cc = (c, b) if a else (b, c)
        m[4 * a + 2 * bb + cc, 4 * a + 2 * b + c] = 1
    return _two((2, 2, 2), CSWAP_, m)


# ----------------------------------------------------------------------------- structural gates


def r_Identity(p):
    shape = tuple(p["shape"]) if "shape" in p else (2,) * p["n"]
    return _two(shape, np.eye(L.dim(shape)))


def r_QuditIdentity(p):
    return _two((p["d"],), np.eye(p["d"]))


def r_GlobalPhase(p):
    return _two((), np.array([[cmath.exp(2j * math.pi * p["turns"])]]))


def r_Wait(p):
    shape = tuple(p.get("shape", (2,)))
    return _two(shape, np.eye(L.dim(shape)))


def qft(n, without_reverse=False):
    N = 2 ** n
    w = cmath.exp(2j * math.pi / N)

    def rev(x):
        return int(format(x, f"0{n}b")[::-1], 2) if n else 0

    m = np.zeros((N, N), dtype=complex)
    for x in range(N):
        for y in range(N):
            # the qubit-reversing swaps sit at the *end* of the circuit; leaving them out reverses the output bits
            m[x, y] = w ** ((rev(x) if without_reverse else x) * y) / math.sqrt(N)
    return m


def r_QFT(p):
    return _two((2,) * p["n"], qft(p["n"], p["wr"]))


def r_PhaseGradient(p):
    n, t = p["n"], p["e"]
    N = 2 ** n
    return _two((2,) * n, np.diag([cmath.exp(2j * math.pi * x * t / N) for x in range(N)]))


def r_Diagonal(p):
    a = p["angles"]
    n = int(round(math.log2(len(a))))
    return _two((2,) * n, np.diag([cmath.exp(1j * x) for x in a]))


def qubit_permutation(perm):
    """"The entry at offset i is the result of permuting i": the value of qubit i ends up on qubit perm[i]."""
    n = len(perm)
    m = np.zeros((2 ** n, 2 ** n), dtype=complex)
    for bits in itertools.product(range(2), repeat=n):
        out = [0] * n
        for i, b in enumerate(bits):
            out[perm[i]] = b
        m[L.digits_to_index(out, (2,) * n), L.digits_to_index(bits, (2,) * n)] = 1
    return m


def r_QubitPermutation(p):
    return _two((2,) * len(p["perm"]), qubit_permutation(list(p["perm"])))


def r_Matrix(d_of):
    def f(p):
        shape = d_of(p)
        return _two(shape, L.random_unitary_from_floats(p["v"], L.dim(shape)))

    return f


def r_QuditPlus(p):
    d, k = p["d"], p["k"]
    m = np.zeros((d, d), dtype=complex)
    for x in range(d):
        m[(x + k) % d, x] = 1
    return _two((d,), m)


def qudit_shift(d):
    m = np.zeros((d, d), dtype=complex)
    for x in range(d):
        m[(x + 1) % d, x] = 1
    return m


def r_XPowD(p):
    """Generalised Pauli X (cyclic shift |k> -> |k+1 mod d>) to the power t, eigen-phases 2k/d half turns."""
    d, t, s = p["d"], p["e"], p["s"]
    w = cmath.exp(2j * math.pi / d)
    m = np.zeros((d, d), dtype=complex)
    for k in range(d):
        f = np.array([w ** (-j * k) for j in range(d)]) / math.sqrt(d)  # shift eigenvector, eigenvalue w**k
        m += ph(t * (2 * k / d + s)) * np.outer(f, f.conj())
    forms = {"spectral": m}
    if float(t).is_integer() and abs(t) < 64:
        forms["integer_power"] = ph(t * s) * np.linalg.matrix_power(qudit_shift(d), int(t) % d)
    return Ref((d,), forms)


def r_ZPowD(p):
    """Generalised Pauli Z (clock) diag(w**k) to the power t."""
    d, t, s = p["d"], p["e"], p["s"]
    return _two((d,), ph(t * s) * np.diag([ph(2 * k * t / d) for k in range(d)]))


def pauli_string(ps: Sequence[str], coeff: complex = 1.0):
    return coeff * kron(*[PAULIS[c] for c in ps])


def r_DensePauli(p):
    return _two((2,) * len(p["ps"]), pauli_string(p["ps"], 1j ** p["c"]))


def r_PauliStringPhasor(p):
    n = len(p["ps"])
    P = pauli_string(p["ps"], p["sign"])
    one = np.eye(2 ** n, dtype=complex)
    return _two((2,) * n, ph(p["pos"]) * (one + P) / 2 + ph(p["neg"]) * (one - P) / 2)


def pauli_eigenprojector(pauli: str, plus: bool):
    return (I2 + (1 if plus else -1) * PAULIS[pauli]) / 2


def r_PauliInteraction(p):
    """CZ conjugated by Cliffords: phases e^{i pi t} the product of the -1 eigenvectors (the +1 ones where inverted)."""
    proj = np.kron(pauli_eigenprojector(p["p0"], bool(p["i0"])), pauli_eigenprojector(p["p1"], bool(p["i1"])))
    t = p["e"]
    return _two((2, 2), np.eye(4) + (ph(t) - 1) * proj)


# The 24 single-qubit Cliffords in the documented order of ``all_single_qubit_cliffords``:
# (x_to, z_to, matrix proportional to) -- from the comments next to the table.
_I, _X, _Y, _Z = I2, X, Y, Z
CLIFFORDS = [
    ("+X", "+Z", _I), ("+X", "-Z", _X), ("-X", "-Z", _Y), ("-X", "+Z", _Z),
    ("+X", "-Y", _I - 1j * _X), ("-Z", "+X", _I - 1j * _Y), ("+Y", "+Z", _I - 1j * _Z),
    ("+X", "+Y", _I + 1j * _X), ("+Z", "-X", _I + 1j * _Y), ("-Y", "+Z", _I + 1j * _Z),
    ("+Z", "+X", _Z + _X), ("+Y", "-Z", _X + _Y), ("-X", "+Y", _Y + _Z),
    ("-Z", "-X", _Z - _X), ("-Y", "-Z", _X - _Y), ("-X", "-Y", _Y - _Z),
    ("+Y", "+X", _I - 1j * (_X + _Y + _Z)), ("-Z", "-Y", _I - 1j * (_X + _Y - _Z)),
    ("+Z", "-Y", _I - 1j * (_X - _Y + _Z)), ("-Y", "-X", _I - 1j * (_X - _Y - _Z)),
    ("-Z", "+Y", _I - 1j * (-_X + _Y + _Z)), ("-Y", "+X", _I - 1j * (-_X + _Y - _Z)),
    ("+Y", "-X", _I - 1j * (-_X - _Y + _Z)), ("+Z", "+Y", _I - 1j * (-_X - _Y - _Z)),
]


def signed_pauli(s: str):
    return (-1 if s[0] == "-" else 1) * PAULIS[s[1]]


def r_SingleQubitClifford(p):
    x_to, z_to, m = CLIFFORDS[p["i"]]
    m = m / math.sqrt(abs(np.linalg.det(m)))
    # the table's own two descriptions must agree: m X m^dag = x_to, m Z m^dag = z_to
    assert np.allclose(m @ X @ m.conj().T, signed_pauli(x_to)) and np.allclose(m @ Z @ m.conj().T, signed_pauli(z_to))
    return _two((2,), m, phase="upto")


def r_UniformSuperposition(p):
    n, m = p["n"], p["m"]
    v = np.zeros(2 ** n, dtype=complex)
    v[:m] = 1 / math.sqrt(m)
    return Ref((2,) * n, {}, "exact", column0=v)


def r_TwoQubitClifford(p):
    """Named two-qubit Clifford tableau gates; the names are read as 'first ... then SWAP'."""
    m = {"CNOT": CNOT, "CZ": CZ_, "SWAP": SWAP, "CXSWAP": SWAP @ CNOT, "CZSWAP": SWAP @ CZ_}[p["name"]]
    return _two((2, 2), m, phase="upto")


def boolean_eval(expr, env):
    """expr: ["v", name] | ["~", e] | ["&"|"|"|"^", e1, e2]"""
    k = expr[0]
    if k == "v":
        return bool(env[expr[1]])
    if k == "~":
        return not boolean_eval(expr[1], env)
    a, b = boolean_eval(expr[1], env), boolean_eval(expr[2], env)
    return {"&": a and b, "|": a or b, "^": a != b}[k]


def r_BooleanHamiltonian(p):
    """diag e^{-i theta/2 * #true expressions}, up to global phase (sign: constructor docstring exp(-j theta H);
    scale t/2: class docstring)."""
    names, exprs, theta = p["names"], p["exprs"], p["theta"]
    n = len(names)
    d = []
    for bits in itertools.product(range(2), repeat=n):
        cnt = sum(boolean_eval(e, dict(zip(names, bits))) for e in exprs)
        d.append(cmath.exp(-1j * theta / 2 * cnt))
    return _two((2,) * n, np.diag(d), phase="upto")


def r_Arithmetic(p):
    """Harness adder / modular multiplier: target register <- f(target, input) (mod 2^len), input unchanged."""
    nt, ni, kind, k = p["nt"], p["ni"], p["kind"], p.get("k", 0)
    N, M = 2 ** nt, 2 ** ni
    m = np.zeros((N * M, N * M), dtype=complex)
    for t in range(N):
        for i in range(M):
            if kind == "add":
                t2 = (t + i) % N
            elif kind == "addconst":
                t2 = (t + k) % N
            else:  # modular multiplication by odd constant (a permutation of the register values)
                t2 = (t * k) % N
            m[t2 * M + i, t * M + i] = 1
    return _two((2,) * (nt + ni), m)


# ----------------------------------------------------------------------------- vendor gates


def r_SYC(p):
    return _two((2, 2), np.array([[1, 0, 0, 0], [0, 0, -1j, 0], [0, -1j, 0, 0], [0, 0, 0, cmath.exp(-1j * math.pi / 6)]]),
                fsim(math.pi / 2, math.pi / 6))


def r_WILLOW(p):
    return _two((2, 2), np.array([[1, 0, 0, 0], [0, 0, -1j, 0], [0, -1j, 0, 0], [0, 0, 0, cmath.exp(-1j * math.pi / 9)]]),
                fsim(math.pi / 2, math.pi / 9))


def _e2(x):
    return cmath.exp(2j * math.pi * x)


def r_GPI(p):
    f = p["phi"]
    return _two((2,), np.array([[0, _e2(-f)], [_e2(f), 0]]))


def r_GPI2(p):
    f = p["phi"]
    return _two((2,), np.array([[1, -1j * _e2(-f)], [-1j * _e2(f), 1]]) / SQ2)


def r_IonqMS(p):
    a, b, th = p["phi0"], p["phi1"], p["theta"]
    c, s = math.cos(math.pi * th), math.sin(math.pi * th)
    return _two((2, 2), np.array([[c, 0, 0, -1j * _e2(-(a + b)) * s],
                                  [0, c, -1j * _e2(-(a - b)) * s, 0],
                                  [0, -1j * _e2(a - b) * s, c, 0],
                                  [-1j * _e2(a + b) * s, 0, 0, c]]))


def r_IonqZZ(p):
    th = p["theta"]
    return _two((2, 2), np.diag([ph(-th), ph(th), ph(th), ph(-th)]), exp_i(ZZ_, -math.pi * th))


# ----------------------------------------------------------------------------- channels (Kraus sets)


def _ch(shape, kraus):
    return Ref(tuple(shape), {}, "exact", kraus=[np.asarray(k, dtype=complex) for k in kraus])


def all_pauli_strings(n):
    return ["".join(t) for t in itertools.product("IXYZ", repeat=n)]


def r_Depolarize(n):
    def f(p):
        q = p["p"]
        ks = []
        for s in all_pauli_strings(n):
            w = 1 - q if s == "I" * n else q / (4 ** n - 1)
            ks.append(math.sqrt(max(w, 0.0)) * pauli_string(s))
        return _ch((2,) * n, ks)

    return f


def r_AsymDepolarize(p):
    px, py, pz = p["px"], p["py"], p["pz"]
    return _ch((2,), [math.sqrt(max(1 - px - py - pz, 0.0)) * I2, math.sqrt(px) * X, math.sqrt(py) * Y, math.sqrt(pz) * Z])


def r_AsymDepolarizeDict(p):
    probs = dict(p["probs"])
    n = p["n"]
    ident = "I" * n
    if ident not in probs:
        probs[ident] = 1 - sum(probs.values())
    return _ch((2,) * n, [math.sqrt(max(w, 0.0)) * pauli_string(s) for s, w in sorted(probs.items())])


def r_BitFlip(p):
    return _ch((2,), [math.sqrt(1 - p["p"]) * I2, math.sqrt(p["p"]) * X])


def r_PhaseFlip(p):
    return _ch((2,), [math.sqrt(1 - p["p"]) * I2, math.sqrt(p["p"]) * Z])


def r_PhaseDamp(p):
    g = p["g"]
    return _ch((2,), [np.diag([1, math.sqrt(1 - g)]), np.diag([0, math.sqrt(g)])])


def r_AmplitudeDamp(p):
    g = p["g"]
    return _ch((2,), [np.diag([1, math.sqrt(1 - g)]), np.array([[0, math.sqrt(g)], [0, 0]])])


def r_GenAmplitudeDamp(p):
    q, g = p["p"], p["g"]
    return _ch((2,), [math.sqrt(q) * np.diag([1, math.sqrt(1 - g)]), math.sqrt(q) * np.array([[0, math.sqrt(g)], [0, 0]]),
                      math.sqrt(1 - q) * np.diag([math.sqrt(1 - g), 1]), math.sqrt(1 - q) * np.array([[0, 0], [math.sqrt(g), 0]])])


def r_Reset(p):
    d = p.get("d", 2)
    ks = []
    for i in range(d):
        k = np.zeros((d, d), dtype=complex)
        k[0, i] = 1
        ks.append(k)
    return _ch((d,), ks)


_SUB = {"X": X, "Y": Y, "Z": Z, "H": HAD, "S": np.diag([1, 1j]).astype(complex)}


def r_RandomGate(p):
    q = p["p"]
    return _ch((2,), [math.sqrt(1 - q) * I2, math.sqrt(q) * _SUB[p["sub"]]])


def kraus_from_floats(vals, n_ops, d):
    """A valid Kraus set from drawn floats: slices of the first d columns of a (n_ops*d)-dim unitary."""
    D = n_ops * d
    u = L.random_unitary_from_floats(vals, D)
    return [u[k * d:(k + 1) * d, :d] for k in range(n_ops)]


def r_KrausChannel(p):
    d = 2 ** p["n"]
    return _ch((2,) * p["n"], kraus_from_floats(p["v"], p["k"], d))


def mixture_from_floats(p):
    d = 2 ** p["n"]
    w = np.array([abs(x) + 1e-3 for x in p["w"]], dtype=float)
    w = w / w.sum()
    us = [L.random_unitary_from_floats(v, d) for v in p["us"]]
    return list(zip([float(x) for x in w], us))


def r_MixedUnitary(p):
    return _ch((2,) * p["n"], [math.sqrt(w) * u for w, u in mixture_from_floats(p)])


def r_StatePreparation(p):
    D = 2 ** p["n"]
    psi = L.state_from_floats(p["v"], D)
    ks = []
    for i in range(D):
        k = np.zeros((D, D), dtype=complex)
        k[:, i] = psi
        ks.append(k)
    return _ch((2,) * p["n"], ks)


def r_Measurement(p):
    shape = tuple(p["shape"])
    D = L.dim(shape)
    ks = []
    for i in range(D):
        k = np.zeros((D, D), dtype=complex)
        k[i, i] = 1
        ks.append(k)
    return _ch(shape, ks)


# ----------------------------------------------------------------------------- table

REF: Dict[str, Callable[[dict], Ref]] = {
    "XPow": r_XPow, "YPow": r_YPow, "ZPow": r_ZPow, "HPow": r_HPow, "CZPow": r_CZPow, "CXPow": r_CXPow, "CYPow": r_CYPow,
    "SwapPow": r_SwapPow, "ISwapPow": r_ISwapPow, "XXPow": r_XXPow, "YYPow": r_YYPow, "ZZPow": r_ZZPow,
    "CCZPow": r_CCZPow, "CCXPow": r_CCXPow, "CCYPow": r_CCYPow, "Rx": r_Rx, "Ry": r_Ry, "Rz": r_Rz,
    "PhasedXPow": r_PhasedXPow, "PhasedXZ": r_PhasedXZ, "PhasedISwapPow": r_PhasedISwapPow, "FSim": r_FSim,
    "PhasedFSim": r_PhasedFSim, "MS": r_MS, "CSwap": r_CSwap, "Identity": r_Identity, "GlobalPhase": r_GlobalPhase,
    "Wait": r_Wait, "QFT": r_QFT, "PhaseGradient": r_PhaseGradient, "Diagonal": r_Diagonal, "TwoQubitDiagonal": r_Diagonal,
    "ThreeQubitDiagonal": r_Diagonal, "QubitPermutation": r_QubitPermutation,
    "Matrix1": r_Matrix(lambda p: (2,)), "Matrix2": r_Matrix(lambda p: (2, 2)), "Matrix3": r_Matrix(lambda p: (2, 2, 2)),
    "PauliInteraction": r_PauliInteraction, "SingleQubitClifford": r_SingleQubitClifford, "DensePauli": r_DensePauli,
    "PauliStringPhasor": r_PauliStringPhasor, "UniformSuperposition": r_UniformSuperposition,
    "SYC": r_SYC, "WILLOW": r_WILLOW, "GPI": r_GPI, "GPI2": r_GPI2, "IonqMS": r_IonqMS, "IonqZZ": r_IonqZZ,
    "QuditMatrix": r_Matrix(lambda p: (p["d"],)), "QuditMatrix2": r_Matrix(lambda p: tuple(p["d"])),
    "QuditPlus": r_QuditPlus, "QuditIdentity": r_QuditIdentity,
    "Depolarize": r_Depolarize(1), "Depolarize2": r_Depolarize(2), "AsymDepolarize": r_AsymDepolarize, "BitFlip": r_BitFlip,
    "PhaseFlip": r_PhaseFlip, "PhaseDamp": r_PhaseDamp, "AmplitudeDamp": r_AmplitudeDamp, "GenAmplitudeDamp": r_GenAmplitudeDamp,
    "Reset": r_Reset, "RandomGate": r_RandomGate,
    # families of vf.gen.gates_extra
    "XPowD": r_XPowD, "ZPowD": r_ZPowD, "ResetD": r_Reset, "AsymDepolarizeDict": r_AsymDepolarizeDict, "Depolarize3": r_Depolarize(3),
    "KrausChannel": r_KrausChannel, "MixedUnitary": r_MixedUnitary, "StatePreparation": r_StatePreparation,
    "Measurement": r_Measurement, "TwoQubitClifford": r_TwoQubitClifford, "BooleanHamiltonian": r_BooleanHamiltonian,
    "Arithmetic": r_Arithmetic, "CPhase": r_CPhase, "Givens": r_Givens, "RISwap": r_RISwap, "FSimRz": r_FSimRz,
    "IdentityShape": r_Identity, "WaitShape": r_Wait, "WaitWithUnit": r_Wait, "MutableDensePauli": r_DensePauli,
    "PhasedISwapPowS": r_PhasedISwapPow, "IonqMSWide": r_IonqMS, "IonqZZWide": r_IonqZZ,
}


def _parallel(p):
    sub_name, sub_p = p["sub"]
    sub = REF[sub_name](sub_p)
    u = sub.matrix
    return _two((2,) * p["k"], kron(*[u] * p["k"]), phase=sub.phase)


REF["Parallel"] = _parallel


def reference(recipe) -> Ref:
    name, params = recipe
    return REF[name](params)


# literal textbook matrices of the named constants (independent of the family formulas above)
_S = np.diag([1, 1j]).astype(complex)
_T = np.diag([1, cmath.exp(1j * math.pi / 4)]).astype(complex)
CONSTANT_MATRICES = {
    "X": X, "Y": Y, "Z": Z, "H": HAD, "S": _S, "T": _T, "I": I2,
    "CNOT": CNOT, "CX": CNOT, "CY": CY_, "CZ": CZ_, "SWAP": SWAP, "ISWAP": ISWAP, "ISWAP_INV": ISWAP.conj().T,
    "SQRT_ISWAP": np.array([[1, 0, 0, 0], [0, 1 / SQ2, 1j / SQ2, 0], [0, 1j / SQ2, 1 / SQ2, 0], [0, 0, 0, 1]], dtype=complex),
    "SQRT_ISWAP_INV": np.array([[1, 0, 0, 0], [0, 1 / SQ2, -1j / SQ2, 0], [0, -1j / SQ2, 1 / SQ2, 0], [0, 0, 0, 1]], dtype=complex),
    "XX": XX_, "YY": YY_, "ZZ": ZZ_, "CCX": CCX_, "CCNOT": CCX_, "TOFFOLI": CCX_, "CCY": CCY_, "CCZ": CCZ_,
    "CSWAP": CSWAP_, "FREDKIN": CSWAP_,
}
