"""Reference decoding of measurement records for C18 (pure Python, no Cirq, no numpy arithmetic).

A *key spec* is ``{"name", "radix": [r_0..r_{w-1}], "inst", "dtype", "pool": [ints], "idx": [ints]}``.
Row (rep, inst) of the key is the mixed-radix big-endian digit expansion of
``pool[idx[(rep*inst_count + inst) % len(idx)] % len(pool)] % prod(radix)``.
Everything is tolerant of shortened lists / zeroed numbers (generic minimiser).
"""
from __future__ import annotations

import collections
import hashlib
from typing import Dict, List, Sequence


def prod(radix: Sequence[int]) -> int:
    p = 1
    for r in radix:
        p *= int(r)
    return p


def int_to_digits(v: int, radix: Sequence[int]) -> List[int]:
    """Big-endian mixed-radix digits of v (last radix = least significant).  v must be in range."""
    out = [0] * len(radix)
    for i in range(len(radix) - 1, -1, -1):
        v, out[i] = divmod(v, int(radix[i]))
    if v:
        raise AssertionError("reference int_to_digits: value out of range")
    return out


def digits_to_int(digits: Sequence[int], radix: Sequence[int]) -> int:
    """Sum of digit * (product of the radices to its right)."""
    total = 0
    weight = 1
    for d, r in zip(reversed(list(digits)), reversed(list(radix))):
        total += int(d) * weight
        weight *= int(r)
    return total


def digits_to_int_uniform(digits: Sequence[int], base: int) -> int:
    n = len(digits)
    return sum(int(d) * base ** (n - 1 - i) for i, d in enumerate(digits))


def clean_radix(radix) -> List[int]:
    return [min(5, max(2, int(r))) for r in radix]


def row_value(spec: dict, rep: int, inst: int) -> int:
    radix = clean_radix(spec["radix"])
    pool = spec.get("pool") or [0]
    idx = spec.get("idx") or [0]
    n_inst = max(1, int(spec.get("inst", 1)))
    j = int(idx[(rep * n_inst + inst) % len(idx)]) % len(pool)
    return abs(int(pool[j])) % prod(radix)


def rows(spec: dict, reps: int) -> List[List[List[int]]]:
    """records[rep][inst][q] for one key."""
    radix = clean_radix(spec["radix"])
    n_inst = max(1, int(spec.get("inst", 1)))
    out = []
    for rep in range(reps):
        out.append([int_to_digits(row_value(spec, rep, i), radix) for i in range(n_inst)])
    return out


def values(spec: dict, reps: int) -> List[List[int]]:
    n_inst = max(1, int(spec.get("inst", 1)))
    return [[row_value(spec, rep, i) for i in range(n_inst)] for rep in range(reps)]


def long_value(spec: dict, rep: int, inst: int) -> int:
    """Cheap pseudo-random row value for long results: a linear congruential walk reduced modulo the value range."""
    radix = clean_radix(spec["radix"])
    mult = abs(int(spec.get("mult", 1))) % 1000003 or 1
    add = abs(int(spec.get("add", 0)))
    x = (rep * mult + add + 7919 * inst) % 1000003
    return (x ^ (x >> 7)) % prod(radix)


def long_rows(spec: dict, reps: int):
    """-> (records[rep][inst][q], values[rep][inst]) for a long result; digit tuples are cached per value."""
    radix = clean_radix(spec["radix"])
    n_inst = max(1, int(spec.get("inst", 1)))
    cache = {}
    recs, vals = [], []
    for rep in range(reps):
        vs = [long_value(spec, rep, i) for i in range(n_inst)]
        row = []
        for v in vs:
            d = cache.get(v)
            if d is None:
                d = cache[v] = int_to_digits(v, radix)
            row.append(d)
        recs.append(row)
        vals.append(vs)
    return recs, vals


def expected_str(specs: Sequence[dict], recs: Dict[str, List[List[List[int]]]]) -> List[str]:
    """Lines of str(result): keys sorted, one line per instance, per qubit the digits of all repetitions."""
    lines = []
    for spec in sorted(specs, key=lambda s: s["name"]):
        r = recs[spec["name"]]
        w = len(spec["radix"])
        n_inst = max(1, int(spec.get("inst", 1)))
        for j in range(n_inst):
            cols = ["".join(str(r[rep][j][q]) for rep in range(len(r))) for q in range(w)]
            lines.append(f"{spec['name']}=" + ", ".join(cols))
    return lines


def pack_bits_hex(bits: Sequence[int]) -> str:
    """Hex of the bits packed 8 per byte, first bit = most significant bit of the first byte, zero padded."""
    text = "".join("1" if b else "0" for b in bits)
    text += "0" * (-len(text) % 8)
    if not text:
        return ""
    return int(text, 2).to_bytes(len(text) // 8, "big").hex()


def flatten(x) -> List[int]:
    out: List[int] = []
    stack = [x]
    while stack:
        v = stack.pop()
        if isinstance(v, (list, tuple)):
            stack.extend(reversed(v))
        else:
            out.append(v)
    return out


def counter(items) -> collections.Counter:
    c: collections.Counter = collections.Counter()
    for it in items:
        c[it] += 1
    return c


# ------------------------------------------------------------------ deterministic pseudo-measurements (harness samplers)


def fake_digits(prog: int, key: str, radix: Sequence[int], params: Dict[str, float], reps: int, rep: int, inst: int) -> List[int]:
    """Digits a harness sampler reports; a pure function of everything a run is identified by."""
    ps = ",".join(f"{k}={float(v)!r}" for k, v in sorted(params.items()))
    s = f"{prog}|{key}|{list(radix)}|{ps}|{reps}|{rep}|{inst}"
    raw = hashlib.shake_256(s.encode()).digest(max(1, len(radix)))
    return [raw[i] % int(radix[i]) for i in range(len(radix))]


def fake_records(prog: int, shapes: Sequence, params: Dict[str, float], reps: int) -> Dict[str, List[List[List[int]]]]:
    """shapes: [(key, n_instances, radix)]"""
    return {
        key: [[fake_digits(prog, key, radix, params, reps, rep, i) for i in range(n_inst)] for rep in range(reps)]
        for key, n_inst, radix in shapes
    }
