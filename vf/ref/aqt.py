"""Independent interpreter of AQT job payloads (plain numpy; shares no code with cirq_aqt).

Gate definitions of the AQT API (Arnica v1 ``quantum_circuit`` operations, quoted in ``cirq_aqt.aqt_sampler``:
``GateRZ`` "rotation around the Bloch sphere's z-axis", ``GateR`` "rotation around an arbitrary axis on the Bloch
sphere's equatorial plane", ``GateRXX`` "two-qubit entangling gate of Moelmer-Soerenson type"); all angles are given in
units of pi:

  RZ(phi)       = exp(-i * phi*pi/2 * Z)
  R(theta, phi) = exp(-i * theta*pi/2 * (cos(phi*pi) X + sin(phi*pi) Y))
  RXX(theta)    = exp(-i * theta*pi/2 * X (x) X)
  MEASURE       = projective measurement of all qubits (must be the single, last operation)

Legacy format (``AQTSampler._generate_json`` docstring): a list of ``[op_string, gate_exponent, qubits]`` with op_string
in "Z", "MS", "R", "Meas"; "R" carries ``[op_string, theta, phi, qubits]`` (consumer in the repository:
``AQTSimulator.generate_circuit_from_list`` reads index 1 as the exponent theta and index 2 as the phase phi); the same
gate definitions apply ("Z" = RZ, "MS" = RXX).

Qubit ``k`` is wire ``k``; the register is big-endian in the wire number.
"""
from __future__ import annotations

import math
from typing import List, Sequence, Tuple

import numpy as np

from . import linalg as L


class PayloadError(Exception):
    pass


def _num(x, what):
    if isinstance(x, bool) or not isinstance(x, (int, float)) or not math.isfinite(x):
        raise PayloadError(f"{what} is not a finite number: {x!r}")
    return float(x)


def _wire(x, n):
    if isinstance(x, bool) or not isinstance(x, int) or not 0 <= x < n:
        raise PayloadError(f"qubit {x!r} outside 0..{n - 1}")
    return x


def rz(phi):
    a = math.pi * phi / 2
    return np.diag([np.exp(-1j * a), np.exp(1j * a)]).astype(complex)


def r(theta, phi):
    a = math.pi * theta / 2
    axis = math.cos(math.pi * phi) * L.PX + math.sin(math.pi * phi) * L.PY
    return math.cos(a) * L.I2 - 1j * math.sin(a) * axis


def rxx(theta):
    a = math.pi * theta / 2
    return math.cos(a) * np.eye(4, dtype=complex) - 1j * math.sin(a) * np.kron(L.PX, L.PX)


def current_ops(ops: Sequence[dict], n: int) -> Tuple[List[Tuple[np.ndarray, List[int]]], int]:
    """-> ([(matrix, wires)], number of MEASURE operations); checks MEASURE is last."""
    out = []
    nmeas = 0
    for i, op in enumerate(ops):
        if nmeas:
            raise PayloadError("operation after MEASURE")
        kind = op.get("operation")
        if kind == "RZ":
            out.append((rz(_num(op.get("phi"), "phi")), [_wire(op.get("qubit"), n)]))
        elif kind == "R":
            out.append((r(_num(op.get("theta"), "theta"), _num(op.get("phi"), "phi")), [_wire(op.get("qubit"), n)]))
        elif kind == "RXX":
            qs = op.get("qubits")
            if not isinstance(qs, list) or len(qs) != 2 or qs[0] == qs[1]:
                raise PayloadError(f"RXX needs two distinct qubits: {op}")
            out.append((rxx(_num(op.get("theta"), "theta")), [_wire(q, n) for q in qs]))
        elif kind == "MEASURE":
            if set(op) != {"operation"}:
                raise PayloadError(f"MEASURE takes no arguments: {op}")
            nmeas += 1
        else:
            raise PayloadError(f"unknown operation {op}")
    return out, nmeas


def interpret_current(ops: Sequence[dict], n: int) -> np.ndarray:
    mats, nmeas = current_ops(ops, n)
    if nmeas != 1:
        raise PayloadError(f"{nmeas} MEASURE operations (need exactly one, at the end)")
    return L.circuit_unitary(mats, [2] * n)


def legacy_ops(seq: Sequence[list], n: int) -> Tuple[List[Tuple[np.ndarray, List[int]]], List[List[int]]]:
    """-> ([(matrix, wires)], [qubits of every "Meas" entry])."""
    out = []
    meas = []
    for e in seq:
        if not isinstance(e, list) or not e:
            raise PayloadError(f"malformed entry {e!r}")
        name = e[0]
        if name == "R":
            if len(e) != 4 or not isinstance(e[3], list) or len(e[3]) != 1:
                raise PayloadError(f"R entry must be [R, theta, phi, [qubit]]: {e}")
            out.append((r(_num(e[1], "theta"), _num(e[2], "phi")), [_wire(e[3][0], n)]))
        elif name == "Z":
            if len(e) != 3 or not isinstance(e[2], list) or len(e[2]) != 1:
                raise PayloadError(f"Z entry must be [Z, exponent, [qubit]]: {e}")
            out.append((rz(_num(e[1], "exponent")), [_wire(e[2][0], n)]))
        elif name == "MS":
            if len(e) != 3 or not isinstance(e[2], list) or len(e[2]) != 2 or e[2][0] == e[2][1]:
                raise PayloadError(f"MS entry must be [MS, exponent, [q0, q1]]: {e}")
            out.append((rxx(_num(e[1], "exponent")), [_wire(q, n) for q in e[2]]))
        elif name == "Meas":
            meas.append(list(e[-1]))
        else:
            raise PayloadError(f"unknown op string {name!r}")
    return out, meas


def interpret_legacy(seq: Sequence[list], n: int) -> np.ndarray:
    mats, _ = legacy_ops(seq, n)
    return L.circuit_unitary(mats, [2] * n)
