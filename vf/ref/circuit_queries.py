"""I5 (query coherence) for C05: every query on the live circuit == the same query on a freshly rebuilt circuit
== the list-of-lists model (``vf.ref.circuit_model``)."""
from __future__ import annotations

import numpy as np

import cirq
from vf.ref import circuit_model as M

ALL = ["qubits", "mkeys", "params", "meas", "eq", "freeze", "unitary", "nextprev", "reach", "between", "until", "misc", "moments"]


_NOMODEL = object()


def _int(v, d=0):
    return v if isinstance(v, int) and not isinstance(v, bool) else d


def run(it, a):
    from vf.checks.c05 import QUBITS, _op_uid

    c = it.c
    lay = it.layout
    info = it.info
    n = len(lay)
    names = a.get("q") if isinstance(a.get("q"), list) else ["*"]
    if "*" in names:
        names = ALL
    rebuilt = cirq.Circuit([cirq.Moment(m.operations) for m in c.moments], tags=c.tags)
    qs = sorted({_int(q) % 5 for q in (a.get("qs") or [0])}) or [0]
    cq = [QUBITS[q] for q in qs]
    blk = a.get("blk")
    if isinstance(blk, list) and len(blk) == 2 and _int(blk[0]) >= 2:
        bm, br = _int(blk[0]), _int(blk[1])
        blocker_m = lambda x: x % bm == br % bm
    else:
        blocker_m = lambda x: False
    blocker_c = lambda op: blocker_m(_op_uid(op))
    fr = [(_int(v) % (n + 2)) for v in (a.get("fr") or [0, 0, 0, 0])][:5]
    fr2 = [(_int(v) % (n + 2)) for v in (a.get("fr2") or [n, n, n, n])][:5]
    mask = _int(a.get("mask"), 0b10111)
    start = {q: fr[q] for q in range(min(5, len(fr))) if mask >> q & 1}
    end = {q: fr2[q] for q in range(min(5, len(fr2))) if (mask >> (q + 5) & 1) or (mask >> q & 1 and q % 2 == 0)}

    def same(what, live, fresh, model=_NOMODEL):
        if live != fresh:
            it.fail(f"I5 {what}: live circuit answers {live!r}, a freshly rebuilt equal circuit answers {fresh!r}", lay, lay)
        if model is not _NOMODEL and live != model:
            it.fail(f"I5 {what}: circuit answers {live!r}, the model says {model!r}", lay, lay)

    def qset(s):
        return frozenset(QUBITS[q] for q in s)

    for name in names:
        if name == "qubits":
            same("all_qubits", c.all_qubits(), rebuilt.all_qubits(), qset(M.all_qubits(lay, info)))
        elif name == "mkeys":
            mk = frozenset(cirq.MeasurementKey(k) for k in M.all_mkeys(lay, info))
            same("all_measurement_key_objs", c.all_measurement_key_objs(), rebuilt.all_measurement_key_objs(), mk)
            same("all_measurement_key_names", c.all_measurement_key_names(), rebuilt.all_measurement_key_names(),
                 frozenset(M.all_mkeys(lay, info)))
            same("cirq.measurement_key_objs", cirq.measurement_key_objs(c), cirq.measurement_key_objs(rebuilt), mk)
        elif name == "params":
            ps = M.all_params(lay, info)
            same("is_parameterized", cirq.is_parameterized(c), cirq.is_parameterized(rebuilt), bool(ps))
            same("parameter_names", set(cirq.parameter_names(c)), set(cirq.parameter_names(rebuilt)), set(ps))
        elif name == "meas":
            same("has_measurements", c.has_measurements(), rebuilt.has_measurements(), M.has_measurements(lay, info))
            same("is_measurement", cirq.is_measurement(c), cirq.is_measurement(rebuilt), M.has_measurements(lay, info))
            same("are_all_measurements_terminal", c.are_all_measurements_terminal(), rebuilt.are_all_measurements_terminal(),
                 M.measurements_terminal(lay, info, True))
            same("are_any_measurements_terminal", c.are_any_measurements_terminal(), rebuilt.are_any_measurements_terminal(),
                 M.measurements_terminal(lay, info, False))
        elif name == "eq":
            if not (c == rebuilt and rebuilt == c and not c != rebuilt):
                it.fail("I5 ==: live circuit does not compare equal to a freshly rebuilt equal circuit", lay, lay)
            same("len", len(c), len(rebuilt), n)
            same("bool", bool(c), bool(rebuilt), n > 0)
        elif name == "freeze":
            f = c.freeze()
            g = rebuilt.freeze()
            if f != g or hash(f) != hash(g):
                it.fail("I5 freeze(): frozen live circuit and frozen rebuilt circuit differ (== or hash)", lay, it.read(f, "freeze()"))
            if c.freeze() is not f:
                it.fail("I5 freeze(): repeated call on an unmutated circuit returned another instance")
            fl = it.read(f, "freeze()")
            if M.canon(fl) != M.canon(lay):
                it.fail("I5 freeze(): frozen view differs from the circuit", lay, fl)
            same("frozen.all_qubits", f.all_qubits(), g.all_qubits(), qset(M.all_qubits(lay, info)))
            same("frozen.all_measurement_key_names", f.all_measurement_key_names(), g.all_measurement_key_names(),
                 frozenset(M.all_mkeys(lay, info)))
            same("frozen.is_parameterized", cirq.is_parameterized(f), cirq.is_parameterized(g), bool(M.all_params(lay, info)))
            same("frozen.are_all_measurements_terminal", f.are_all_measurements_terminal(), g.are_all_measurements_terminal(),
                 M.measurements_terminal(lay, info, True))
            same("frozen.has_measurements", f.has_measurements(), g.has_measurements(), M.has_measurements(lay, info))
            if it.frozen_snap is not None:
                of, olay, ovals = it.frozen_snap
                now = it.read(of, "earlier freeze()", vals=ovals)
                if M.canon(now) != M.canon(olay):
                    it.fail("I5 freeze(): a FrozenCircuit obtained earlier changed when the circuit was edited", olay, now)
            it.frozen_snap = (f, M.copy_layout(lay), dict(it.val))
        elif name == "unitary":
            hu = cirq.has_unitary(c)
            same("has_unitary", hu, cirq.has_unitary(rebuilt))
            if hu and len(c.all_qubits()) <= 5:
                order = sorted(rebuilt.all_qubits())
                u1 = c.unitary(qubit_order=order)
                u2 = rebuilt.unitary(qubit_order=order)
                if u1.shape != u2.shape or not np.allclose(u1, u2, atol=1e-9):
                    it.fail("I5 unitary(): live circuit and freshly rebuilt circuit give different matrices", lay, lay)
        elif name == "nextprev":
            i = _int(a.get("i")) % (n + 3 if a.get("past") else n + 1)
            d = a.get("d")
            d = None if not isinstance(d, int) else d % (n + 2)
            same("next_moment_operating_on", c.next_moment_operating_on(cq, i, d), rebuilt.next_moment_operating_on(cq, i, d),
                 M.next_moment_operating_on(lay, info, qs, i, d))
            same("prev_moment_operating_on", c.prev_moment_operating_on(cq, i, d), rebuilt.prev_moment_operating_on(cq, i, d),
                 M.prev_moment_operating_on(lay, info, qs, i, d))
            same("prev_moment_operating_on(default end)", c.prev_moment_operating_on(cq), rebuilt.prev_moment_operating_on(cq),
                 M.prev_moment_operating_on(lay, info, qs))
            nm = c.next_moments_operating_on(cq, min(i, n))
            want = {}
            for q in qs:
                r = M.next_moment_operating_on(lay, info, [q], min(i, n))
                want[QUBITS[q]] = n if r is None else r
            same("next_moments_operating_on", nm, rebuilt.next_moments_operating_on(cq, min(i, n)), want)
        elif name == "reach":
            if not start:
                continue
            sf = {QUBITS[q]: v for q, v in start.items()}
            got = c.reachable_frontier_from(dict(sf), is_blocker=blocker_c)
            want = M.reachable_frontier(lay, info, start, blocker_m)
            same("reachable_frontier_from", got, rebuilt.reachable_frontier_from(dict(sf), is_blocker=blocker_c),
                 {QUBITS[q]: v for q, v in want.items()})
        elif name == "between":
            sf = {QUBITS[q]: v for q, v in start.items()}
            ef = {QUBITS[q]: v for q, v in end.items()}
            omit = bool(a.get("omit"))
            got = c.findall_operations_between(sf, ef, omit_crossing_operations=omit)
            fresh = rebuilt.findall_operations_between(sf, ef, omit_crossing_operations=omit)
            g1 = [(i, _op_uid(op)) for i, op in got]
            if [i for i, _ in g1] != sorted(i for i, _ in g1):
                it.fail("I5 findall_operations_between: result is not sorted by moment index", lay, lay)
            same("findall_operations_between", sorted(g1), sorted((i, _op_uid(op)) for i, op in fresh),
                 M.findall_between(lay, info, start, end, omit))
        elif name == "until":
            if not start:
                continue
            sf = {QUBITS[q]: v for q, v in start.items()}
            got = [(i, _op_uid(op)) for i, op in c.findall_operations_until_blocked(sf, is_blocker=blocker_c)]
            fresh = [(i, _op_uid(op)) for i, op in rebuilt.findall_operations_until_blocked(sf, is_blocker=blocker_c)]
            want, ambiguous = M.findall_until_blocked(lay, info, start, blocker_m)
            same("findall_operations_until_blocked", sorted(got), sorted(fresh), _NOMODEL if ambiguous else sorted(want))
            for i, x in got:
                act = [start[q] for q in info[x].qubits if q in start]
                if not act or i < min(act):
                    it.fail("I5 findall_operations_until_blocked: reported an operation outside the start frontier", lay, lay)
        elif name == "misc":
            i = _int(a.get("i")) % (n + 1)
            for q in qs:
                x = M.op_at(lay, info, q, i)
                got = c.operation_at(QUBITS[q], i)
                same("operation_at", None if got is None else _op_uid(got), x, x)
            same("findall_operations", [(j, _op_uid(op)) for j, op in c.findall_operations(lambda op: blocker_c(op))],
                 [(j, _op_uid(op)) for j, op in rebuilt.findall_operations(lambda op: blocker_c(op))],
                 [(j, x) for j, m in enumerate(lay) for x in m if blocker_m(x)])
            same("findall_operations_with_gate_type(MeasurementGate)",
                 sorted((j, _op_uid(op)) for j, op, _ in c.findall_operations_with_gate_type(cirq.MeasurementGate)),
                 sorted((j, _op_uid(op)) for j, op, _ in rebuilt.findall_operations_with_gate_type(cirq.MeasurementGate)),
                 sorted((j, x) for j, m in enumerate(lay) for x in m if info[x].is_meas))
            same("all_operations", [_op_uid(op) for op in c.all_operations()], [_op_uid(op) for op in rebuilt.all_operations()],
                 [x for m in lay for x in m])
            same("qid_shape", c.qid_shape(), rebuilt.qid_shape(), (2,) * len(M.all_qubits(lay, info)))
            same("get_independent_qubit_sets", c.get_independent_qubit_sets(), rebuilt.get_independent_qubit_sets(),
                 [set(QUBITS[q] for q in s) for s in M.independent_qubit_sets(lay, info)])
            same("cirq.control_keys", cirq.control_keys(c), cirq.control_keys(rebuilt))
            sl = c[min(i, n):]
            if M.canon(it.read(sl, "circuit[i:]")) != M.canon(lay[min(i, n):]):
                it.fail("I5 circuit[i:]: slice differs from the model", lay, lay)
            sub = c[:, cq]
            if M.canon(it.read(sub, "circuit[:, qubits]")) != M.canon(M.restrict(lay, info, qs)):
                it.fail("I5 circuit[:, qubits]: differs from the model", lay, it.read(sub, "circuit[:, qubits]"))
        elif name == "moments":
            for j, (m, ids) in enumerate(zip(c.moments, lay)):
                mk = frozenset(cirq.MeasurementKey(k) for x in ids for k in info[x].mkeys)
                ck = frozenset(cirq.MeasurementKey(k) for x in ids for k in info[x].ckeys)
                fresh = cirq.Moment(m.operations)
                same("measurement_key_objs(moment)", cirq.measurement_key_objs(m), cirq.measurement_key_objs(fresh), mk)
                same("control_keys(moment)", cirq.control_keys(m), cirq.control_keys(fresh), ck)
                same("parameter_names(moment)", set(cirq.parameter_names(m)), set(cirq.parameter_names(fresh)),
                     {p for x in ids for p in info[x].params})
                same("moment.qubits", m.qubits, fresh.qubits, qset(M.moment_qubits(info, ids)))
                if m != fresh or hash(m) != hash(fresh):
                    it.fail("I5 moment == / hash: a moment of the live circuit differs from a fresh moment of its operations", lay, lay)
            for j in range(n):
                for x in lay[j][:2]:
                    got = c.earliest_available_moment(it.val[x], end_moment_index=j)
                    same("earliest_available_moment", got, rebuilt.earliest_available_moment(it.val[x], end_moment_index=j),
                         M.earliest_index(lay, info, x, j))
