"""A model Quantum Engine for C20 (written from the protocol description, shares no code with cirq_google).

Two layers:

* ``EngineModel`` - plain tables (programs, jobs) with the semantics of the three requests that travel over the
  ``QuantumRunStream`` RPC plus ``CancelQuantumJob``:

    CreateQuantumProgramAndJob(program, job)  program exists -> PROGRAM_ALREADY_EXISTS (or JOB_ALREADY_EXISTS when the job
                                              exists too and the server checks jobs first, ``job_first=True``)
                                              otherwise both are created and the job runs exactly once
    CreateQuantumJob(program, job)            program missing -> PROGRAM_DOES_NOT_EXIST; job exists -> JOB_ALREADY_EXISTS;
                                              otherwise the job is created and runs exactly once
    GetQuantumResult(job)                     job missing -> JOB_DOES_NOT_EXIST; otherwise the job's outcome

  A job's *outcome* is fixed when the harness registers the job name (``plan``): ``"ok"`` -> a result whose payload is
  unique to the job, ``"fail"`` -> the job itself in state FAILURE.  Replies are plain tuples
  ``("result", job_name, payload) | ("job", job_name) | ("error", CODE_NAME)``; nothing here imports cirq.

* ``FakeEngineClient`` - the asyncio facade with the two coroutines ``StreamManager`` calls on its gRPC client
  (``quantum_run_stream`` and ``cancel_quantum_job``).  It must live inside the event loop of
  ``AsyncioExecutor.instance()``.  It never answers on its own: every received request is parked in ``requests`` and the
  harness decides, one script action at a time, when the server *processes* a request (tables change), when the
  *response* travels back, when the stream *breaks* and whether a request that was received on a stream that died is
  still processed later ("orphan").  That makes the interleaving a pure function of the script.
"""
from __future__ import annotations

import asyncio
from typing import Any, Dict, List, Optional, Tuple

PROGRAM_ALREADY_EXISTS = "PROGRAM_ALREADY_EXISTS"
JOB_ALREADY_EXISTS = "JOB_ALREADY_EXISTS"
PROGRAM_DOES_NOT_EXIST = "PROGRAM_DOES_NOT_EXIST"
JOB_DOES_NOT_EXIST = "JOB_DOES_NOT_EXIST"
NATURAL_CODES = (PROGRAM_ALREADY_EXISTS, JOB_ALREADY_EXISTS, PROGRAM_DOES_NOT_EXIST, JOB_DOES_NOT_EXIST)
# codes a client cannot recover from (no retry is documented for them)
FATAL_CODES = ("CODE_UNSPECIFIED", "INTERNAL", "INVALID_ARGUMENT", "PERMISSION_DENIED", "PROCESSOR_DOES_NOT_EXIST",
               "INVALID_PROCESSOR_FOR_JOB")

CPJ, CJ, GR = "create_quantum_program_and_job", "create_quantum_job", "get_quantum_result"

Reply = Tuple[Any, ...]


class EngineModel:
    def __init__(self, job_first: bool = False):
        self.job_first = bool(job_first)
        self.programs: Dict[str, List[str]] = {}  # program name -> job names
        self.jobs: Dict[str, dict] = {}  # job name -> {"program", "outcome", "cancelled"}
        self.created: Dict[str, int] = {}  # job name -> number of successful creations (must stay <= 1)
        self.runs: Dict[str, int] = {}  # job name -> number of executions
        self.plans: Dict[str, Tuple[str, str]] = {}  # job name -> (outcome, payload)
        self.cancelled: List[str] = []

    # -- harness side
    def plan(self, job_name: str, outcome: str, payload: str) -> None:
        self.plans[job_name] = (outcome, payload)

    def preexisting_program(self, program_name: str) -> None:
        """A program created by somebody else (no jobs)."""
        self.programs.setdefault(program_name, [])

    def outcome(self, job_name: str) -> Reply:
        outcome, payload = self.plans.get(job_name, ("ok", "unplanned:" + job_name))
        if outcome == "fail":
            return ("job", job_name)
        return ("result", job_name, payload)

    # -- the three stream requests
    def _new_job(self, program_name: str, job_name: str) -> None:
        self.jobs[job_name] = {"program": program_name, "cancelled": False}
        self.programs[program_name].append(job_name)
        self.created[job_name] = self.created.get(job_name, 0) + 1
        self.runs[job_name] = self.runs.get(job_name, 0) + 1  # scheduled once per creation

    def create_program_and_job(self, program_name: str, job_name: str) -> Reply:
        if self.job_first and job_name in self.jobs:
            return ("error", JOB_ALREADY_EXISTS)
        if program_name in self.programs:
            return ("error", PROGRAM_ALREADY_EXISTS)
        self.programs[program_name] = []
        self._new_job(program_name, job_name)
        return self.outcome(job_name)

    def create_job(self, program_name: str, job_name: str) -> Reply:
        if program_name not in self.programs:
            return ("error", PROGRAM_DOES_NOT_EXIST)
        if job_name in self.jobs:
            return ("error", JOB_ALREADY_EXISTS)
        self._new_job(program_name, job_name)
        return self.outcome(job_name)

    def get_result(self, job_name: str) -> Reply:
        if job_name not in self.jobs:
            return ("error", JOB_DOES_NOT_EXIST)
        return self.outcome(job_name)

    def cancel_job(self, job_name: str) -> None:
        self.cancelled.append(job_name)
        if job_name in self.jobs:
            self.jobs[job_name]["cancelled"] = True

    def handle(self, kind: str, program_name: Optional[str], job_name: str) -> Reply:
        if kind == CPJ:
            return self.create_program_and_job(program_name, job_name)
        if kind == CJ:
            return self.create_job(program_name, job_name)
        if kind == GR:
            return self.get_result(job_name)
        raise ValueError(f"unknown request kind {kind!r}")


class RequestRecord:
    """One request as the server saw it (fields are *copies*: the client re-uses and mutates request objects)."""

    __slots__ = ("rid", "stream", "message_id", "kind", "project", "program", "job", "processed", "responded", "reply",
                 "_s")

    def __init__(self, rid, stream_obj, message_id, kind, project, program, job):
        self.rid, self.stream, self.message_id, self.kind = rid, stream_obj.no, message_id, kind
        self.project, self.program, self.job = project, program, job
        self.processed = False
        self.responded = False
        self.reply: Optional[Reply] = None
        self._s = stream_obj

    @property
    def dead(self) -> bool:
        """The stream the request arrived on is gone (broken or closed): no response can reach the client."""
        return not self._s.alive

    def __repr__(self):
        flags = ("P" if self.processed else "-") + ("R" if self.responded else "-") + ("D" if self.dead else "-")
        return f"<req#{self.rid} s{self.stream} id={self.message_id} {self.kind} job={self.job} {flags}>"


class _Stream:
    def __init__(self, no: int):
        self.no = no
        self.out: asyncio.Queue = asyncio.Queue()
        self.alive = True
        self.reader_done = False
        self.reader: Optional[asyncio.Task] = None


class _ResponseIterator:
    """What ``await client.quantum_run_stream(...)`` returns: an async iterator over responses (a plain class, not an
    async generator, so nothing is left for the garbage collector to finalise when the consumer is cancelled)."""

    def __init__(self, stream: _Stream):
        self._s = stream

    def __aiter__(self):
        return self

    async def __anext__(self):
        try:
            item = await self._s.out.get()
        except BaseException:
            self._s.alive = False
            raise
        if isinstance(item, BaseException):
            self._s.alive = False
            raise item
        return item


class FakeEngineClient:
    def __init__(self, model: EngineModel, quantum_module):
        self.model = model
        self.q = quantum_module
        self.streams: List[_Stream] = []
        self.requests: List[RequestRecord] = []
        self.cancel_calls: List[str] = []
        self.malformed: List[str] = []

    # ------------------------------------------------------------------ the gRPC surface used by StreamManager
    async def quantum_run_stream(self, requests, **kwargs):
        s = _Stream(len(self.streams))
        self.streams.append(s)
        s.reader = asyncio.get_running_loop().create_task(self._read(s, requests))
        return _ResponseIterator(s)

    async def _read(self, s: _Stream, requests) -> None:
        try:
            async for req in requests:
                self._record(s, req)
        finally:
            s.reader_done = True

    async def cancel_quantum_job(self, request) -> None:
        self.cancel_calls.append(str(request.name))
        self.model.cancel_job(str(request.name))
        await asyncio.sleep(0)

    # ------------------------------------------------------------------ bookkeeping
    def _record(self, s: _Stream, req) -> None:
        kind = program = job = None
        if CPJ in req:
            kind = CPJ
            program = str(req.create_quantum_program_and_job.quantum_program.name)
            job = str(req.create_quantum_program_and_job.quantum_job.name)
        elif CJ in req:
            kind = CJ
            program = str(req.create_quantum_job.parent)
            job = str(req.create_quantum_job.quantum_job.name)
        elif GR in req:
            kind = GR
            job = str(req.get_quantum_result.parent)
        else:
            self.malformed.append(f"request without a payload: {req!r}"[:200])
            return
        self.requests.append(RequestRecord(len(self.requests), s, str(req.message_id), kind, str(req.parent), program, job))

    def current_stream(self) -> Optional[_Stream]:
        for s in reversed(self.streams):
            if s.alive:
                return s
        return None

    def live_unresponded(self) -> List[RequestRecord]:
        return [r for r in self.requests if not r.dead and not r.responded]

    # ------------------------------------------------------------------ script actions (call inside the loop)
    def process(self, rec: RequestRecord) -> Reply:
        if not rec.processed:
            rec.reply = self.model.handle(rec.kind, rec.program, rec.job)
            rec.processed = True
        return rec.reply

    def to_response(self, rec: RequestRecord, reply: Reply):
        q = self.q
        if reply[0] == "result":
            from google.protobuf import any_pb2

            return q.QuantumRunStreamResponse(
                message_id=rec.message_id,
                result=q.QuantumResult(parent=reply[1], result=any_pb2.Any(type_url="vf/payload", value=reply[2].encode())))
        if reply[0] == "job":
            return q.QuantumRunStreamResponse(
                message_id=rec.message_id,
                job=q.QuantumJob(name=reply[1], execution_status=q.ExecutionStatus(
                    state=q.ExecutionStatus.State.FAILURE,
                    failure=q.ExecutionStatus.Failure(error_message="planned failure of " + reply[1]))))
        code = getattr(q.StreamError.Code, reply[1])
        return q.QuantumRunStreamResponse(message_id=rec.message_id, error=q.StreamError(code=code, message=f"{reply[1]} for {rec.job}"))

    def respond(self, rec: RequestRecord, reply: Optional[Reply] = None) -> None:
        """Send the reply of a processed request (or an injected one) down the stream the request arrived on."""
        s = self.streams[rec.stream]
        rec.responded = True
        s.out.put_nowait(self.to_response(rec, reply if reply is not None else rec.reply))

    def break_stream(self, exc: BaseException) -> bool:
        s = self.current_stream()
        if s is None:
            return False
        s.alive = False
        s.out.put_nowait(exc)
        return True
