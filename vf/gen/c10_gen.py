"""C10 generators: expression trees, resolver tables, symbolic gates / circuits, sweep trees.

All recipes are JSON-able; see vf/ref/c10_model.py for the grammar.
"""
from __future__ import annotations

import math

from hypothesis import strategies as st

from vf.gen import circuits as GC
from vf.gen import gates as G
from vf.ref import c10_model as M

SYMS = M.SYMS
NUMS = [0.5, 2.0, -1.0, 0.25, 3.0, -0.5, 1.5, 0.1, 1.0, 0.75, -2.0, 1e-3]
VALS = [0.0, 0.25, 0.5, 1.0, -0.5, 2.0, 1.5, -1.0, 1 / 3, 0.125, 3.0, 1e-9, 0.75, math.pi / 4]


def _sym(syms=SYMS):
    return st.sampled_from(syms).map(lambda s: ["s", s])


def _num():
    return st.one_of(
        st.sampled_from(NUMS).map(lambda x: ["n", x]),
        st.floats(-3, 3, allow_nan=False).map(lambda x: ["n", round(x, 4)]),
        st.sampled_from([-3, -2, -1, 1, 2, 3, 4, 1, 2, 0]).map(lambda k: ["i", k]),
        st.sampled_from([[1, 2], [1, 3], [-2, 3], [3, 4]]).map(lambda pq: ["q", pq[0], pq[1]]),
        st.just(["pi"]),
    )


def _num_nz():
    return _num().filter(lambda t: not (t[0] in ("n", "i") and t[1] == 0))


def _pow_exp(ch):
    return st.one_of(st.sampled_from([["i", 2], ["i", 2], ["i", 3], ["i", -1], ["n", 0.5], ["q", 1, 2], ["n", 2.0], ["i", -2], ["n", 1.5], ["i", 2], ["i", 3],
                                      ["i", 0]]),
                     ch, ch)


def _assign_symbols(tree, perm):
    """Symbol leaves are drawn as small ints j; leaf number i becomes perm[(i + j) % len(perm)], so that Hypothesis'
    habit of repeating a draw spreads over the symbols instead of producing a + a + a."""
    cnt = [0]

    def walk(t):
        if t[0] == "L":  # leaf: every 4th one (shifted by the drawn j) is a number, the others symbols
            i = cnt[0]
            cnt[0] += 1
            if (i + int(t[1])) % 4 == 3:
                return t[3]
            return ["s", perm[(i + int(t[2])) % len(perm)]]
        if t[0] == "s":
            if isinstance(t[1], str):
                return t
            name = perm[(cnt[0] + int(t[1])) % len(perm)]
            cnt[0] += 1
            return ["s", name]
        if t[0] in ("n", "i", "q", "pi"):
            return t
        if t[0] in ("+", "*"):
            return [t[0], [walk(c) for c in t[1]]]
        return [t[0]] + [walk(c) for c in t[1:]]

    return walk(tree)


@st.composite
def exprs(draw, max_leaves=6, funcs=False, syms=SYMS, depth=None):
    raw = draw(_exprs_raw(max_leaves, funcs, len(syms), depth))
    perm = list(draw(st.permutations(list(syms))))
    return _assign_symbols(raw, perm)


def _isym(n):
    return st.integers(0, max(0, n - 1)).map(lambda j: ["s", j])


@st.composite
def _exprs_raw(draw, max_leaves=6, funcs=False, nsyms=3, depth=None):
    """Depth-bounded tree; binary/n-ary nodes dominate so that trees are bushy (>= 2 symbols is the common case)."""
    syms = nsyms
    _sym = _isym
    if depth is None:
        depth = 1 if max_leaves <= 2 else (2 if max_leaves <= 4 else 3)
    if depth <= 0 or draw(st.integers(0, 9)) < (1 if depth >= 2 else 3):
        return ["L", draw(st.integers(0, 3)), draw(st.integers(0, max(0, syms - 1))), draw(_num())]
    ch = _exprs_raw(max_leaves, funcs, syms, depth - 1)
    leafish = _exprs_raw(max_leaves, funcs, syms, 0)
    k = draw(st.integers(0, 15 if funcs else 12))
    if k <= 1:
        return ["+", [draw(ch) for _ in range(draw(st.integers(2, 3)))]]
    if k <= 3:
        return ["*", [draw(ch) for _ in range(draw(st.integers(2, 3)))]]
    if k == 4:
        return ["*", [draw(_num()), draw(ch)]]
    if k == 5:
        return ["+", [draw(ch), draw(_num())]]
    if k == 6:
        return ["-", draw(ch), draw(ch)]
    if k == 7:
        return ["neg", draw(ch)]
    if k == 8:
        return ["/", draw(ch), draw(st.one_of(_num_nz(), _num_nz(), leafish, ch))]
    if k <= 10:
        return ["^", draw(ch), draw(_pow_exp(leafish))]
    if k == 11:
        return ["^", draw(st.sampled_from([["i", 2], ["n", 0.5], ["n", 2.0], ["i", 3]])), draw(ch)]
    if k == 12:
        return ["-", draw(ch), draw(leafish)]
    return [draw(st.sampled_from(["sin", "cos", "exp", "sin"])), draw(ch)]


def nontrivial_exprs(max_leaves=6, funcs=False, syms=SYMS):
    """Mostly composite expressions."""
    e = exprs(max_leaves, funcs, syms)
    return st.one_of(e, e.filter(lambda t: t[0] not in ("s", "n", "i", "q", "pi")))


def slot_exprs(max_leaves=5, syms=SYMS):
    """Expressions for gate slots: nearly always with at least one symbol (a bare sympy constant in a slot is a documented
    corner of the protocol, kept at a low rate)."""
    e = nontrivial_exprs(max_leaves, syms=syms)
    with_sym = e.filter(lambda t: bool(M.names_of(t)))
    return st.one_of(with_sym, with_sym, with_sym, with_sym, with_sym, with_sym, with_sym, e)


def real_values():
    return st.one_of(st.sampled_from(VALS), st.floats(0, 3, allow_nan=False).map(lambda x: round(x, 5)),
                     st.floats(-3, 3, allow_nan=False).map(lambda x: round(x, 5)))


def value_recipes(complex_ok=False, f32=True):
    opts = [
        real_values().map(lambda x: ["f", x]), real_values().map(lambda x: ["f", x]), real_values().map(lambda x: ["f", x]),
        st.integers(-3, 4).map(lambda n: ["int", n]),
        real_values().map(lambda x: ["np64", x]),
        st.integers(-3, 4).map(lambda n: ["npint", n]),
        real_values().map(lambda x: ["sf", x]),
        st.integers(-3, 4).map(lambda n: ["si", n]),
    ]
    if f32:
        opts.append(st.sampled_from([0.5, 0.25, 1.0, -1.5, 2.0, 0.125, 0.1]).map(lambda x: ["np32", x]))
    if complex_ok:
        cv = st.sampled_from([0.0, 1.0, -1.0, 0.5, 0.25, 2.0])
        opts += [st.tuples(cv, cv).map(lambda t: ["c", t[0], t[1]]), st.tuples(cv, cv).map(lambda t: ["npc", t[0], t[1]])]
    return st.one_of(*opts)


@st.composite
def resolver_tables(draw, names=SYMS, chains=True, cycle=False, complex_ok=False, f32=True, expr_leaves=4):
    """name -> value recipe covering every name; chains point only 'forward' in a drawn order (acyclic) unless
    ``cycle`` asks for one back edge."""
    order = list(draw(st.permutations(list(names))))
    vals = {}
    for i, n in enumerate(order):
        later = order[i + 1:]
        kind = draw(st.integers(0, 9)) if (chains and later) else 0
        if kind >= 8 and later:
            vals[n] = ["expr", draw(nontrivial_exprs(expr_leaves, syms=later))]
        elif kind == 7 and later:
            vals[n] = ["str", draw(st.sampled_from(later))]
        elif kind == 6 and later:
            vals[n] = ["expr", ["s", draw(st.sampled_from(later))]]
        else:
            vals[n] = draw(value_recipes(complex_ok, f32))
    if cycle and len(order) >= 2:
        back = draw(st.sampled_from(order[:-1]))
        last = order[-1]
        vals[last] = ["expr", draw(st.sampled_from([["+", [["s", back], ["i", 1]]], ["*", [["n", 2.0], ["s", back]]]]))]
        first = order[0]
        if vals[first][0] not in ("expr", "str"):
            vals[first] = ["expr", ["+", [["s", order[1]], ["n", 0.5]]]]
    # present in a drawn order (dict order is part of the recipe)
    pres = list(draw(st.permutations(list(names))))
    return {n: vals[n] for n in pres}


def numeric_tables(names=SYMS, complex_ok=False, f32=False):
    return st.fixed_dictionaries({n: value_recipes(complex_ok, f32) for n in names})


# ----------------------------------------------------------------------------------------- symbolic gates

EIGEN = ["XPow", "YPow", "ZPow", "HPow", "CZPow", "CXPow", "CYPow", "SwapPow", "ISwapPow", "XXPow", "YYPow", "ZZPow",
         "CCZPow", "CCXPow", "CCYPow"]
# family -> parameter keys that accept a sympy expression (probed on the tree; see uncovered() in the check)
SLOTS = {n: ["e"] for n in EIGEN}
SLOTS.update({
    "Rx": ["r"], "Ry": ["r"], "Rz": ["r"], "PhasedXPow": ["p", "e"], "PhasedXZ": ["x", "z", "a"],
    "PhasedISwapPow": ["p", "e"], "FSim": ["theta", "phi"], "PhasedFSim": ["theta", "zeta", "chi", "gamma", "phi"],
    "MS": ["r"], "PhaseGradient": ["e"], "PauliInteraction": ["e"], "PauliStringPhasor": ["neg", "pos"],
    "Diagonal": ["angles"], "TwoQubitDiagonal": ["angles"], "ThreeQubitDiagonal": ["angles"],
    "GlobalPhase": ["coef"], "Wait": ["ns"], "RandomGate": ["p"], "DensePauli": ["coef"],
})
LIST_SLOTS = {"Diagonal", "TwoQubitDiagonal", "ThreeQubitDiagonal"}
WEIGHT = {"XPow": 2, "ZPow": 2, "CZPow": 2, "PhasedXPow": 3, "PhasedXZ": 3, "FSim": 2, "PhasedFSim": 2, "PhasedISwapPow": 2,
          "Rx": 2, "Rz": 2}


def sym_families(unitary_only=True, max_arity=3):
    G._lazy()
    out = []
    for n in SLOTS:
        if unitary_only and n in ("RandomGate",):
            continue
        out += [n] * WEIGHT.get(n, 1)
    return out


@st.composite
def sym_gate(draw, families=None, max_arity=3, leaves=5, p_sym=1.0, syms=SYMS):
    """{"g": [family, params], "slots": {key: tree | {index: tree}}}; numeric params stay for non-symbolic keys."""
    G._lazy()
    fams = families or sym_families()
    for _ in range(20):
        name = draw(st.sampled_from(fams))
        params = dict(draw(G.FAMILIES[name].params))
        if G.arity([name, params]) <= max_arity:
            break
    slots = {}
    keys = SLOTS[name]
    if name == "RandomGate":
        x = draw(st.sampled_from(syms))
        slots["p"] = draw(st.sampled_from([["s", x], ["-", ["i", 1], ["s", x]], ["*", [["n", 0.5], ["s", x]]]]))
    elif name in ("DensePauli", "GlobalPhase"):
        # complex coefficient slot: a symbol or a product of symbols whose values the case builder makes unit-modulus
        if draw(st.integers(0, 9)) < 10 * p_sym:
            x, y = list(draw(st.permutations(list(syms))))[:2] if len(syms) >= 2 else (syms[0], syms[0])
            slots["coef"] = draw(st.sampled_from([["s", x], ["s", x], ["*", [["s", x], ["s", y]]], ["neg", ["s", x]]]))
    elif name in LIST_SLOTS:
        n = len(params["angles"])
        idx = draw(st.lists(st.integers(0, n - 1), min_size=1 if p_sym >= 1 else 0, max_size=min(n, 3), unique=True))
        if idx:
            slots["angles"] = {str(i): draw(slot_exprs(leaves, syms=syms)) for i in sorted(idx)}
    else:
        chosen = [k for k in keys if draw(st.integers(0, 9)) < 7]
        if not chosen and draw(st.integers(0, 99)) < 100 * p_sym:
            chosen = [draw(st.sampled_from(keys))]
        for k in chosen:
            slots[k] = draw(slot_exprs(leaves, syms=syms))
    return {"g": [name, params], "slots": slots}


def build_gate(case, mode, lookup=None):
    """mode 'sym': sympy expressions in the symbolic slots; mode 'num': values from the reference evaluator."""
    import cirq
    import numpy as np
    import sympy

    G._lazy()
    name, params = case["g"]
    p = dict(params)
    slots = case.get("slots", {})

    def val(tree):
        return M.to_sympy(tree) if mode == "sym" else M.ev(tree, lookup)

    if name == "GlobalPhase":
        if "coef" in slots:
            return cirq.GlobalPhaseGate(val(slots["coef"]))
        return G.build_gate([name, p])
    if name == "Wait":
        if "ns" in slots:
            t = val(slots["ns"])
            if mode == "num" and (isinstance(t, complex) or t < 0):
                raise M.OutOfDomain("complex or negative duration")
            return cirq.WaitGate(cirq.Duration(nanos=t))
        return G.build_gate([name, p])
    if name == "DensePauli":
        if "coef" in slots:
            c = val(slots["coef"])
            return cirq.DensePauliString("".join(p["ps"]), coefficient=c)
        return G.build_gate([name, p])
    for k, tree in slots.items():
        if isinstance(tree, dict):
            lst = list(p[k])
            for i, tr in tree.items():
                if int(i) < len(lst):
                    lst[int(i)] = val(tr)
            p[k] = lst
        else:
            p[k] = val(tree)
    if mode == "num":
        for k in slots:
            vs = p[k] if isinstance(p[k], list) else [p[k]]
            if any(isinstance(v, complex) for v in vs):
                raise M.OutOfDomain("complex gate parameter")
    return G.FAMILIES[name].build(p)


def case_trees(case):
    out = []
    for tree in case.get("slots", {}).values():
        out += list(tree.values()) if isinstance(tree, dict) else [tree]
    return out


def unit_complex_values(draw, case, vals):
    """For complex-coefficient families: give every symbol of the coefficient a unit-modulus complex value."""
    import cmath

    if case["g"][0] in ("DensePauli", "GlobalPhase") and "coef" in case.get("slots", {}):
        for n in sorted(M.names_of(case["slots"]["coef"])):
            t = draw(st.sampled_from([0.0, 0.25, 0.5, 0.75, 0.125, 1 / 3, 0.1, 0.9]))
            z = cmath.exp(2j * math.pi * t)
            vals[n] = ["c", z.real, z.imag]
    return vals


def case_names(case) -> set:
    out = set()
    for t in case_trees(case):
        out |= M.names_of(t)
    return out


# ----------------------------------------------------------------------------------------- symbolic circuits


@st.composite
def sym_circuits(draw, max_w=3, max_ops=6, p_sym=0.6, leaves=4, measure=False, min_ops=1, p_cop=0.12):
    """GC circuit recipe whose ops additionally carry "slots" (see sym_gate); "cop": wrap the op in a CircuitOperation;
    with ``measure``: {"m": key} pseudo-ops = measurement of wire w[0] (unique keys)."""
    G._lazy()
    r = draw(GC.wires(1, max_w, False))
    n = len(r["dims"])
    nops = draw(st.integers(min_ops, max_ops))
    ops = []
    for _ in range(nops):
        symbolic = draw(st.integers(0, 99)) < 100 * p_sym
        if symbolic:
            case = draw(sym_gate(max_arity=n, leaves=leaves, families=[f for f in sym_families() if f not in ("Wait", "DensePauli", "GlobalPhase")]))
        else:
            g = draw(G.gate_recipes(lambda f: f.unitary and not f.qudit and f.name not in ("Matrix3",), max_arity=n))
            case = {"g": g, "slots": {}}
        k = G.arity(case["g"])
        w = list(draw(st.permutations(list(range(n)))))[:k]
        case["w"] = w
        case["ins"] = draw(st.sampled_from([0, 0, 0, 1, 2, 3]))
        case["tag"] = draw(st.integers(0, 5)) == 0
        case["cop"] = k >= 1 and p_cop > 0 and draw(st.integers(0, 999)) >= 1000 * (1 - p_cop)
        ops.append(case)
        if measure and draw(st.integers(0, 5)) == 0 and sum(1 for o in ops if "m" in o) < 2:
            ops.append({"m": f"m{len(ops)}", "w": [draw(st.integers(0, n - 1))], "ins": draw(st.sampled_from([0, 0, 1]))})
    r["ops"] = ops
    r["empties"] = draw(st.lists(st.integers(0, nops), max_size=1))
    return r


def build_sym_circuit(r, mode, lookup=None):
    import cirq

    qs = GC.qubits_of(r)
    c = cirq.Circuit()
    empties = sorted(r.get("empties", []))
    for i, o in enumerate(r["ops"]):
        for e in empties:
            if e == i:
                c.append(cirq.Moment())
        if "m" in o:
            op = cirq.measure(qs[o["w"][0] % len(qs)], key=o["m"])
        else:
            g = build_gate(o, mode, lookup)
            op = g.on(*[qs[j] for j in o["w"]])
            if o.get("tag"):
                op = op.with_tags("vf_tag")
            if o.get("cop"):
                op = cirq.CircuitOperation(cirq.FrozenCircuit(op))
        c.append(op, strategy=getattr(cirq.InsertStrategy, GC.INS[o.get("ins", 0)]))
    for e in empties:
        if e >= len(r["ops"]):
            c.append(cirq.Moment())
    return c, qs


def circuit_names(r) -> set:
    out = set()
    for o in r["ops"]:
        if "m" not in o:
            out |= case_names(o)
    return out


def circuit_trees(r):
    out = []
    for o in r["ops"]:
        if "m" not in o:
            out += case_trees(o)
    return out


# ----------------------------------------------------------------------------------------- sweeps

KEYS = ["a", "b", "c", "d"]


def _vals(n_min=0, n_max=4):
    v = st.one_of(st.sampled_from([0.0, 0.5, 1.0, -1.0, 0.25, 2.0, 1.5]), st.integers(-2, 3),
                  st.floats(-2, 2, allow_nan=False).map(lambda x: round(x, 3)))
    sizes = [k for k in [0, 1, 1, 2, 2, 2, 3, 3, 4] if n_min <= k <= n_max] or [n_min]
    return st.sampled_from(sizes).flatmap(lambda k: st.lists(v, min_size=k, max_size=k))


@st.composite
def _leaf(draw, keys, n_min=0):
    if len(keys) == 0:
        k = draw(st.integers(0, 3))
        if k == 0:
            return ["unit"]
        if k == 1:
            return ["list", [{} for _ in range(draw(st.integers(max(n_min, 0), 3)))]]
        if k == 2:
            return ["product", []]
        return ["unit"] if n_min > 0 else ["zip", []]
    if len(keys) == 1:
        k = draw(st.integers(0, 5))
        key = keys[0]
        if k <= 1:
            return ["points", key, draw(_vals(n_min, 4))]
        if k == 2:
            ln = draw(st.sampled_from([0, 1, 1, 2, 3, 4, 5]))
            ln = max(ln, n_min)
            a = draw(st.sampled_from([0.0, 0.5, -1.0, 1.0, 0.1]))
            b = draw(st.sampled_from([1.0, 2.0, 0.0, -0.5, 0.7]))
            return ["linspace", key, a, b, ln]
        if k == 3:
            return ["list", [{key: v} for v in draw(_vals(max(n_min, 1), 3))]]
        if k == 4:
            return ["d2p", {key: draw(st.one_of(_vals(max(n_min, 0), 3), st.sampled_from([0.5, 1.0, 2])))}]
        return ["d2z", {key: draw(st.one_of(_vals(max(n_min, 0), 3), st.sampled_from([0.5, 1.0, 2])))}]
    k = draw(st.integers(0, 2))
    if k == 0:
        n = draw(st.sampled_from([x for x in [1, 1, 2, 2, 3] if x >= n_min]))
        return ["list", [{kk: draw(st.sampled_from([0.0, 0.5, 1.0, 2, -1.5, 0.25])) for kk in keys} for _ in range(n)]]
    if k == 1:
        return ["d2p", {kk: draw(st.one_of(_vals(max(n_min, 0), 2), st.sampled_from([0.5, 1.0, 2]))) for kk in keys}]
    return ["d2z", {kk: draw(st.one_of(_vals(max(n_min, 0), 3), st.sampled_from([0.5, 1.0, 2]))) for kk in keys}]


@st.composite
def sweep_trees(draw, keys=None, depth=3, n_min=0):
    """A sweep whose ``keys`` are exactly ``keys`` in that order."""
    if keys is None:
        nk = draw(st.sampled_from([0, 1, 1, 2, 2, 2, 3, 3, 4]))
        keys = list(draw(st.permutations(KEYS)))[:nk]
        n_min = draw(st.sampled_from([0, 1, 1, 1]))
        depth = draw(st.sampled_from([1, 2, 2, 3]))
    if depth <= 0 or draw(st.integers(0, 9)) < 3:
        return draw(_leaf(keys, n_min))
    kind = draw(st.sampled_from(["zip", "ziplongest", "product", "concat", "concat", "mul", "add", "product", "zip"]))
    if kind == "concat":
        n = draw(st.integers(1, 3))
        return ["concat", [draw(sweep_trees(keys, depth - 1, n_min)) for _ in range(n)]]
    if kind in ("mul", "add"):
        n = draw(st.integers(2, 3))
    else:
        n = draw(st.sampled_from([0, 1, 2, 2, 2, 3])) if len(keys) == 0 else draw(st.integers(1, 3))
    if n == 0:
        return [kind, []]
    # split the ordered key list into n contiguous (possibly empty) segments
    cuts = sorted(draw(st.lists(st.integers(0, len(keys)), min_size=n - 1, max_size=n - 1)))
    segs = [keys[i:j] for i, j in zip([0] + cuts, cuts + [len(keys)])]
    nm = max(n_min, 1) if kind == "ziplongest" and draw(st.integers(0, 9)) > 0 else n_min
    return [kind, [draw(sweep_trees(s, depth - 1, nm)) for s in segs]]


@st.composite
def bad_sweep_trees(draw):
    """Definitions the docstrings/contract reject with ValueError."""
    k = draw(st.integers(0, 2))
    if k == 0:  # duplicate keys in zip/product
        kind = draw(st.sampled_from(["zip", "product", "ziplongest", "mul", "add"]))
        a = draw(sweep_trees(["a", "b"], 1, 1))
        b = draw(sweep_trees([draw(st.sampled_from(["a", "b"]))], 1, 1))
        return [kind, [a, b] if draw(st.booleans()) else [b, a]]
    if k == 1:  # concat with different descriptors
        return ["concat", [draw(sweep_trees(["a", "b"], 1)), draw(sweep_trees(draw(st.sampled_from([["b", "a"], ["a"], ["a", "c"], []])), 1))]]
    return ["ziplongest", [draw(sweep_trees(["a"], 1, 1)), draw(st.sampled_from([["points", "b", []], ["linspace", "b", 0.0, 1.0, 0], ["list", []]]))]]
