"""Recipes + builders for every JSON-serialisable Cirq value (C11).

A recipe is plain JSON data.  Every non-primitive value is a dict ``{"T": kind, ...}``; lists are built
element-wise; ``build(recipe)`` returns the Cirq / python object.  ``ROOTS`` maps each *registered cirq_type
name* (keys of the five resolver caches) to the recipe kinds that produce it at the root, so coverage is
driven by the caches themselves (``registered()``, ``uncovered()``).
"""
from __future__ import annotations

import datetime
import math
from typing import Any, Callable, Dict, List

import hypothesis
from hypothesis import strategies as st

from . import gates as G

BUILD: Dict[str, Callable[[dict], Any]] = {}
STRAT: Dict[str, Callable[[], Any]] = {}  # kind -> thunk returning a strategy of recipes of that kind
ROOTS: Dict[str, List[str]] = {}  # registered cirq_type name -> kinds producing it at the root
LEGACY: Dict[str, str] = {}  # registered name -> kind producing {"T":kind,...} built as ("doc", text, expected)


class OutOfDomain(Exception):
    """The recipe builds a value outside the documented domain (check turns it into a Reject)."""


def reg(kind, strat, emits=()):
    """Decorator: register builder ``kind`` with strategy thunk ``strat``; ``emits`` = registered names."""

    def deco(fn):
        BUILD[kind] = fn
        STRAT[kind] = strat
        for n in emits:
            ROOTS.setdefault(n, []).append(kind)
        return fn

    return deco


def B(r):
    if isinstance(r, dict):
        return BUILD[r["T"]](r)
    if isinstance(r, list):
        return [B(v) for v in r]
    return r


build = B


_SCACHE: Dict[str, Any] = {}


def S(kind):
    """(memoised) strategy of recipes of ``kind``."""
    if kind not in _SCACHE:
        _SCACHE[kind] = st.deferred(lambda: STRAT[kind]())
    return _SCACHE[kind]


def _cirq():
    import cirq

    return cirq


def _k(r):  # canonical text of a recipe (for unique_by)
    import json

    return json.dumps(r, sort_keys=True)


# ------------------------------------------------------------------------------------------------ primitives

NAMES = ["a", "b", "q0", "q1", "q10", "q01", "q2", "m", "x y", "ü", "0", "", "q_1", "Q", "q'", "a1b2", "a01b2"]
KEYS = ["a", "b", "m0", "k_1", "x,y", "0", "z z", "é", "q(0)"]
PATHS = ["0", "1", "r", "outer", "x_1", "a,b"]
SYMS = ["a", "b", "theta", "x_0", "m0"]


def ints(lo=-3, hi=9):
    return st.integers(lo, hi)


def pfloat():
    """floats away from 'nice' defaults, incl. tiny / huge / negative zero (all JSON-exact)."""
    return st.one_of(G.exponents(), st.sampled_from([1e-300, 1.5e300, -0.0, 0.1, 1 / 3, 2.0 ** -40, 123456789.125]),
                     st.floats(-1e6, 1e6, allow_nan=False, allow_infinity=False))


@reg("np", lambda: st.one_of(
    st.fixed_dictionaries({"T": st.just("np"), "k": st.sampled_from(["float64", "float32", "float16"]), "v": G.exponents()}),
    st.fixed_dictionaries({"T": st.just("np"), "k": st.sampled_from(["int64", "int32", "int8", "uint8"]), "v": st.integers(0, 5)})))
def _b_np(r):
    import numpy as np

    return getattr(np, r["k"])(r["v"])


@reg("cx", lambda: st.fixed_dictionaries({"T": st.just("cx"), "re": pfloat(), "im": pfloat()}), emits=["complex"])
def _b_cx(r):
    return complex(r["re"], r["im"])


def unit_complex():
    return st.one_of(st.sampled_from([0, 1, 2, 3]).map(lambda k: {"T": "ucx", "turns": k / 4}),
                     G.exponents().map(lambda t: {"T": "ucx", "turns": t}))


@reg("ucx", unit_complex)
def _b_ucx(r):
    k = r["turns"] * 4
    if k == int(k):
        return [1, 1j, -1, -1j][int(k) % 4]
    return complex(math.cos(2 * math.pi * r["turns"]), math.sin(2 * math.pi * r["turns"]))


# ------------------------------------------------------------------------------------------------ sympy


def _sleaf():
    return st.one_of(
        st.sampled_from(SYMS).map(lambda n: {"T": "S", "op": "sym", "n": n}),
        st.integers(-4, 7).filter(lambda v: v != 0).map(lambda v: {"T": "S", "op": "int", "v": v}),
        st.sampled_from([0.5, 2.5, -1.25, 0.1, 3.0, 1e-3]).map(lambda v: {"T": "S", "op": "float", "v": v}),
        st.tuples(st.integers(-5, 5).filter(lambda v: v != 0), st.integers(2, 7)).map(lambda pq: {"T": "S", "op": "rat", "p": pq[0], "q": pq[1]}),
        st.sampled_from(["pi", "E", "EulerGamma"]).map(lambda c: {"T": "S", "op": c}),
    )


def _ssym():
    return st.sampled_from(SYMS).map(lambda n: {"T": "S", "op": "sym", "n": n})


def sexpr(depth=2):
    """numeric sympy expression containing at least one symbol."""
    if depth <= 0:
        return _ssym()
    sub = st.one_of(_sleaf(), st.deferred(lambda: sexpr(depth - 1)))
    return st.one_of(
        _ssym(),
        st.tuples(st.sampled_from(["add", "mul"]), st.deferred(lambda: sexpr(depth - 1)), st.lists(sub, min_size=1, max_size=2)).map(
            lambda t: {"T": "S", "op": t[0], "a": [t[1]] + t[2]}),
        st.tuples(st.deferred(lambda: sexpr(depth - 1)), st.one_of(st.sampled_from([-2, -1, 2, 3]), st.just(0.5)).map(
            lambda v: {"T": "S", "op": "int" if isinstance(v, int) else "float", "v": v})).map(
            lambda t: {"T": "S", "op": "pow", "a": [t[0], t[1]]}),
    )


def sbool(depth=2):
    """boolean sympy expression over symbols (conditions)."""
    cmp_ = st.tuples(st.sampled_from(["gt", "ge", "lt", "le", "eq", "ne"]), sexpr(1), st.one_of(_sleaf(), sexpr(1))).map(
        lambda t: {"T": "S", "op": t[0], "a": [t[1], t[2]]})
    idx = st.tuples(st.sampled_from(["gt", "eq", "ne"]), st.sampled_from(SYMS), st.integers(0, 2), st.integers(0, 2)).map(
        lambda t: {"T": "S", "op": t[0], "a": [{"T": "S", "op": "indexed", "n": t[1], "i": t[2]}, {"T": "S", "op": "int", "v": t[3]}]})
    if depth <= 0:
        return st.one_of(cmp_, idx)
    sub = st.deferred(lambda: sbool(depth - 1))
    return st.one_of(
        cmp_, idx,
        st.tuples(st.sampled_from(["and", "or", "xor"]), st.lists(sub, min_size=2, max_size=3)).map(
            lambda t: {"T": "S", "op": t[0], "a": t[1]}),
        sub.map(lambda s: {"T": "S", "op": "not", "a": [s]}),
    )


@reg("S", lambda: st.one_of(sexpr(2), sbool(1), _sleaf()),
     emits=["sympy.Symbol", "sympy.Add", "sympy.Mul", "sympy.Pow", "sympy.Integer", "sympy.Float", "sympy.Rational",
            "sympy.pi", "sympy.E", "sympy.EulerGamma", "sympy.GreaterThan", "sympy.StrictGreaterThan", "sympy.LessThan",
            "sympy.StrictLessThan", "sympy.Equality", "sympy.Unequality", "sympy.And", "sympy.Or", "sympy.Not", "sympy.Xor",
            "sympy.Indexed", "sympy.IndexedBase"])
def _b_S(r):
    import sympy

    op = r["op"]
    if op == "sym":
        return sympy.Symbol(r["n"])
    if op == "int":
        return sympy.Integer(r["v"])
    if op == "float":
        return sympy.Float(r["v"])
    if op == "rat":
        return sympy.Rational(r["p"], r["q"] or 1)
    if op in ("pi", "E", "EulerGamma"):
        return getattr(sympy, op)
    if op == "indexed":
        return sympy.IndexedBase(r["n"])[r["i"]]
    a = [B(x) for x in r["a"]]
    f = {"add": sympy.Add, "mul": sympy.Mul, "pow": sympy.Pow, "gt": sympy.StrictGreaterThan, "ge": sympy.GreaterThan,
         "lt": sympy.StrictLessThan, "le": sympy.LessThan, "eq": sympy.Equality, "ne": sympy.Unequality,
         "and": sympy.And, "or": sympy.Or, "xor": sympy.Xor, "not": sympy.Not}[op]
    e = f(*a)
    if op in ("add", "mul", "pow") and not e.free_symbols:
        raise OutOfDomain("symbolic expression collapsed to a number")
    for node in sympy.preorder_traversal(e):
        if not isinstance(node, SYMPY_OK()):
            raise OutOfDomain(f"sympy node {type(node).__name__} is outside the encoder's documented list")
    return e


def SYMPY_OK():
    import sympy

    return (sympy.Symbol, sympy.Add, sympy.Mul, sympy.Pow, sympy.GreaterThan, sympy.StrictGreaterThan, sympy.LessThan,
            sympy.StrictLessThan, sympy.Equality, sympy.Unequality, sympy.And, sympy.Or, sympy.Not, sympy.Xor, sympy.Indexed,
            sympy.IndexedBase, sympy.Integer, sympy.Float, sympy.Rational, type(sympy.pi), type(sympy.E), type(sympy.EulerGamma))


def tparam(sym=True):
    """TParamVal: float / int / numpy scalar / sympy expression."""
    opts = [G.exponents(), G.exponents(), st.integers(-3, 4),
            S("np").filter(lambda r: r["k"] in ("float64", "int64", "int32"))]  # float32 arithmetic is documented dtype widening
    if sym:
        opts += [sexpr(2), _ssym()]
    return st.one_of(*opts)


def is_symbolic(r):
    return isinstance(r, dict) and r.get("T") == "S"


# ------------------------------------------------------------------------------------------------ qids

QID_KINDS = ["LineQubit", "GridQubit", "NamedQubit", "LineQid", "GridQid", "NamedQid"]
JSON_QID_EXTRA = ["NoIdQ", "AsQid", "ThreeDQubit", "TwoDQubit"]
ORDER_ONLY = ["CleanQubit", "BorrowableQubit"]


def qid(dim=None, kinds=None):
    """A qid recipe; ``dim`` fixes the dimension (2 => qubit classes, else *Qid classes)."""
    coords = st.integers(-2, 12)

    def mk(k, d):
        if k == "line":
            return coords.map(lambda x: {"T": "LineQubit", "x": x} if d == 2 else {"T": "LineQid", "x": x, "d": d})
        if k == "grid":
            return st.tuples(coords, coords).map(
                lambda rc: {"T": "GridQubit", "r": rc[0], "c": rc[1]} if d == 2 else {"T": "GridQid", "r": rc[0], "c": rc[1], "d": d})
        if k == "named":
            return st.sampled_from(NAMES).map(lambda n: {"T": "NamedQubit", "n": n} if d == 2 else {"T": "NamedQid", "n": n, "d": d})
        if k == "qid2":  # explicit Qid classes at dimension 2 (equal to, but not the same type as, the qubit classes)
            return st.one_of(coords.map(lambda x: {"T": "LineQid", "x": x, "d": 2}),
                             st.tuples(coords, coords).map(lambda rc: {"T": "GridQid", "r": rc[0], "c": rc[1], "d": 2}),
                             st.sampled_from(NAMES).map(lambda n: {"T": "NamedQid", "n": n, "d": 2}))
        if k == "pasqal":
            return st.one_of(
                st.tuples(coords, coords, G.small_floats()).map(lambda t: {"T": "ThreeDQubit", "x": t[0], "y": t[1], "z": t[2], "d": d}),
                st.tuples(coords, G.small_floats()).map(lambda t: {"T": "TwoDQubit", "x": t[0], "y": t[1], "d": d}))
        raise KeyError(k)

    ks = kinds or ["line", "line", "grid", "grid", "named", "named", "pasqal"]
    dd = st.just(dim) if dim is not None else st.sampled_from([2, 2, 2, 3, 4])
    return dd.flatmap(lambda d: st.sampled_from(ks + (["qid2"] if d == 2 and kinds is None else [])).flatmap(lambda k: mk(k, d)))


def qid_key(r):
    """Two recipes with the same key may build equal qids -> registers are unique by this key."""
    t = r["T"]
    if t in ("LineQubit", "LineQid"):
        return ("line", r["x"])
    if t in ("GridQubit", "GridQid"):
        return ("grid", r["r"], r["c"])
    if t in ("NamedQubit", "NamedQid"):
        return ("named", r["n"])
    return (t,) + tuple(sorted((k, str(v + 0.0) if isinstance(v, (int, float)) else str(v)) for k, v in r.items() if k not in ("T", "d")))  # -0.0 == 0.0


def qid_dim(r):
    t = r["T"]
    if t in ("LineQubit", "GridQubit", "NamedQubit"):
        return 2
    return r.get("d", 2)


def qreg(dims):
    """list of distinct qid recipes with the given dimensions."""
    dims = list(dims)
    if not dims:
        return st.just([])

    @st.composite
    def go(draw):
        out, seen = [], set()
        for d in dims:
            for _ in range(20):
                q = draw(qid(d))
                if qid_key(q) not in seen:
                    break
            else:
                q = {"T": "LineQubit", "x": 100 + len(out)} if d == 2 else {"T": "LineQid", "x": 100 + len(out), "d": d}
            seen.add(qid_key(q))
            out.append(q)
        return out

    return go()


def qubits(n_min=1, n_max=4, kinds=None):
    return st.integers(n_min, n_max).flatmap(lambda n: st.lists(qid(2, kinds), min_size=n, max_size=n, unique_by=qid_key))


def grid_qubits(n_min=1, n_max=4):
    return qubits(n_min, n_max, kinds=["grid"])


reg("LineQubit", lambda: qid(2, ["line"]), emits=["LineQubit"])(lambda r: _cirq().LineQubit(r["x"]))
reg("GridQubit", lambda: qid(2, ["grid"]), emits=["GridQubit"])(lambda r: _cirq().GridQubit(r["r"], r["c"]))
reg("NamedQubit", lambda: qid(2, ["named"]), emits=["NamedQubit"])(lambda r: _cirq().NamedQubit(r["n"]))
reg("LineQid", lambda: st.sampled_from([1, 2, 3, 5]).flatmap(lambda d: qid(d, ["line"] if d != 2 else ["qid2"])).filter(lambda r: r["T"] == "LineQid"),
    emits=["LineQid"])(lambda r: _cirq().LineQid(r["x"], dimension=r["d"]))
reg("GridQid", lambda: st.sampled_from([1, 2, 3, 5]).flatmap(lambda d: qid(d, ["grid"] if d != 2 else ["qid2"])).filter(lambda r: r["T"] == "GridQid"),
    emits=["GridQid"])(lambda r: _cirq().GridQid(r["r"], r["c"], dimension=r["d"]))
reg("NamedQid", lambda: st.sampled_from([1, 2, 3, 5]).flatmap(lambda d: qid(d, ["named"] if d != 2 else ["qid2"])).filter(lambda r: r["T"] == "NamedQid"),
    emits=["NamedQid"])(lambda r: _cirq().NamedQid(r["n"], dimension=r["d"]))


@reg("ThreeDQubit", lambda: st.sampled_from([2, 2, 3]).flatmap(lambda d: qid(d, ["pasqal"])).filter(lambda r: r["T"] == "ThreeDQubit"),
     emits=["ThreeDQubit", "_QubitAsQid"])
def _b_3d(r):
    import cirq_pasqal

    return cirq_pasqal.ThreeDQubit(r["x"], r["y"], r["z"]).with_dimension(r.get("d", 2))


@reg("TwoDQubit", lambda: st.sampled_from([2, 2, 3]).flatmap(lambda d: qid(d, ["pasqal"])).filter(lambda r: r["T"] == "TwoDQubit"),
     emits=["TwoDQubit", "_QubitAsQid"])
def _b_2d(r):
    import cirq_pasqal

    return cirq_pasqal.TwoDQubit(r["x"], r["y"]).with_dimension(r.get("d", 2))


@reg("NoIdQ", lambda: st.sampled_from([2, 2, 3, 4]).map(lambda d: {"T": "NoIdQ", "d": d}), emits=["NoIdentifierQubit", "_QubitAsQid"])
def _b_noid(r):
    return _cirq().testing.NoIdentifierQubit().with_dimension(r.get("d", 2))


@reg("CleanQubit", lambda: st.fixed_dictionaries({"T": st.sampled_from(ORDER_ONLY), "id": st.integers(0, 5), "d": st.sampled_from([2, 2, 3]),
                                                  "p": st.sampled_from(["", "", "anc", "b"])}))
def _b_clean(r):
    import cirq

    return getattr(cirq.ops, r["T"])(r["id"], r.get("d", 2), r.get("p", ""))


BUILD["BorrowableQubit"] = _b_clean
STRAT["BorrowableQubit"] = STRAT["CleanQubit"]


def coupler(kinds=None):
    """cirq_google.Coupler over two distinct qubits of any class (named ones make its cached hash seed-dependent)."""
    return st.one_of(qubits(2, 2, kinds), qubits(2, 2, ["named"]), qubits(2, 2, ["named", "grid"]),
                     st.lists(qid(None, ["named", "line", "grid"]), min_size=2, max_size=2, unique_by=qid_key)).map(lambda qs: {"T": "Coupler", "q": qs})


@reg("Coupler", coupler, emits=["Coupler"])
def _b_coupler(r):
    import cirq_google

    return cirq_google.Coupler(B(r["q"][0]), B(r["q"][1]))


# ------------------------------------------------------------------------------------------------ keys / conditions


def mkey(path=None):
    p = st.lists(st.sampled_from(PATHS), max_size=2) if path is None else st.just(path)
    return st.fixed_dictionaries({"T": st.just("mkey"), "n": st.sampled_from(KEYS), "p": p})


@reg("mkey", mkey, emits=["MeasurementKey"])
def _b_mkey(r):
    return _cirq().MeasurementKey(r["n"], tuple(r.get("p", [])))


def key_like():
    """what gates accept as key: str or MeasurementKey."""
    return st.one_of(st.sampled_from(KEYS), mkey())


def condition():
    return st.one_of(S("KeyCondition"), S("BitMaskKeyCondition"), S("SympyCondition"))


@reg("KeyCondition", lambda: st.fixed_dictionaries({"T": st.just("KeyCondition"), "k": mkey(), "i": st.sampled_from([-1, -1, 0, 1, -2])}),
     emits=["KeyCondition"])
def _b_keycond(r):
    return _cirq().KeyCondition(B(r["k"]), r["i"])


@reg("BitMaskKeyCondition", lambda: st.fixed_dictionaries({
    "T": st.just("BitMaskKeyCondition"), "k": st.one_of(mkey(), st.sampled_from(KEYS)), "i": st.sampled_from([-1, -1, 0, 1]),
    "tv": st.integers(0, 5), "eq": st.booleans(), "bm": st.one_of(st.none(), st.integers(0, 7))}), emits=["BitMaskKeyCondition"])
def _b_bmcond(r):
    return _cirq().BitMaskKeyCondition(B(r["k"]), index=r["i"], target_value=r["tv"], equal_target=r["eq"], bitmask=r["bm"])


@reg("SympyCondition", lambda: st.fixed_dictionaries({"T": st.just("SympyCondition"), "e": st.one_of(sbool(1), sexpr(1))}),
     emits=["SympyCondition"])
def _b_sycond(r):
    return _cirq().SympyCondition(B(r["e"]))


@reg("MeasurementType", lambda: st.sampled_from([1, 2]).map(lambda v: {"T": "MeasurementType", "v": v}), emits=["MeasurementType"])
def _b_mtype(r):
    return _cirq().MeasurementType(r["v"])


# ------------------------------------------------------------------------------------------------ generic helpers


reg("tuple", lambda: st.just({"T": "tuple", "v": []}))(lambda r: tuple(B(r["v"])))
reg("set", lambda: st.just({"T": "set", "v": []}))(lambda r: set(B(r["v"])))
reg("fset", lambda: st.just({"T": "fset", "v": []}))(lambda r: frozenset(B(r["v"])))
reg("dict", lambda: st.just({"T": "dict", "kv": []}))(lambda r: {(tuple(B(k)) if isinstance(k, list) else B(k)): B(v) for k, v in r["kv"]})


@reg("arr", lambda: st.just({"T": "arr", "v": [], "dt": "float64"}))
def _b_arr(r):
    import numpy as np

    def cv(x):
        if isinstance(x, list):
            return [cv(y) for y in x]
        return B(x)

    return np.array(cv(r["v"]), dtype=getattr(np, r.get("dt", "float64")))


def T_(xs):
    return {"T": "tuple", "v": list(xs)}


def D_(kv):
    return {"T": "dict", "kv": [[k, v] for k, v in kv]}


def A_(v, dt="float64"):
    return {"T": "arr", "v": v, "dt": dt}


def _resolve(path):
    import importlib

    mod, _, attr = path.rpartition(".")
    m = importlib.import_module(mod)
    return getattr(m, attr)


@reg("KW", lambda: st.nothing())
def _b_kw(r):
    """generic: call ``r['c']`` (dotted path) with positional ``a`` and keyword ``kw`` recipes."""
    f = _resolve(r["c"])
    return f(*[B(x) for x in r.get("a", [])], **{k: B(v) for k, v in r.get("kw", {}).items()})


@reg("CONST", lambda: st.nothing())
def _b_const(r):
    return _resolve(r["c"])


def kw(kind, path_, emits, a=None, opt=None, **fields):
    """Register ``kind`` = call of ``path`` with drawn keyword fields.  ``opt`` fields are optional kwargs:
    each is independently left out (default) or drawn (non-default) -- the property's failure mode."""
    opt = opt or {}

    def strat():
        @st.composite
        def go(draw):
            r = {"T": kind, "c": path_, "kw": {k: draw(s) for k, s in fields.items()}}
            if a:
                r["a"] = [draw(s) for s in a]
            for k, s in opt.items():
                if draw(st.integers(0, 3)) != 0:  # 75 %: present
                    r["kw"][k] = draw(s)
            return r

        return go()

    BUILD[kind] = _b_kw
    STRAT[kind] = strat
    for n in emits:
        ROOTS.setdefault(n, []).append(kind)


def const(kind, path, emits):
    BUILD[kind] = _b_const
    STRAT[kind] = lambda: st.just({"T": kind, "c": path})
    for n in emits:
        ROOTS.setdefault(n, []).append(kind)


def nondefault_count(r):
    """number of optional kwargs present anywhere in the recipe (label)."""
    n = 0
    if isinstance(r, dict):
        n += len(r.get("kw", {}))
        for v in r.values():
            n += nondefault_count(v)
    elif isinstance(r, list):
        for v in r:
            n += nondefault_count(v)
    return n


# ------------------------------------------------------------------------------------------------ gates

EIGEN = ["XPowGate", "YPowGate", "ZPowGate", "HPowGate", "CZPowGate", "CXPowGate", "CYPowGate", "SwapPowGate", "ISwapPowGate",
         "XXPowGate", "YYPowGate", "ZZPowGate", "CCZPowGate", "CCXPowGate", "CCYPowGate"]

FAMILY_EMITS = {
    "XPow": "XPowGate", "YPow": "YPowGate", "ZPow": "ZPowGate", "HPow": "HPowGate", "CZPow": "CZPowGate", "CXPow": "CXPowGate",
    "CYPow": "CYPowGate", "SwapPow": "SwapPowGate", "ISwapPow": "ISwapPowGate", "XXPow": "XXPowGate", "YYPow": "YYPowGate",
    "ZZPow": "ZZPowGate", "CCZPow": "CCZPowGate", "CCXPow": "CCXPowGate", "CCYPow": "CCYPowGate", "Rx": "Rx", "Ry": "Ry", "Rz": "Rz",
    "PhasedXPow": "PhasedXPowGate", "PhasedXZ": "PhasedXZGate", "PhasedISwapPow": "PhasedISwapPowGate", "FSim": "FSimGate",
    "PhasedFSim": "PhasedFSimGate", "MS": "cirq.MSGate", "CSwap": "CSwapGate", "Identity": "IdentityGate", "GlobalPhase": "GlobalPhaseGate",
    "Wait": "WaitGate", "QFT": "QuantumFourierTransformGate", "PhaseGradient": "PhaseGradientGate", "Diagonal": "DiagonalGate",
    "TwoQubitDiagonal": "TwoQubitDiagonalGate", "ThreeQubitDiagonal": "ThreeQubitDiagonalGate", "QubitPermutation": "QubitPermutationGate",
    "Matrix1": "MatrixGate", "Matrix2": "MatrixGate", "Matrix3": "MatrixGate", "PauliInteraction": "PauliInteractionGate",
    "SingleQubitClifford": "SingleQubitCliffordGate", "DensePauli": "DensePauliString", "PauliStringPhasor": "PauliStringPhasorGate",
    "UniformSuperposition": "UniformSuperpositionGate", "SYC": "SycamoreGate", "WILLOW": "WillowGate", "GPI": "GPIGate", "GPI2": "GPI2Gate",
    "IonqMS": "MSGate", "IonqZZ": "ZZGate", "QuditMatrix": "MatrixGate", "QuditMatrix2": "MatrixGate", "QuditIdentity": "IdentityGate",
    "Depolarize": "DepolarizingChannel", "Depolarize2": "DepolarizingChannel", "AsymDepolarize": "AsymmetricDepolarizingChannel",
    "BitFlip": "BitFlipChannel", "PhaseFlip": "PhaseFlipChannel", "PhaseDamp": "PhaseDampingChannel", "AmplitudeDamp": "AmplitudeDampingChannel",
    "GenAmplitudeDamp": "GeneralizedAmplitudeDampingChannel", "Reset": "ResetChannel", "RandomGate": "RandomGateChannel",
}


def family_gate(pred=lambda f: f.name in FAMILY_EMITS and f.name != "Matrix3", max_arity=3):
    return G.gate_recipes(pred, max_arity=max_arity).map(lambda g: {"T": "G", "f": g[0], "p": g[1]})


@reg("G", family_gate, emits=sorted(set(FAMILY_EMITS.values())))
def _b_G(r):
    return G.build_gate([r["f"], r["p"]])


@reg("EG", lambda: st.fixed_dictionaries({"T": st.just("EG"), "cls": st.sampled_from(EIGEN), "e": tparam(), "s": G.shifts(),
                                          "d": st.sampled_from([2, 2, 2, 3, 4])}), emits=EIGEN)
def _b_EG(r):
    cirq = _cirq()
    kw_ = {"exponent": B(r["e"]), "global_shift": r["s"]}
    if r["cls"] in ("XPowGate", "ZPowGate") and r.get("d", 2) != 2:
        kw_["dimension"] = r["d"]
    return getattr(cirq, r["cls"])(**kw_)


kw("Rot", "cirq.Rx", ["Rx"], rads=tparam())
kw("RotY", "cirq.Ry", ["Ry"], rads=tparam())
kw("RotZ", "cirq.Rz", ["Rz"], rads=tparam())
kw("PhasedXPowGate", "cirq.PhasedXPowGate", ["PhasedXPowGate"], phase_exponent=tparam(), opt=dict(exponent=tparam(), global_shift=G.shifts()))
kw("PhasedXZGate", "cirq.PhasedXZGate", ["PhasedXZGate"], x_exponent=tparam(), z_exponent=tparam(), axis_phase_exponent=tparam())
kw("PhasedISwapPowGate", "cirq.PhasedISwapPowGate", ["PhasedISwapPowGate"], opt=dict(phase_exponent=tparam(), exponent=tparam(), global_shift=G.shifts()))
kw("FSimGate", "cirq.FSimGate", ["FSimGate"], theta=tparam(), phi=tparam())
kw("PhasedFSimGate", "cirq.PhasedFSimGate", ["PhasedFSimGate"], theta=tparam(), opt=dict(zeta=tparam(), chi=tparam(), gamma=tparam(), phi=tparam()))
kw("MSGate", "cirq.ms", ["cirq.MSGate"], a=[st.one_of(G.rads(), _ssym())])
kw("QasmUGate", "cirq.circuits.qasm_output.QasmUGate", ["QasmUGate"], theta=tparam(False), phi=tparam(False), lmda=tparam(False))
kw("PhaseGradientGate", "cirq.PhaseGradientGate", ["PhaseGradientGate"], num_qubits=st.integers(1, 3), exponent=tparam())
kw("QFT", "cirq.QuantumFourierTransformGate", ["QuantumFourierTransformGate"], a=[st.integers(1, 3)], opt=dict(without_reverse=st.booleans()))
kw("GlobalPhaseGate", "cirq.GlobalPhaseGate", ["GlobalPhaseGate"], a=[st.one_of(unit_complex(), _ssym())])
kw("ResetChannel", "cirq.ResetChannel", ["ResetChannel"], opt=dict(dimension=st.sampled_from([2, 3, 4])))
kw("DepolarizingChannel", "cirq.DepolarizingChannel", ["DepolarizingChannel"], p=G.probs(0.75), opt=dict(n_qubits=st.integers(1, 3)))
kw("RandomGateChannel", "cirq.RandomGateChannel", ["RandomGateChannel"], sub_gate=S("G1u"), probability=st.one_of(G.probs(), _ssym()))
kw("BooleanHamiltonianGate", "cirq.BooleanHamiltonianGate", ["BooleanHamiltonianGate"],
   a=[st.sampled_from([["x0"], ["x0", "x1"], ["a", "b", "c"]])], boolean_strs=st.just(None), theta=pfloat())
kw("UniformSuperpositionGate", "cirq.UniformSuperpositionGate", ["UniformSuperpositionGate"], a=[st.integers(1, 4), st.integers(2, 3)])
kw("QubitPermutationGate", "cirq.QubitPermutationGate", ["QubitPermutationGate"],
   a=[st.integers(1, 4).flatmap(lambda n: st.permutations(list(range(n))))])


def _fix_boolham(strat):
    tbl = {1: ["x0", "~x0"], 2: ["x0 ^ x1", "x0 & x1", "x0 | ~x1", "x1"], 3: ["a ^ b", "(a | b) & c", "a & ~c", "b"]}
    return strat.flatmap(lambda r: st.lists(st.sampled_from(tbl[len(r["a"][0])]), min_size=1, max_size=3).map(
        lambda bs: dict(r, kw=dict(r["kw"], boolean_strs=bs))))


STRAT["BooleanHamiltonianGate"] = (lambda f: (lambda: _fix_boolham(f())))(STRAT["BooleanHamiltonianGate"])


def _diag(n):
    return st.lists(tparam(), min_size=2 ** n, max_size=2 ** n)


kw("DiagonalGate", "cirq.DiagonalGate", ["DiagonalGate"], a=[st.integers(1, 3).flatmap(_diag)])
kw("TwoQubitDiagonalGate", "cirq.TwoQubitDiagonalGate", ["TwoQubitDiagonalGate"], a=[_diag(2)])
kw("ThreeQubitDiagonalGate", "cirq.ThreeQubitDiagonalGate", ["ThreeQubitDiagonalGate"], a=[_diag(3)])
kw("PauliInteractionGate", "cirq.PauliInteractionGate", ["PauliInteractionGate"],
   a=[S("Pauli"), st.booleans(), S("Pauli"), st.booleans()], opt=dict(exponent=tparam()))
const("PauliX", "cirq.X", ["_PauliX"])
const("PauliY", "cirq.Y", ["_PauliY"])
const("PauliZ", "cirq.Z", ["_PauliZ"])
STRAT["Pauli"] = lambda: st.sampled_from(["X", "Y", "Z"]).map(lambda p: {"T": "Pauli" + p, "c": "cirq." + p})
BUILD["Pauli"] = _b_const
const("CSwapGate", "cirq.CSWAP", ["CSwapGate"])
const("SycamoreGate", "cirq_google.SYC", ["SycamoreGate"])
const("WillowGate", "cirq_google.WILLOW", ["WillowGate"])


def _shape(n_max=3, qudit=None):
    return st.integers(1, n_max).flatmap(lambda n: st.lists(st.sampled_from([2, 2, 3, 4] if qudit is None else [qudit]), min_size=n, max_size=n))


@reg("IdentityGate", lambda: st.one_of(st.integers(1, 4).map(lambda n: {"T": "IdentityGate", "n": n}),
                                       _shape().map(lambda s: {"T": "IdentityGate", "shape": s})), emits=["IdentityGate"])
def _b_identity(r):
    cirq = _cirq()
    if "shape" in r:
        return cirq.IdentityGate(qid_shape=tuple(r["shape"]))
    return cirq.IdentityGate(r["n"])


@reg("Duration", lambda: st.one_of(
    st.fixed_dictionaries({"T": st.just("Duration"), "u": st.sampled_from(["picos", "nanos", "micros", "millis"]),
                           "v": st.one_of(st.integers(0, 5000), st.sampled_from([2.5, 0.001, 1e-4, 1234.5678, 0.1]), _ssym(), sexpr(1))}),
    st.fixed_dictionaries({"T": st.just("Duration"), "u": st.just("nanos"), "v": st.integers(0, 100), "u2": st.just("picos"),
                           "v2": st.one_of(st.integers(1, 999), st.just(0.5))})), emits=["Duration"])
def _b_duration(r):
    d = {r["u"]: B(r["v"])}
    if "u2" in r:
        d[r["u2"]] = B(r["v2"])
    return _cirq().Duration(**d)


@reg("WaitGate", lambda: st.one_of(
    st.fixed_dictionaries({"T": st.just("WaitGate"), "dur": S("Duration"), "n": st.one_of(st.none(), st.integers(1, 3))}),
    st.fixed_dictionaries({"T": st.just("WaitGate"), "dur": S("Duration"), "shape": _shape()})), emits=["WaitGate"])
def _b_wait(r):
    cirq = _cirq()
    if "shape" in r:
        return cirq.WaitGate(B(r["dur"]), qid_shape=tuple(r["shape"]))
    return cirq.WaitGate(B(r["dur"]), num_qubits=r.get("n"))


def _unitary_floats(d):
    return st.lists(G.small_floats(), min_size=2 * d * d, max_size=2 * d * d)


@reg("MatrixGate", lambda: st.one_of(
    st.sampled_from([[2], [2, 2], [3], [2, 3], [4]]).flatmap(lambda s: st.fixed_dictionaries({
        "T": st.just("MatrixGate"), "shape": st.just(s), "v": _unitary_floats(math.prod(s)),
        "name": st.one_of(st.none(), st.sampled_from(["U", "my gate", "ü", ""]))}))), emits=["MatrixGate"])
def _b_matrix(r):
    from vf.ref import linalg as L

    d = math.prod(r["shape"])
    return _cirq().MatrixGate(L.random_unitary_from_floats(r["v"], d), qid_shape=tuple(r["shape"]), name=r.get("name"))


def _stochastic(n):
    """column list -> n x n row-stochastic-ish confusion matrix recipe (floats)."""
    return st.lists(st.lists(st.sampled_from([0.0, 0.1, 0.25, 0.5, 0.9, 1.0, 0.05]), min_size=n, max_size=n), min_size=n, max_size=n)


@reg("MeasurementGate", lambda: _meas_strategy(), emits=["MeasurementGate"])
def _b_meas(r):
    import numpy as np

    cirq = _cirq()
    cm = None
    if r.get("cm"):
        cm = {tuple(idx): np.array(m) for idx, m in r["cm"]}
    shape = tuple(r["shape"])
    kwargs = {}
    if any(d != 2 for d in shape) or r.get("explicit_shape"):
        kwargs["qid_shape"] = shape
    return cirq.MeasurementGate(len(shape), key=B(r["key"]), invert_mask=tuple(r.get("inv", [])), confusion_map=cm, **kwargs)


@st.composite
def _meas_strategy(draw, qubit_only=False):
    shape = draw(_shape(3, qudit=2 if qubit_only else None))
    n = len(shape)
    r = {"T": "MeasurementGate", "shape": shape, "key": draw(key_like()),
         "inv": draw(st.lists(st.booleans(), max_size=n)), "explicit_shape": draw(st.booleans())}
    if draw(st.booleans()):
        idx = draw(st.lists(st.integers(0, n - 1), min_size=1, max_size=min(n, 2), unique=True))
        D = math.prod(shape[i] for i in idx)
        r["cm"] = [[idx, draw(_stochastic(D))]]
        if n >= 2 and draw(st.booleans()):
            other = [i for i in range(n) if i not in idx][:1]
            if other:
                r["cm"].append([other, draw(_stochastic(shape[other[0]]))])
    return r


@reg("DensePauliString", lambda: st.fixed_dictionaries({
    "T": st.just("DensePauliString"),
    "ps": st.lists(st.sampled_from("IXYZ"), min_size=1, max_size=4),
    "c": st.one_of(unit_complex(), unit_complex(), S("cx"), _ssym(), st.just(2.5))}), emits=["DensePauliString"])
def _b_dps(r):
    return getattr(_cirq(), r["T"])("".join(r["ps"]), coefficient=B(r["c"]))


BUILD["MutableDensePauliString"] = _b_dps
STRAT["MutableDensePauliString"] = lambda: STRAT["DensePauliString"]().map(lambda r: dict(r, T="MutableDensePauliString"))
ROOTS.setdefault("MutableDensePauliString", []).append("MutableDensePauliString")


@reg("PauliMeasurementGate", lambda: st.lists(st.sampled_from("XYZ"), min_size=1, max_size=3).flatmap(lambda ps: st.fixed_dictionaries({
    "T": st.just("PauliMeasurementGate"), "ps": st.just(ps), "neg": st.booleans(), "key": key_like(),
    "cm": st.one_of(st.none(), _stochastic(2))})), emits=["PauliMeasurementGate"])
def _b_pmeas(r):
    import numpy as np

    cirq = _cirq()
    obs = cirq.DensePauliString("".join(r["ps"]), coefficient=-1 if r["neg"] else 1)
    return cirq.PauliMeasurementGate(obs, key=B(r["key"]), confusion_matrix=None if r.get("cm") is None else np.array(r["cm"]))


kw("PauliStringPhasorGate", "cirq.PauliStringPhasorGate", ["PauliStringPhasorGate"],
   a=[st.fixed_dictionaries({"T": st.just("DensePauliString"), "ps": st.lists(st.sampled_from("IXYZ"), min_size=1, max_size=3),
                             "c": st.sampled_from([1, -1])})], opt=dict(exponent_neg=tparam(), exponent_pos=tparam()))


def control_values(n, dims=None):
    """control values recipe for n controls with qid dims."""
    dims = dims or [2] * n
    pos = st.tuples(*[st.one_of(st.integers(0, d - 1), st.lists(st.integers(0, d - 1), min_size=1, max_size=2, unique=True)) for d in dims]).map(
        lambda t: {"T": "ProductOfSums", "data": list(t)})
    raw = st.tuples(*[st.integers(0, d - 1) for d in dims]).map(lambda t: list(t))
    sop = st.lists(st.tuples(*[st.integers(0, d - 1) for d in dims]).map(list), min_size=1, max_size=3).flatmap(
        lambda data: st.one_of(st.none(), st.sampled_from(["xor", "my cv"])).map(lambda nm: {"T": "SumOfProducts", "data": data, "name": nm}))
    return st.one_of(st.none(), pos, raw, sop)


@reg("ProductOfSums", lambda: st.integers(1, 3).flatmap(lambda n: control_values(n)).filter(lambda r: isinstance(r, dict) and r["T"] == "ProductOfSums"),
     emits=["ProductOfSums"])
def _b_pos(r):
    return _cirq().ProductOfSums([tuple(x) if isinstance(x, list) else x for x in r["data"]])


@reg("SumOfProducts", lambda: st.integers(1, 3).flatmap(lambda n: control_values(n)).filter(lambda r: isinstance(r, dict) and r["T"] == "SumOfProducts"),
     emits=["SumOfProducts"])
def _b_sop(r):
    return _cirq().SumOfProducts([tuple(x) for x in r["data"]], name=r.get("name"))


def gate1u():
    """single-qubit unitary gate (sub-gates of wrappers)."""
    return st.one_of(family_gate(lambda f: f.unitary and not f.qudit and f.name in FAMILY_EMITS and f.arity == 1 and "zeroq" not in f.tags),
                     S("EG").filter(lambda r: r["cls"] in ("XPowGate", "YPowGate", "ZPowGate", "HPowGate") and r.get("d", 2) == 2 or
                                    (r["cls"] in ("YPowGate", "HPowGate"))),
                     S("PhasedXZGate"))


STRAT["G1u"] = gate1u


@st.composite
def _controlled_gate(draw):
    sub = draw(st.one_of(gate1u(), family_gate(lambda f: f.unitary and not f.qudit and f.name in FAMILY_EMITS and f.arity in (1, 2)),
                         S("MatrixGate")))
    nc = draw(st.integers(1, 2))
    qudit_ctrl = draw(st.integers(0, 3)) == 0
    dims = [draw(st.sampled_from([2, 3])) for _ in range(nc)] if qudit_ctrl else [2] * nc
    r = {"T": "ControlledGate", "sub": sub, "nc": nc, "cv": draw(control_values(nc, dims))}
    if qudit_ctrl or draw(st.booleans()):
        r["cshape"] = dims
    return r


@reg("ControlledGate", _controlled_gate, emits=["ControlledGate"])
def _b_cgate(r):
    cirq = _cirq()
    cvs = r.get("cv")
    cvs = B(cvs) if isinstance(cvs, dict) else cvs
    return cirq.ControlledGate(B(r["sub"]), num_controls=r["nc"], control_values=cvs,
                               control_qid_shape=None if r.get("cshape") is None else tuple(r["cshape"]))


kw("ParallelGate", "cirq.ParallelGate", ["ParallelGate"], a=[st.one_of(gate1u(), S("BitFlipCh")), st.integers(1, 3)])
STRAT["BitFlipCh"] = lambda: family_gate(lambda f: f.channel and f.arity == 1 and f.name in FAMILY_EMITS)
BUILD["BitFlipCh"] = _b_G


@reg("InverseCompositeGate", lambda: st.one_of(S("QFT"), S("UniformSuperpositionGate"), S("BooleanHamiltonianGate")).map(
    lambda g: {"T": "InverseCompositeGate", "g": g}), emits=["_InverseCompositeGate"])
def _b_inv(r):
    cirq = _cirq()
    g = cirq.inverse(B(r["g"]))
    if type(g).__name__ != "_InverseCompositeGate":
        raise OutOfDomain("inverse is not an _InverseCompositeGate")
    return g


@reg("KrausChannel", lambda: st.sampled_from([1, 2]).flatmap(lambda n: st.fixed_dictionaries({
    "T": st.just("KrausChannel"), "n": st.just(n), "v": _unitary_floats(2 ** n), "p": G.probs().filter(lambda p: 0 < p < 1),
    "key": st.one_of(st.none(), key_like())})), emits=["KrausChannel"])
def _b_kraus(r):
    import numpy as np
    from vf.ref import linalg as L

    d = 2 ** r["n"]
    u = L.random_unitary_from_floats(r["v"], d)
    ops = [np.sqrt(r["p"]) * u, np.sqrt(1 - r["p"]) * np.eye(d)]
    return _cirq().KrausChannel(ops, key=B(r.get("key")))


@reg("MixedUnitaryChannel", lambda: st.sampled_from([1, 2]).flatmap(lambda n: st.fixed_dictionaries({
    "T": st.just("MixedUnitaryChannel"), "n": st.just(n), "v": _unitary_floats(2 ** n), "p": st.sampled_from([0.25, 0.5, 0.125, 0.75]),
    "key": st.one_of(st.none(), key_like())})), emits=["MixedUnitaryChannel"])
def _b_mixed(r):
    import numpy as np
    from vf.ref import linalg as L

    d = 2 ** r["n"]
    u = L.random_unitary_from_floats(r["v"], d)
    return _cirq().MixedUnitaryChannel([(r["p"], u), (1 - r["p"], np.eye(d))], key=B(r.get("key")))


@reg("StatePreparationChannel", lambda: st.sampled_from([1, 2]).flatmap(lambda n: st.fixed_dictionaries({
    "T": st.just("StatePreparationChannel"), "n": st.just(n), "v": st.lists(G.small_floats(), min_size=2 ** (n + 1), max_size=2 ** (n + 1)),
    "name": st.one_of(st.none(), st.sampled_from(["prep", "S ü"]))})), emits=["StatePreparationChannel"])
def _b_sprep(r):
    from vf.ref import linalg as L

    psi = L.state_from_floats(r["v"], 2 ** r["n"])
    if r.get("name") is None:
        return _cirq().StatePreparationChannel(psi)
    return _cirq().StatePreparationChannel(psi, name=r["name"])


@reg("AsymDepol", lambda: st.one_of(
    st.fixed_dictionaries({"T": st.just("AsymDepol"), "px": G.probs(0.3), "py": G.probs(0.3), "pz": G.probs(0.3)}),
    st.integers(1, 2).flatmap(lambda n: st.lists(st.tuples(st.text("IXYZ", min_size=n, max_size=n).filter(lambda k: set(k) != {"I"}), st.sampled_from([0.1, 0.05, 0.25, 0.125])),
                                                 min_size=1, max_size=3, unique_by=lambda t: t[0]).map(
        lambda kv: {"T": "AsymDepol", "ep": [list(t) for t in kv]}))), emits=["AsymmetricDepolarizingChannel"])
def _b_asym(r):
    cirq = _cirq()
    if "ep" in r:
        return cirq.AsymmetricDepolarizingChannel(error_probabilities={k: v for k, v in r["ep"]})
    return cirq.AsymmetricDepolarizingChannel(r["px"], r["py"], r["pz"])


@reg("CliffordTableau", lambda: st.integers(1, 3).flatmap(lambda n: st.fixed_dictionaries({
    "T": st.just("CliffordTableau"), "n": st.just(n), "init": st.integers(0, 2 ** n - 1),
    "ops": st.lists(st.tuples(st.sampled_from(["H", "S", "X", "Y", "Z", "CNOT", "CZ"]), st.integers(0, n - 1), st.integers(0, n - 1)).map(list),
                    max_size=8)})), emits=["CliffordTableau"])
def _b_tableau(r):
    cirq = _cirq()
    n = r["n"]
    t = cirq.CliffordTableau(n, initial_state=r.get("init", 0))
    for name, a, b in r["ops"]:
        a, b = a % n, b % n
        if name in ("CNOT", "CZ"):
            if a == b:
                continue
            getattr(t, "apply_cx" if name == "CNOT" else "apply_cz")(a, b)
        elif name == "S":
            t.apply_z(a, 0.5)
        else:
            getattr(t, "apply_" + name.lower())(a)
    return t


@reg("CliffordGate", lambda: STRAT["CliffordTableau"]().map(lambda r: dict(r, T="CliffordGate", init=0)), emits=["CliffordGate"])
def _b_cliffgate(r):
    return _cirq().CliffordGate.from_clifford_tableau(_b_tableau(r))


@reg("SingleQubitCliffordGate", lambda: st.one_of(
    st.integers(0, 23).map(lambda i: {"T": "SingleQubitCliffordGate", "i": i}),
    st.tuples(st.sampled_from("XYZ"), st.booleans(), st.sampled_from("XYZ"), st.booleans()).filter(lambda t: t[0] != t[2]).map(
        lambda t: {"T": "SingleQubitCliffordGate", "xz": list(t)})), emits=["SingleQubitCliffordGate"])
def _b_sqc(r):
    cirq = _cirq()
    if "xz" in r:
        px, fx, pz, fz = r["xz"]
        return cirq.SingleQubitCliffordGate.from_xz_map((getattr(cirq, px), fx), (getattr(cirq, pz), fz))
    return cirq.SingleQubitCliffordGate.all_single_qubit_cliffords[r["i"]]


# vendor gates
kw("GPIGate", "cirq_ionq.GPIGate", ["GPIGate"], phi=pfloat())
kw("GPI2Gate", "cirq_ionq.GPI2Gate", ["GPI2Gate"], phi=pfloat())
kw("IonqMSGate", "cirq_ionq.MSGate", ["MSGate"], phi0=pfloat(), phi1=pfloat(), opt=dict(theta=st.sampled_from([0.0, 0.125, 0.1, 0.2, 0.25])))
kw("IonqZZGate", "cirq_ionq.ZZGate", ["ZZGate"], theta=pfloat())
kw("CouplerPulse", "cirq_google.experimental.CouplerPulse", ["CouplerPulse"],
   hold_time=st.integers(0, 50).map(lambda n: {"T": "Duration", "u": "nanos", "v": n}),
   coupling_mhz=st.one_of(G.small_floats(), _ssym(), st.sampled_from([20.0, 25])),
   opt=dict(rise_time=st.integers(1, 20).map(lambda n: {"T": "Duration", "u": "nanos", "v": n}),
            padding_time=st.integers(1, 20).map(lambda n: {"T": "Duration", "u": "picos", "v": n * 100}),
            q0_detune_mhz=st.one_of(G.small_floats(), _ssym()), q1_detune_mhz=st.one_of(G.small_floats(), _ssym())))


def json_scalar():
    return st.one_of(st.integers(-5, 5), G.small_floats(), st.sampled_from(["s", "", "ü"]), st.booleans(), st.none())


def json_arg():
    return st.one_of(json_scalar(), st.lists(json_scalar(), max_size=3), S("cx"), _ssym())


@reg("InternalGate", lambda: st.fixed_dictionaries({
    "T": st.just("InternalGate"), "name": st.sampled_from(["GateA", "CouplerDD", "g"]), "mod": st.sampled_from(["pkg.mod", "internal_module", ""]),
    "n": st.integers(1, 3), "args": st.dictionaries(st.sampled_from(["p1", "amp", "flag", "vals", "x"]), json_arg(), max_size=3)}),
     emits=["InternalGate"])
def _b_igate(r):
    import cirq_google

    return cirq_google.InternalGate(gate_name=r["name"], gate_module=r["mod"], num_qubits=r["n"], **{k: B(v) for k, v in r["args"].items()})


@reg("InternalTag", lambda: st.fixed_dictionaries({
    "T": st.just("InternalTag"), "name": st.sampled_from(["TagA", "t"]), "pkg": st.sampled_from(["pkg.mod", "p"]),
    "args": st.dictionaries(st.sampled_from(["p1", "amp", "flag", "vals"]), json_arg(), max_size=3)}), emits=["InternalTag"])
def _b_itag(r):
    import cirq_google

    return cirq_google.InternalTag(name=r["name"], package=r["pkg"], **{k: B(v) for k, v in r["args"].items()})


kw("LZSResetViaResonator", "cirq_google.ops.lzs_reset.LZSResetViaResonator", ["LZSResetViaResonator"])
kw("MultilevelResetViaResonator", "cirq_google.ops.multi_level_reset.MultilevelResetViaResonator", ["MultilevelResetViaResonator"])
kw("LeakageISWAP", "cirq_google.ops.leakage_iswap.LeakageISWAP", ["LeakageISWAP"], opt=dict(phase_matched=st.booleans()))


def gate(qubit_only=False):
    """any gate recipe."""
    opts = [family_gate(), family_gate(), S("EG"), S("Rot"), S("RotY"), S("RotZ"), S("PhasedXPowGate"), S("PhasedXZGate"), S("PhasedISwapPowGate"),
            S("FSimGate"), S("PhasedFSimGate"), S("MSGate"), S("QasmUGate"), S("PhaseGradientGate"), S("QFT"), S("GlobalPhaseGate"),
            S("ResetChannel"), S("DepolarizingChannel"), S("RandomGateChannel"), S("BooleanHamiltonianGate"), S("UniformSuperpositionGate"),
            S("QubitPermutationGate"), S("DiagonalGate"), S("TwoQubitDiagonalGate"), S("ThreeQubitDiagonalGate"), S("PauliInteractionGate"),
            S("Pauli"), S("CSwapGate"), S("SycamoreGate"), S("WillowGate"), S("IdentityGate"), S("WaitGate"), S("MatrixGate"),
            S("MeasurementGate"), S("MeasurementGate"), S("DensePauliString"), S("PauliMeasurementGate"), S("PauliStringPhasorGate"),
            S("ControlledGate"), S("ParallelGate"), S("InverseCompositeGate"), S("KrausChannel"), S("MixedUnitaryChannel"),
            S("StatePreparationChannel"), S("AsymDepol"), S("CliffordGate"), S("SingleQubitCliffordGate"), S("GPIGate"), S("GPI2Gate"),
            S("IonqMSGate"), S("IonqZZGate"), S("CouplerPulse"), S("InternalGate"), S("LZSResetViaResonator"),
            S("MultilevelResetViaResonator"), S("LeakageISWAP")]
    return st.one_of(*opts)


STRAT["gate"] = gate


# ------------------------------------------------------------------------------------------------ operations


def _shape_of(g):
    import cirq

    return cirq.qid_shape(B(g))


def tag():
    return st.one_of(
        st.sampled_from(["vf_tag", "t2", "", "ü", 7, 0, -1]),
        st.sampled_from(["VirtualTag", "RoutingSwapTag", "PhysicalZTag", "FSimViaModelTag", "CompressDurationTag", "TwoPulseFSimTag"]).map(lambda t: {"T": t, "c": TAG_PATH[t]}),
        S("CalibrationTag"), S("InternalTag").map(_hashable_itag), S("Duration"), mkey(), S("LineQubit"))


def _hashable_itag(r):
    return dict(r, args={k: v for k, v in r["args"].items() if not isinstance(v, list)})


TAG_PATH = {"VirtualTag": "cirq.VirtualTag", "RoutingSwapTag": "cirq.RoutingSwapTag", "PhysicalZTag": "cirq_google.PhysicalZTag",
            "FSimViaModelTag": "cirq_google.FSimViaModelTag", "CompressDurationTag": "cirq_google.CompressDurationTag",
            "TwoPulseFSimTag": "cirq_google.ops.TwoPulseFSimTag"}
for _t, _p in TAG_PATH.items():
    kw(_t, _p, [_t])
kw("CalibrationTag", "cirq_google.CalibrationTag", ["CalibrationTag"], a=[st.sampled_from(["tok", "", "abc/123", "ü"])])


def tags(min_size=1):
    return st.lists(tag(), min_size=min_size, max_size=3, unique_by=_k)


def _pick_wires(draw, reg_, shape, exclude=()):
    perm = draw(st.permutations(list(range(len(reg_)))))
    chosen = []
    for d in shape:
        w = next((i for i in perm if i not in chosen and i not in exclude and qid_dim(reg_[i]) == d), None)
        if w is None:
            return None
        chosen.append(w)
    return chosen


@st.composite
def base_op(draw, reg_, controllable=False, no_measure=False):
    """a gate operation on wires of ``reg_`` (list of qid recipes); None if no gate fits."""
    import cirq

    for _ in range(6):
        g = draw(gate())
        try:
            go = B(g)
        except OutOfDomain:
            continue
        if controllable and (cirq.is_measurement(go) or not (cirq.has_mixture(go) or cirq.is_parameterized(go))):
            continue
        if no_measure and cirq.measurement_key_objs(go):
            continue
        w = _pick_wires(draw, reg_, cirq.qid_shape(go))
        if w is None:
            continue
        return {"T": "gop", "g": g, "q": [reg_[i] for i in w], "_w": w}
    w = _pick_wires(draw, reg_, (qid_dim(reg_[0]),))
    return {"T": "gop", "g": {"T": "IdentityGate", "shape": [qid_dim(reg_[0])]}, "q": [reg_[w[0]]], "_w": w}


@reg("gop", lambda: st.integers(1, 4).flatmap(lambda n: st.lists(st.sampled_from([2, 2, 2, 3, 4]), min_size=n, max_size=n)).flatmap(qreg).flatmap(base_op),
     emits=["GateOperation", "SingleQubitPauliStringGateOperation"])
def _b_gop(r):
    return B(r["g"]).on(*[B(q) for q in r["q"]])


def _wires_of(o):
    return set(o.get("_w", []))


@st.composite
def op_on(draw, reg_, depth=1, no_measure=False):
    """any operation on wires of ``reg_``."""
    kind = draw(st.sampled_from(["g", "g", "g", "tag", "ctrl", "cc", "if", "circ", "pstr", "phasor"])) if depth > 0 else "g"
    if kind == "g":
        return draw(base_op(reg_, no_measure=no_measure))
    if kind == "tag":
        sub = draw(op_on(reg_, depth - 1, no_measure))
        return {"T": "tagged", "op": sub, "tags": draw(tags()), "_w": sorted(_wires_of(sub))}
    if kind == "ctrl":
        sub = draw(base_op(reg_, controllable=True))
        free = [i for i in range(len(reg_)) if i not in _wires_of(sub)]
        if not free:
            return sub
        nc = draw(st.integers(1, min(2, len(free))))
        cw = list(draw(st.permutations(free)))[:nc]
        dims = [qid_dim(reg_[i]) for i in cw]
        return {"T": "cop", "c": [reg_[i] for i in cw], "op": sub, "cv": draw(control_values(nc, dims)), "_w": sorted(_wires_of(sub) | set(cw))}
    if kind in ("cc", "if"):
        sub = draw(op_on(reg_, depth - 1, no_measure=True))
        conds = draw(st.lists(st.one_of(condition(), st.sampled_from(KEYS), mkey(), sbool(0)), min_size=1, max_size=2))
        return {"T": "ccop" if kind == "cc" else "If", "op": sub, "conds": conds, "_w": sorted(_wires_of(sub))}
    if kind == "circ":
        return draw(circuit_op(reg_, depth - 1, no_measure))
    if kind == "pstr":
        w = draw(st.lists(st.integers(0, len(reg_) - 1), min_size=0, max_size=3, unique=True))
        w = [i for i in w if qid_dim(reg_[i]) == 2]
        return {"T": "PauliString", "q": [reg_[i] for i in w], "p": draw(st.lists(st.sampled_from("XYZ"), min_size=len(w), max_size=len(w))),
                "c": draw(st.one_of(unit_complex(), st.just(1), _ssym(), S("cx"))), "_w": w}
    # phasor
    w = draw(st.lists(st.integers(0, len(reg_) - 1), min_size=1, max_size=3, unique=True))
    w = [i for i in w if qid_dim(reg_[i]) == 2]
    if not w:
        return draw(base_op(reg_, no_measure=no_measure))
    k = draw(st.integers(0, len(w)))
    return {"T": "PauliStringPhasor", "q": [reg_[i] for i in w[:k]], "p": draw(st.lists(st.sampled_from("XYZ"), min_size=k, max_size=k)),
            "sign": draw(st.sampled_from([1, -1])), "extra": [reg_[i] for i in w[k:]] if draw(st.booleans()) else None,
            "en": draw(tparam()), "ep": draw(tparam()), "_w": w}


def _reg_strategy(n_min=1, n_max=4):
    return st.integers(n_min, n_max).flatmap(lambda n: st.lists(st.sampled_from([2, 2, 2, 2, 3, 4]), min_size=n, max_size=n)).flatmap(qreg)


def op(depth=1):
    return _reg_strategy(2, 4).flatmap(lambda rg: op_on(rg, depth))


STRAT["op"] = op


@reg("tagged", lambda: _reg_strategy().flatmap(lambda rg: op_on(rg, 1)).flatmap(
    lambda o: tags().map(lambda t: {"T": "tagged", "op": o, "tags": t})), emits=["TaggedOperation"])
def _b_tagged(r):
    return _cirq().TaggedOperation(B(r["op"]), *[B(t) for t in r["tags"]])


@reg("cop", lambda: _reg_strategy(2, 4).flatmap(lambda rg: op_on(rg, 1)).filter(lambda o: o["T"] == "cop"), emits=["ControlledOperation"])
def _b_cop(r):
    cvs = r.get("cv")
    cvs = B(cvs) if isinstance(cvs, dict) else cvs
    return _cirq().ControlledOperation([B(q) for q in r["c"]], B(r["op"]), cvs)


def _cond_op_strategy(kind):
    @st.composite
    def go(draw):
        rg = draw(_reg_strategy(1, 3))
        sub = draw(op_on(rg, 1, no_measure=True))
        conds = draw(st.lists(st.one_of(condition(), st.sampled_from(KEYS), mkey(), sbool(0)), min_size=1, max_size=3))
        return {"T": kind, "op": sub, "conds": conds}

    return go()


@reg("ccop", lambda: _cond_op_strategy("ccop"), emits=["ClassicallyControlledOperation"])
def _b_ccop(r):
    return _cirq().ClassicallyControlledOperation(B(r["op"]), [B(c) for c in r["conds"]])


@reg("If", lambda: _cond_op_strategy("If"), emits=["If"])
def _b_if(r):
    conds = [B(c) for c in r["conds"]]
    return _cirq().If(conds if len(conds) != 1 or r.get("seq") else conds[0], B(r["op"]))


@reg("PauliString", lambda: _reg_strategy().flatmap(lambda rg: op_on(rg, 1)).filter(lambda o: o["T"] == "PauliString"), emits=["PauliString"])
def _b_pstring(r):
    cirq = _cirq()
    return cirq.PauliString({B(q): getattr(cirq, p) for q, p in zip(r["q"], r["p"])}, coefficient=B(r.get("c", 1)))


@reg("MutablePauliString", lambda: STRAT["PauliString"]().map(lambda r: dict(r, T="MutablePauliString")), emits=["MutablePauliString"])
def _b_mpstring(r):
    cirq = _cirq()
    return cirq.MutablePauliString({B(q): getattr(cirq, p) for q, p in zip(r["q"], r["p"])}, coefficient=B(r.get("c", 1)))


@reg("PauliStringPhasor", lambda: _reg_strategy().flatmap(lambda rg: op_on(rg, 1)).filter(lambda o: o["T"] == "PauliStringPhasor"),
     emits=["PauliStringPhasor"])
def _b_phasor(r):
    cirq = _cirq()
    ps = cirq.PauliString({B(q): getattr(cirq, p) for q, p in zip(r["q"], r["p"])}, coefficient=r.get("sign", 1))
    qs = None if r.get("extra") is None else [B(q) for q in r["q"]] + [B(q) for q in r["extra"]]
    return cirq.PauliStringPhasor(ps, qs, exponent_neg=B(r["en"]), exponent_pos=B(r["ep"]))


# ------------------------------------------------------------------------------------------------ moments / circuits


def _filter_disjoint(ops):
    out, used = [], set()
    for o in ops:
        qs = set(o.qubits)
        if qs & used:
            continue
        used |= qs
        out.append(o)
    return out


@st.composite
def moment_on(draw, reg_, depth=1):
    ops = draw(st.lists(op_on(reg_, depth), min_size=0, max_size=3))
    r = {"T": "Moment", "ops": ops}
    if draw(st.integers(0, 3)) == 0:
        r["tags"] = draw(tags())
    return r


@reg("Moment", lambda: _reg_strategy(1, 4).flatmap(lambda rg: moment_on(rg, 1)), emits=["Moment"])
def _b_moment(r):
    cirq = _cirq()
    ops = _filter_disjoint([B(o) for o in r["ops"]])
    return cirq.Moment(ops, tags=tuple(B(t) for t in r.get("tags", [])))


@st.composite
def circuit_on(draw, reg_, depth=1, frozen=None, max_moments=3):
    form = draw(st.sampled_from(["moments", "ops"]))
    r = {"T": "Circuit", "frozen": draw(st.booleans()) if frozen is None else frozen, "form": form}
    if form == "moments":
        r["moments"] = draw(st.lists(moment_on(reg_, depth), min_size=0, max_size=max_moments))
    else:
        r["ops"] = draw(st.lists(op_on(reg_, depth), min_size=0, max_size=5))
        r["ins"] = draw(st.sampled_from(["EARLIEST", "NEW", "NEW_THEN_INLINE"]))
    if draw(st.integers(0, 3)) == 0:
        r["tags"] = draw(tags())
    return r


@reg("Circuit", lambda: _reg_strategy(1, 4).flatmap(lambda rg: circuit_on(rg, 1)), emits=["Circuit", "FrozenCircuit"])
def _b_circuit(r):
    cirq = _cirq()
    if r.get("form") == "ops":
        c = cirq.Circuit()
        for o in r.get("ops", []):
            c.append(B(o), strategy=getattr(cirq.InsertStrategy, r.get("ins", "EARLIEST")))
    else:
        c = cirq.Circuit([B(m) for m in r.get("moments", [])])
    if r.get("tags"):
        c = c.with_tags(*[B(t) for t in r["tags"]])
    if r.get("frozen"):
        # FrozenCircuit promises hashability: keep only hashable operations (KrausChannel & co are unhashable by design)
        c = cirq.Circuit([cirq.Moment([o for o in m.operations if _hashable(o)], tags=m.tags) for m in c], tags=c.tags)
        return c.freeze()
    return c


def _hashable(o):
    try:
        hash(o)
        return True
    except TypeError:
        return False


def frozen_on(reg_, depth=0, max_moments=2):
    return circuit_on(reg_, depth, frozen=True, max_moments=max_moments)


@st.composite
def circuit_op(draw, reg_, depth=0, no_measure=False):
    """CircuitOperation over (a subset of) reg_ with every optional field drawn at / away from its default."""
    import cirq

    k = draw(st.integers(1, min(3, len(reg_))))
    sub_w = sorted(draw(st.permutations(list(range(len(reg_)))))[:k])
    sub_reg = [reg_[i] for i in sub_w]
    fc = draw(frozen_on(sub_reg, depth))
    if no_measure:
        fc = _strip_measure(fc)
    r = {"T": "CircuitOperation", "circuit": fc}
    try:  # probing the drawn body must never raise out of the strategy (that would kill the whole shard)
        c = B(fc)
        keys = sorted(str(kk) for kk in cirq.measurement_key_objs(c))
        syms = sorted(n for n in cirq.parameter_names(c) if n != "nrep")
    except Exception:
        hypothesis.reject()
    used = set(sub_w)
    # qubit map onto unused wires of the same dimension
    if draw(st.booleans()):
        qm = []
        for i in sub_w:
            cand = [j for j in range(len(reg_)) if j not in used and qid_dim(reg_[j]) == qid_dim(reg_[i])]
            if cand and draw(st.booleans()):
                j = draw(st.sampled_from(cand))
                used.add(j)
                qm.append([reg_[i], reg_[j]])
        if qm:
            r["qubit_map"] = qm
    plain = [kk for kk in keys if ":" not in kk]
    if plain and draw(st.booleans()):
        r["measurement_key_map"] = [[kk, draw(st.sampled_from(["mapped", "m2", kk + "_x"]))] for kk in plain[: draw(st.integers(1, len(plain)))]]
    if syms and draw(st.booleans()):
        # values that are valid wherever a symbol may stand (unit coefficient, probability, exponent, duration) or another symbol
        r["param_resolver"] = [[{"T": "S", "op": "sym", "n": s} if draw(st.booleans()) else s, draw(st.one_of(st.sampled_from([1.0, 1]), _ssym()))]
                               for s in syms[: draw(st.integers(1, len(syms)))]]
    mode = draw(st.sampled_from(["plain", "reps", "reps", "reps_ids", "sym_reps", "until"]))
    invertible = True
    try:
        cirq.inverse(c.unfreeze())
    except Exception:  # probe only: anything but a clean inverse means "do not draw negative repetitions"
        invertible = False
    if mode == "reps":
        r["repetitions"] = draw(st.sampled_from([0, 2, 3, -1, -2] if invertible else [0, 2, 3]))
        r["use_repetition_ids"] = draw(st.sampled_from([None, True, False]))
    elif mode == "reps_ids":
        n = draw(st.sampled_from([1, 2, 3, -2] if invertible else [1, 2, 3]))
        r["repetitions"] = n
        r["repetition_ids"] = draw(st.lists(st.sampled_from(PATHS + ["a", "b", "c"]), min_size=abs(n), max_size=abs(n), unique=True))
        r["use_repetition_ids"] = draw(st.sampled_from([None, True, False]))
    elif mode == "sym_reps":
        r["repetitions"] = draw(st.sampled_from([{"T": "S", "op": "sym", "n": "nrep"},
                                                   {"T": "S", "op": "mul", "a": [{"T": "S", "op": "sym", "n": "nrep"}, {"T": "S", "op": "int", "v": 2}]}]))
        r["use_repetition_ids"] = draw(st.sampled_from([None, False]))
    elif mode == "until" and plain and not no_measure:
        # (scoped keys / parent paths under repeat_until are C12's domain: the constructor's own key scoping then decides)
        kk = draw(st.sampled_from(plain))
        kobj = cirq.MeasurementKey.parse_serialized(kk)
        kr = {"T": "mkey", "n": kobj.name, "p": list(kobj.path)}
        r["repeat_until"] = draw(st.one_of(
            st.just({"T": "KeyCondition", "k": kr, "i": draw(st.sampled_from([-1, 0]))}),
            st.just({"T": "BitMaskKeyCondition", "k": kr, "i": -1, "tv": draw(st.integers(0, 2)), "eq": draw(st.booleans()), "bm": draw(st.one_of(st.none(), st.integers(1, 3)))}),
            st.just({"T": "SympyCondition", "e": {"T": "S", "op": "gt", "a": [{"T": "S", "op": "sym", "n": kk}, {"T": "S", "op": "int", "v": 0}]}}) if kk.isidentifier() else st.nothing()))
        r["use_repetition_ids"] = False
        r.pop("measurement_key_map", None)
    if draw(st.integers(0, 2)) == 0 and "repeat_until" not in r:
        r["parent_path"] = draw(st.lists(st.sampled_from(PATHS), min_size=1, max_size=2))
    r["_w"] = sorted(used)
    return r


def _strip_measure(fc):
    """remove measurement-like ops from a circuit recipe (for classically controlled sub-circuits)."""
    import cirq

    def keep(o):
        try:
            return not cirq.measurement_key_objs(B(o))
        except Exception:
            return False

    fc = dict(fc)
    if "moments" in fc:
        fc["moments"] = [dict(m, ops=[o for o in m["ops"] if keep(o)]) for m in fc["moments"]]
    if "ops" in fc:
        fc["ops"] = [o for o in fc["ops"] if keep(o)]
    return fc


@reg("CircuitOperation", lambda: _reg_strategy(1, 4).flatmap(lambda rg: circuit_op(rg, 1)), emits=["CircuitOperation"])
def _b_circop(r):
    cirq = _cirq()
    kwargs = {}
    if "qubit_map" in r:
        kwargs["qubit_map"] = {B(a): B(b) for a, b in r["qubit_map"]}
    if "measurement_key_map" in r:
        kwargs["measurement_key_map"] = {a: b for a, b in r["measurement_key_map"]}
    if "param_resolver" in r:
        kwargs["param_resolver"] = {B(a): B(b) for a, b in r["param_resolver"]}
    for k in ("repetitions", "repeat_until"):
        if k in r:
            kwargs[k] = B(r[k])
    if r.get("repetition_ids") is not None:
        kwargs["repetition_ids"] = list(r["repetition_ids"])
    if r.get("use_repetition_ids") is not None:
        kwargs["use_repetition_ids"] = r["use_repetition_ids"]
    if "parent_path" in r:
        kwargs["parent_path"] = tuple(r["parent_path"])
    body = B(r["circuit"])
    return cirq.CircuitOperation(body.freeze() if isinstance(body, cirq.Circuit) else body, **kwargs)  # (minimiser may flip "frozen")


@st.composite
def _shared_circuit(draw):
    """outer circuit that references the same FrozenCircuit / CircuitOperation objects several times (VAL/REF path)."""
    rg = draw(_reg_strategy(2, 4))
    n = draw(st.integers(1, 2))
    subs = [draw(circuit_op(rg, 0)) for _ in range(n)]
    uses = draw(st.lists(st.tuples(st.integers(0, n - 1), st.sampled_from(["same", "reps", "tag", "frozen_only"])), min_size=2, max_size=5))
    return {"T": "SharedCircuit", "subs": subs, "uses": [list(u) for u in uses], "frozen": draw(st.booleans()),
            "extra": draw(st.lists(op_on(rg, 0), max_size=2))}


@reg("SharedCircuit", _shared_circuit, emits=["Circuit", "FrozenCircuit", "CircuitOperation"])
def _b_shared(r):
    cirq = _cirq()
    subs = [B(s) for s in r["subs"]]
    c = cirq.Circuit()
    for i, how in r["uses"]:
        s = subs[i % len(subs)]
        if how == "same":
            o = s
        elif how == "reps":
            o = cirq.CircuitOperation(s.circuit, repetitions=2)
        elif how == "tag":
            o = s.with_tags("shared")
        else:
            o = cirq.CircuitOperation(s.circuit)
        c.append(o, strategy=cirq.InsertStrategy.NEW)
    for o in r.get("extra", []):
        c.append(B(o))
    return c.freeze() if r.get("frozen") else c


# ------------------------------------------------------------------------------------------------ study: sweeps, resolvers, results


def sweep_key():
    return st.one_of(st.sampled_from(SYMS), _ssym())


def sweep_meta():
    return st.one_of(st.sampled_from(["meta", 3, 2.5]), S("DeviceParameter"), S("GMetadata"), S("Duration"))


def _points_vals():
    return st.lists(st.one_of(G.exponents(), st.integers(-3, 3)), min_size=0, max_size=4)


kw("Points", "cirq.Points", ["Points"], a=[sweep_key(), _points_vals()], opt=dict(metadata=sweep_meta()))
kw("Linspace", "cirq.Linspace", ["Linspace"], a=[sweep_key(), pfloat(), pfloat(), st.integers(0, 5)], opt=dict(metadata=sweep_meta()))
const("UnitSweep", "cirq.UnitSweep", ["_Unit"])


def _single_sweep(key, nonempty=False):
    if nonempty:
        return st.one_of(
            st.tuples(st.lists(st.one_of(G.exponents(), st.integers(-3, 3)), min_size=1, max_size=3), st.one_of(st.none(), sweep_meta())).map(
                lambda t: {"T": "Points", "c": "cirq.Points", "a": [key, t[0]], "kw": {} if t[1] is None else {"metadata": t[1]}}),
            st.tuples(pfloat(), pfloat(), st.integers(1, 4)).map(lambda t: {"T": "Linspace", "c": "cirq.Linspace", "a": [key, t[0], t[1], t[2]], "kw": {}}))
    return st.one_of(
        st.tuples(_points_vals(), st.one_of(st.none(), sweep_meta())).map(
            lambda t: {"T": "Points", "c": "cirq.Points", "a": [key, t[0]], "kw": {} if t[1] is None else {"metadata": t[1]}}),
        st.tuples(pfloat(), pfloat(), st.integers(0, 4)).map(lambda t: {"T": "Linspace", "c": "cirq.Linspace", "a": [key, t[0], t[1], t[2]], "kw": {}}))


@st.composite
def sweep(draw, depth=2, keys=None, nonempty=False):
    """sweep over a set of distinct keys (Product/Zip need disjoint keys; ZipLongest needs non-empty factors)."""
    keys = list(SYMS) if keys is None else keys
    if depth <= 0 or len(keys) <= 1 or draw(st.integers(0, 3)) == 0:
        if not keys or draw(st.integers(0, 9)) == 0:
            return {"T": "UnitSweep", "c": "cirq.UnitSweep"}
        k = keys[0]
        if draw(st.integers(0, 4)) == 0 and not nonempty:
            rs = draw(st.lists(S("ParamResolver"), max_size=3))
            return {"T": "ListSweep", "rs": rs}
        return draw(_single_sweep({"T": "S", "op": "sym", "n": k} if draw(st.booleans()) else k, nonempty))
    op_ = draw(st.sampled_from(["Product", "Zip", "ZipLongest", "Concat"]))
    n = draw(st.integers(1, 3))
    nonempty = nonempty or op_ == "ZipLongest"
    if op_ == "Concat":
        subs = [draw(_single_sweep(keys[0], nonempty)) for _ in range(n)]
    else:
        cut = sorted(draw(st.lists(st.integers(1, len(keys) - 1), min_size=min(n - 1, len(keys) - 1), max_size=min(n - 1, len(keys) - 1), unique=True)))
        parts = [keys[a:b] for a, b in zip([0] + cut, cut + [len(keys)])]
        subs = [draw(sweep(depth - 1, p, nonempty)) for p in parts if p]
        subs = [s for s in subs if s["T"] not in ("ListSweep",)]
        if not subs:
            subs = [draw(_single_sweep(keys[0], nonempty))]
    return {"T": op_, "subs": subs}


def _b_sweepop(r):
    cirq = _cirq()
    return getattr(cirq, r["T"])(*[B(s) for s in r["subs"]])


for _n in ["Product", "Zip", "ZipLongest", "Concat"]:
    BUILD[_n] = _b_sweepop
    STRAT[_n] = (lambda n: lambda: sweep(2).filter(lambda r: r["T"] == n))(_n)
    ROOTS.setdefault(_n, []).append(_n)
STRAT["sweep"] = sweep


@reg("ListSweep", lambda: st.lists(S("ParamResolver"), max_size=3).map(lambda rs: {"T": "ListSweep", "rs": rs}), emits=["ListSweep"])
def _b_listsweep(r):
    return _cirq().ListSweep([B(x) for x in r["rs"]])


@reg("ParamResolver", lambda: st.lists(st.tuples(st.one_of(st.sampled_from(SYMS), _ssym()), st.one_of(G.exponents(), st.integers(-2, 3), _ssym(), sexpr(1), S("cx"), S("np").filter(lambda r: r["k"] in ("float64", "int64")))),
                                       max_size=3, unique_by=lambda t: t[0]["n"] if isinstance(t[0], dict) else t[0]).map(
    lambda kv: {"T": "ParamResolver", "kv": [list(t) for t in kv]}), emits=["ParamResolver"])
def _b_resolver(r):
    return _cirq().ParamResolver({B(k): B(v) for k, v in r["kv"]})


@st.composite
def _records(draw):
    """{key: 3-d int array} as nested lists + dtype, binary or qudit-valued."""
    out = []
    reps = draw(st.integers(0, 4))
    for key in draw(st.lists(st.one_of(st.sampled_from(KEYS), st.sampled_from(["0:a", "r:1:m"])), min_size=0, max_size=3, unique=True)):
        inst = draw(st.integers(1, 2))
        nq = draw(st.integers(1, 9))
        hi = draw(st.sampled_from([1, 1, 1, 2, 7, 300]))
        dt = draw(st.sampled_from(["bool", "uint8", "int8", "int64", "int32", "uint16"])) if hi == 1 else draw(st.sampled_from(["int64", "uint16", "int32"] if hi > 100 else ["uint8", "int64", "int8"]))
        data = draw(st.lists(st.lists(st.lists(st.integers(0, hi), min_size=nq, max_size=nq), min_size=inst, max_size=inst), min_size=reps, max_size=reps))
        out.append([key, data, dt, [reps, inst, nq]])
    return out


def _b_records(recs, three_d=True):
    import numpy as np

    d = {}
    for key, data, dt, shape in recs:
        a = np.array(data, dtype=getattr(np, dt if dt != "bool" else "bool_")).reshape(shape)
        d[key] = a if three_d else a[:, 0, :]
    return d


@reg("ResultDict", lambda: st.fixed_dictionaries({"T": st.just("ResultDict"), "params": st.one_of(st.none(), S("ParamResolver")), "recs": _records(),
                                                 "form": st.sampled_from(["records", "records", "measurements"])}), emits=["ResultDict"])
def _b_result(r):
    cirq = _cirq()
    p = None if r.get("params") is None else B(r["params"])
    if r.get("form") == "measurements":
        return cirq.ResultDict(params=p, measurements=_b_records(r["recs"], three_d=False))
    return cirq.ResultDict(params=p, records=_b_records(r["recs"]))


@reg("EngineResult", lambda: STRAT["ResultDict"]().flatmap(lambda r: st.sampled_from(["job-1", "", "ü/j"]).map(lambda j: dict(r, T="EngineResult", job=j))),
     emits=["cirq.google.EngineResult"])
def _b_eresult(r):
    import cirq_google

    cirq = _cirq()
    p = None if r.get("params") is None else B(r["params"])
    if r.get("form") == "measurements":
        return cirq_google.EngineResult(job_id=r["job"], params=p, measurements=_b_records(r["recs"], three_d=False))
    return cirq_google.EngineResult(job_id=r["job"], params=p, records=_b_records(r["recs"]))


# ------------------------------------------------------------------------------------------------ linear dicts, sums, states


def coeff():
    return st.one_of(unit_complex(), S("cx"), G.small_floats(), st.integers(-2, 3), _ssym())


@reg("LinearDict", lambda: st.lists(st.tuples(st.one_of(st.sampled_from(["X", "Y", "a", "", "ü"]), st.integers(0, 3)), st.one_of(S("cx"), G.small_floats().filter(lambda v: v != 0), _ssym())),
                                    max_size=4, unique_by=lambda t: str(t[0])).map(lambda kv: {"T": "LinearDict", "kv": [list(t) for t in kv]}), emits=["LinearDict"])
def _b_lindict(r):
    return _cirq().LinearDict({k: B(v) for k, v in r["kv"]})


@st.composite
def _pauli_sum(draw):
    qs = draw(qubits(1, 3))
    terms = []
    for _ in range(draw(st.integers(0, 4))):
        w = draw(st.lists(st.integers(0, len(qs) - 1), max_size=len(qs), unique=True))
        terms.append({"T": "PauliString", "q": [qs[i] for i in w], "p": draw(st.lists(st.sampled_from("XYZ"), min_size=len(w), max_size=len(w))),
                      "c": draw(st.one_of(S("cx"), G.small_floats().filter(lambda v: v != 0), unit_complex()))})
    return {"T": "PauliSum", "terms": terms}


@reg("PauliSum", _pauli_sum, emits=["PauliSum"])
def _b_psum(r):
    cirq = _cirq()
    s = cirq.PauliSum()
    for t in r["terms"]:
        s += B(t)
    return s


@st.composite
def _projector(draw, qs=None):
    qs = qs if qs is not None else draw(qubits(1, 3))
    w = draw(st.lists(st.integers(0, len(qs) - 1), max_size=len(qs), unique=True))
    return {"T": "ProjectorString", "kv": [[qs[i], draw(st.integers(0, qid_dim(qs[i]) - 1))] for i in w],
            "c": draw(st.one_of(st.just(1), S("cx"), G.small_floats().filter(lambda v: v != 0)))}


@reg("ProjectorString", _projector, emits=["ProjectorString"])
def _b_proj(r):
    return _cirq().ProjectorString({B(q): v for q, v in r["kv"]}, coefficient=B(r["c"]))


@reg("ProjectorSum", lambda: qreg([2, 2, 2]).flatmap(lambda qs: st.lists(_projector(qs), max_size=3)).map(lambda ts: {"T": "ProjectorSum", "terms": ts}),
     emits=["ProjectorSum"])
def _b_projsum(r):
    cirq = _cirq()
    s = cirq.ProjectorSum()
    for t in r["terms"]:
        s += B(t)
    return s


KETS = ["KET_PLUS", "KET_MINUS", "KET_IMAG", "KET_MINUS_IMAG", "KET_ZERO", "KET_ONE"]
const("KetX", "cirq.KET_PLUS", ["_XEigenState"])
const("KetXm", "cirq.KET_MINUS", ["_XEigenState"])
const("KetY", "cirq.KET_IMAG", ["_YEigenState"])
const("KetYm", "cirq.KET_MINUS_IMAG", ["_YEigenState"])
const("KetZ", "cirq.KET_ZERO", ["_ZEigenState"])
const("KetZm", "cirq.KET_ONE", ["_ZEigenState"])


def product_state(qs=None):
    q = st.just(qs) if qs is not None else qubits(0, 3)
    return q.flatmap(lambda qq: st.lists(st.sampled_from(KETS), min_size=len(qq), max_size=len(qq)).map(
        lambda ks: {"T": "ProductState", "kv": [[a, b] for a, b in zip(qq, ks)]}))


@reg("ProductState", product_state, emits=["ProductState"])
def _b_pstate(r):
    cirq = _cirq()
    return cirq.ProductState({B(q): getattr(cirq, k) for q, k in r["kv"]})


@st.composite
def _init_obs(draw, qs=None):
    qs = qs if qs is not None else draw(qubits(1, 3))
    w = draw(st.lists(st.integers(0, len(qs) - 1), max_size=len(qs), unique=True))
    obs = {"T": "PauliString", "q": [qs[i] for i in w], "p": draw(st.lists(st.sampled_from("XYZ"), min_size=len(w), max_size=len(w))),
           "c": draw(st.sampled_from([1, -1, 0.5]))}
    return {"T": "InitObsSetting", "init": draw(product_state(qs)), "obs": obs}


@reg("InitObsSetting", _init_obs, emits=["InitObsSetting"])
def _b_initobs(r):
    import cirq.work as cw

    return cw.InitObsSetting(init_state=B(r["init"]), observable=B(r["obs"]))


def circuit_params():
    return st.lists(st.tuples(st.sampled_from(SYMS), st.one_of(G.exponents(), st.integers(0, 3))), max_size=2, unique_by=lambda t: t[0]).map(
        lambda kv: D_([list(t) for t in kv]))


@reg("MeasurementSpec", lambda: st.tuples(_init_obs(), circuit_params()).map(lambda t: {"T": "MeasurementSpec", "s": t[0], "p": t[1]}), emits=["_MeasurementSpec"])
def _b_mspec(r):
    import cirq.work as cw

    return cw._MeasurementSpec(max_setting=B(r["s"]), circuit_params=B(r["p"]))


kw("ObservableMeasuredResult", "cirq.work.ObservableMeasuredResult", ["ObservableMeasuredResult"],
   setting=_init_obs(), mean=pfloat(), variance=G.probs(), repetitions=st.integers(0, 10 ** 6), circuit_params=circuit_params())
kw("RepetitionsStoppingCriteria", "cirq.work.RepetitionsStoppingCriteria", ["RepetitionsStoppingCriteria"], total_repetitions=st.integers(1, 10 ** 6),
   opt=dict(repetitions_per_chunk=st.integers(1, 5000)))
kw("VarianceStoppingCriteria", "cirq.work.VarianceStoppingCriteria", ["VarianceStoppingCriteria"], variance_bound=G.probs(),
   opt=dict(repetitions_per_chunk=st.integers(1, 5000)))


@st.composite
def _bitstring_acc(draw):
    qs = draw(qubits(1, 3))
    ms = {"T": "MeasurementSpec", "s": draw(_init_obs(qs)), "p": draw(circuit_params())}
    n = len(qs)
    chunks = draw(st.lists(st.integers(1, 3), max_size=3))
    total = sum(chunks)
    return {"T": "BitstringAccumulator", "ms": ms, "ss": [draw(_init_obs(qs)) for _ in range(draw(st.integers(0, 2)))],
            "q2i": [[q, i] for i, q in enumerate(qs)],
            "bits": draw(st.lists(st.lists(st.integers(0, 1), min_size=n, max_size=n), min_size=total, max_size=total)),
            "chunks": chunks, "ts": draw(st.lists(st.integers(0, 2 ** 40), min_size=len(chunks), max_size=len(chunks)))}


@reg("BitstringAccumulator", _bitstring_acc, emits=["BitstringAccumulator"])
def _b_bsa(r):
    import numpy as np
    import cirq.work as cw

    n = len(r["q2i"])
    return cw.BitstringAccumulator(
        meas_spec=B(r["ms"]), simul_settings=[B(s) for s in r["ss"]], qubit_to_index={B(q): i for q, i in r["q2i"]},
        bitstrings=np.array(r["bits"], dtype=np.uint8).reshape(len(r["bits"]), n), chunksizes=np.array(r["chunks"], dtype=np.int64),
        timestamps=np.array(r["ts"], dtype="datetime64[us]"))


kw("GridInteractionLayer", "cirq.experiments.GridInteractionLayer", ["GridInteractionLayer"],
   opt=dict(col_offset=st.integers(0, 3), vertical=st.booleans(), stagger=st.booleans()))
kw("LineTopology", "cirq.LineTopology", ["LineTopology"], a=[st.integers(2, 9)])
kw("TiltedSquareLattice", "cirq.TiltedSquareLattice", ["TiltedSquareLattice"], a=[st.integers(1, 5), st.integers(1, 5)])
kw("XEBOptions", "cirq.experiments.XEBPhasedFSimCharacterizationOptions", ["XEBPhasedFSimCharacterizationOptions"],
   opt=dict(characterize_theta=st.booleans(), characterize_zeta=st.booleans(), characterize_chi=st.booleans(), characterize_gamma=st.booleans(),
            characterize_phi=st.booleans(), theta_default=pfloat(), zeta_default=pfloat(), chi_default=pfloat(), gamma_default=pfloat(), phi_default=pfloat()))


def qfloat_map(qs_strategy=None, vals=None):
    vals = vals or G.probs()
    return (qs_strategy or qubits(0, 3)).flatmap(lambda qq: st.lists(vals, min_size=len(qq), max_size=len(qq)).map(lambda vs: D_([[a, b] for a, b in zip(qq, vs)])))


kw("SingleQubitReadoutCalibrationResult", "cirq.experiments.SingleQubitReadoutCalibrationResult", ["SingleQubitReadoutCalibrationResult"],
   zero_state_errors=qfloat_map(), one_state_errors=qfloat_map(), repetitions=st.integers(0, 10 ** 5), timestamp=st.one_of(pfloat(), st.integers(0, 2 ** 31)))


@st.composite
def _tcm(draw):
    qs = draw(qubits(1, 4))
    # partition into patterns
    pats, i = [], 0
    while i < len(qs):
        k = draw(st.integers(1, min(2, len(qs) - i)))
        pats.append(qs[i:i + k])
        i += k
    cms = [A_(draw(_stochastic(2 ** len(p)))) for p in pats]
    single = len(pats) == 1 and draw(st.booleans())
    return {"T": "TensoredConfusionMatrices", "cms": cms[0] if single else cms, "qs": pats[0] if single else pats,
            "reps": draw(st.integers(0, 10 ** 5)), "ts": draw(st.one_of(pfloat(), st.integers(0, 2 ** 31)))}


@reg("TensoredConfusionMatrices", _tcm, emits=["TensoredConfusionMatrices"])
def _b_tcm(r):
    cirq = _cirq()
    return cirq.TensoredConfusionMatrices(B(r["cms"]), B(r["qs"]), repetitions=r["reps"], timestamp=r["ts"])


@st.composite
def _cdds(draw):
    keys = draw(st.lists(mkey(), min_size=0, max_size=3, unique_by=_k))
    recs, mq, ch, mt = [], [], [], []
    for k in keys:
        if draw(st.booleans()):
            qs = draw(qreg(draw(st.lists(st.sampled_from([2, 2, 3]), min_size=1, max_size=2))))
            n = draw(st.integers(1, 2))
            recs.append([k, [T_([draw(st.integers(0, qid_dim(q) - 1)) for q in qs]) for _ in range(n)]])
            mq.append([k, [T_(qs) for _ in range(n)]])
            mt.append([k, {"T": "MeasurementType", "v": 1}])
        else:
            ch.append([k, draw(st.lists(st.integers(0, 5), min_size=1, max_size=3))])
            mt.append([k, {"T": "MeasurementType", "v": 2}])
    return {"T": "ClassicalDataDictionaryStore", "recs": recs, "mq": mq, "ch": ch, "mt": mt, "explicit_types": draw(st.booleans())}


@reg("ClassicalDataDictionaryStore", _cdds, emits=["ClassicalDataDictionaryStore"])
def _b_cdds(r):
    cirq = _cirq()
    d = lambda kv: {B(k): B(v) for k, v in kv}
    return cirq.ClassicalDataDictionaryStore(_records=d(r["recs"]), _measured_qubits=d(r["mq"]), _channel_records=d(r["ch"]),
                                             _measurement_types=d(r["mt"]) if r.get("explicit_types") else None)


@reg("StabilizerStateChForm", lambda: st.integers(1, 3).flatmap(lambda n: st.fixed_dictionaries({
    "T": st.just("StabilizerStateChForm"), "n": st.just(n), "init": st.integers(0, 2 ** n - 1),
    "ops": st.lists(st.tuples(st.sampled_from(["H", "S", "X", "Y", "Z", "CNOT", "CZ"]), st.integers(0, n - 1), st.integers(0, n - 1)).map(list), max_size=8)})),
     emits=["StabilizerStateChForm"])
def _b_chform(r):
    cirq = _cirq()
    n = r["n"]
    t = cirq.StabilizerStateChForm(n, initial_state=r.get("init", 0))
    for name, a, b in r["ops"]:
        a, b = a % n, b % n
        if name in ("CNOT", "CZ"):
            if a != b:
                getattr(t, "apply_cx" if name == "CNOT" else "apply_cz")(a, b)
        elif name == "S":
            t.apply_z(a, 0.5)
        else:
            getattr(t, "apply_" + name.lower())(a)
    return t


@reg("CliffordState", lambda: STRAT["StabilizerStateChForm"]().flatmap(lambda r: qubits(r["n"], r["n"]).map(lambda qs: {"T": "CliffordState", "ch": r, "qs": qs})),
     emits=["CliffordState"])
def _b_cstate(r):
    cirq = _cirq()
    return cirq.CliffordState({B(q): i for i, q in enumerate(r["qs"])}, initial_state=B(r["ch"]))


@reg("TwoQubitGateTabulation", lambda: st.fixed_dictionaries({
    "T": st.just("TwoQubitGateTabulation"), "v": _unitary_floats(4), "kak": st.lists(st.lists(G.small_floats(), min_size=3, max_size=3), min_size=1, max_size=3),
    "sq": st.lists(st.lists(st.tuples(_unitary_floats(2), _unitary_floats(2)).map(list), max_size=2), min_size=0, max_size=2),
    "inf": G.probs(), "summary": st.sampled_from(["sum", "", "ü\nline"]), "missed": st.lists(st.lists(G.small_floats(), min_size=3, max_size=3), max_size=2)}),
     emits=["TwoQubitGateTabulation"])
def _b_tabulation(r):
    import numpy as np
    from vf.ref import linalg as L

    cirq = _cirq()
    kak = np.array(r["kak"], dtype=float).reshape(-1, 3)
    sq = [[(L.random_unitary_from_floats(a, 2), L.random_unitary_from_floats(b, 2)) for a, b in row] for row in r["sq"]]
    sq = (sq + [[]] * len(kak))[: len(kak)]
    return cirq.TwoQubitGateTabulation(L.random_unitary_from_floats(r["v"], 4), kak, sq, r["inf"], r["summary"],
                                       tuple(np.array(m, dtype=float) for m in r["missed"]))


# ------------------------------------------------------------------------------------------------ gate families / gatesets

GATE_TYPES = ["cirq.XPowGate", "cirq.YPowGate", "cirq.ZPowGate", "cirq.HPowGate", "cirq.CZPowGate", "cirq.CXPowGate", "cirq.ISwapPowGate",
              "cirq.PhasedXPowGate", "cirq.PhasedXZGate", "cirq.FSimGate", "cirq.MeasurementGate", "cirq.IdentityGate", "cirq.WaitGate",
              "cirq.ResetChannel", "cirq.MatrixGate", "cirq.GlobalPhaseGate", "cirq_google.SycamoreGate", "cirq_ionq.GPIGate", "cirq.Rz",
              "cirq.ops.common_channels.DepolarizingChannel", "cirq.SwapPowGate", "cirq.ZZPowGate", "cirq.PhasedFSimGate"]
EIGEN_TYPES = ["cirq.XPowGate", "cirq.YPowGate", "cirq.ZPowGate", "cirq.HPowGate", "cirq.CZPowGate", "cirq.CXPowGate", "cirq.ISwapPowGate",
               "cirq.SwapPowGate", "cirq.ZZPowGate", "cirq.XXPowGate", "cirq.CCZPowGate"]


def gate_type(paths=None):
    return st.sampled_from(paths or GATE_TYPES).map(lambda p: {"T": "CONST", "c": p})


def _float_params(r):
    """no numpy scalars / python ints as parameters: they leak into str(gate), which families use as default name."""
    return '"T": "np"' not in _k(r) and not (r.get("T") == "EG" and isinstance(r.get("e"), int)) and not any(
        isinstance(v, int) and not isinstance(v, bool) for v in r.get("kw", {}).values())


def _no_sym(r):
    return '"T": "S"' not in _k(r)


def hashable_gate():
    """non-parameterised gate instances usable as GateFamily targets / in frozensets (hashable, JSON-able)."""
    return _hashable_gate().filter(_no_sym)


def _hashable_gate():
    # numpy scalars / python ints leak into str(gate), which GateFamily uses as its default name ("CZ**3" vs "CZ**3.0")
    return _hashable_gate0().filter(lambda r: '"T": "np"' not in _k(r) and not (r.get("T") == "EG" and isinstance(r.get("e"), int)))


def _hashable_gate0():
    return st.one_of(family_gate(lambda f: f.name in FAMILY_EMITS and not f.name.startswith("Matrix") and f.name not in ("QuditMatrix", "QuditMatrix2")),
                     S("EG"), S("PhasedXZGate"), S("FSimGate"), S("SycamoreGate"), S("Pauli"), S("MeasurementGate").map(lambda r: dict(r, cm=None)))


def family_tags():
    return st.lists(st.one_of(st.sampled_from(["t", "ü", 3]), S("PhysicalZTag"), S("VirtualTag"), S("CalibrationTag")), min_size=1, max_size=2, unique_by=_k)


@st.composite
def gate_family(draw):
    r = {"T": "GateFamily", "gate": draw(st.one_of(gate_type(), gate_type(), hashable_gate())), "kw": {}}
    if draw(st.booleans()):
        r["kw"]["name"] = draw(st.sampled_from(["fam", "my family", "ü"]))
    if draw(st.booleans()):
        r["kw"]["description"] = draw(st.sampled_from(["desc", "two\nlines", ""]))
    if draw(st.booleans()):
        r["kw"]["ignore_global_phase"] = draw(st.booleans())
    mode = draw(st.sampled_from(["none", "none", "accept", "ignore"]))
    if mode == "accept":
        r["kw"]["tags_to_accept"] = draw(family_tags())
    elif mode == "ignore":
        r["kw"]["tags_to_ignore"] = draw(family_tags())
    return r


@reg("GateFamily", gate_family, emits=["GateFamily"])
def _b_gatefamily(r):
    return _cirq().GateFamily(B(r["gate"]), **{k: B(v) for k, v in r["kw"].items()})


kw("AnyUnitaryGateFamily", "cirq.AnyUnitaryGateFamily", ["AnyUnitaryGateFamily"], opt=dict(num_qubits=st.integers(1, 4)))
kw("AnyIntegerPowerGateFamily", "cirq.AnyIntegerPowerGateFamily", ["AnyIntegerPowerGateFamily"], a=[gate_type(EIGEN_TYPES)])
kw("ParallelGateFamily", "cirq.ParallelGateFamily", ["ParallelGateFamily"],
   a=[st.one_of(gate_type(["cirq.XPowGate", "cirq.ZPowGate", "cirq.HPowGate", "cirq.PhasedXZGate", "cirq.MeasurementGate"]), gate1u().filter(_no_sym).filter(_float_params))],
   opt=dict(name=st.sampled_from(["pfam", "ü"]), description=st.sampled_from(["d", ""]), max_parallel_allowed=st.integers(1, 5)))
FSIM_TYPES = ["cirq.FSimGate", "cirq.PhasedFSimGate", "cirq.ISwapPowGate", "cirq.PhasedISwapPowGate", "cirq.CZPowGate", "cirq.IdentityGate"]


def _fsim_accept():
    inst = st.one_of(st.tuples(G.rads(), G.rads()).map(lambda t: {"T": "FSimGate", "c": "cirq.FSimGate", "kw": {"theta": t[0], "phi": t[1]}}),
                     G.exponents().map(lambda e: {"T": "EG", "cls": "CZPowGate", "e": e, "s": 0.0, "d": 2}),
                     G.exponents().map(lambda e: {"T": "EG", "cls": "ISwapPowGate", "e": e, "s": 0.0, "d": 2}),
                     st.just({"T": "IdentityGate", "n": 2}))
    return st.lists(st.one_of(gate_type(FSIM_TYPES), inst), max_size=3, unique_by=_k)


kw("FSimGateFamily", "cirq_google.FSimGateFamily", ["FSimGateFamily"],
   opt=dict(gates_to_accept=_fsim_accept(), gate_types_to_check=st.lists(gate_type(FSIM_TYPES), min_size=1, max_size=3, unique_by=_k),
            allow_symbols=st.booleans(), atol=st.sampled_from([1e-6, 1e-3, 0.0])))


def any_family():
    return st.one_of(S("GateFamily"), S("GateFamily"), S("AnyUnitaryGateFamily"), S("AnyIntegerPowerGateFamily"), S("ParallelGateFamily"), S("FSimGateFamily"))


def gateset_members():
    return st.lists(st.one_of(gate_type(), hashable_gate(), any_family()), max_size=4, unique_by=_k)


kw("Gateset", "cirq.Gateset", ["Gateset"], a=[], opt=dict(name=st.sampled_from(["gs", "my set", "ü"]), unroll_circuit_op=st.booleans()))
STRAT["Gateset"] = (lambda f: lambda: st.tuples(f(), gateset_members()).map(lambda t: dict(t[0], a=t[1])))(STRAT["Gateset"])


def additional_gates():
    return st.lists(st.one_of(gate_type(), hashable_gate(), S("GateFamily")), min_size=1, max_size=3, unique_by=_k)


ATOLS = st.sampled_from([1e-8, 1e-6, 1e-3, 0.0])
kw("CZTargetGateset", "cirq.CZTargetGateset", ["CZTargetGateset"],
   opt=dict(atol=ATOLS, allow_partial_czs=st.booleans(), additional_gates=additional_gates(), preserve_moment_structure=st.booleans(), reorder_operations=st.booleans()))
STRAT["CZTargetGateset"] = (lambda f: lambda: f().map(
    lambda r: r if not (r["kw"].get("reorder_operations") and r["kw"].get("preserve_moment_structure", True)) else dict(r, kw=dict(r["kw"], preserve_moment_structure=False))))(STRAT["CZTargetGateset"])
kw("SqrtIswapTargetGateset", "cirq.SqrtIswapTargetGateset", ["SqrtIswapTargetGateset"],
   opt=dict(atol=ATOLS, required_sqrt_iswap_count=st.integers(0, 3), use_sqrt_iswap_inv=st.booleans(), additional_gates=additional_gates()))
kw("GoogleCZTargetGateset", "cirq_google.GoogleCZTargetGateset", ["cirq.google.GoogleCZTargetGateset"],
   opt=dict(atol=ATOLS, eject_paulis=st.booleans(), additional_gates=additional_gates()))
kw("SycamoreTargetGateset", "cirq_google.SycamoreTargetGateset", ["SycamoreTargetGateset"], opt=dict(atol=ATOLS, tabulation=S("TwoQubitGateTabulation")))
kw("AriaNativeGateset", "cirq_ionq.AriaNativeGateset", ["AriaNativeGateset"], opt=dict(atol=ATOLS))
kw("ForteNativeGateset", "cirq_ionq.ForteNativeGateset", ["ForteNativeGateset"], opt=dict(atol=ATOLS))
kw("IonQTargetGateset", "cirq_ionq.IonQTargetGateset", ["IonQTargetGateset"], opt=dict(atol=ATOLS))
kw("PasqalGateset", "cirq_pasqal.PasqalGateset", ["PasqalGateset"], opt=dict(include_additional_controlled_ops=st.booleans()))


def target_gateset():
    return st.one_of(S("CZTargetGateset"), S("SqrtIswapTargetGateset"), S("GoogleCZTargetGateset"), S("AriaNativeGateset"), S("IonQTargetGateset"))


# ------------------------------------------------------------------------------------------------ noise models / properties


@reg("OpIdentifier", lambda: st.tuples(gate_type(), qubits(0, 2)).map(lambda t: {"T": "OpIdentifier", "g": t[0], "q": t[1]}), emits=["OpIdentifier"])
def _b_opid(r):
    return _cirq().devices.noise_utils.OpIdentifier(B(r["g"]), *[B(q) for q in r["q"]])


kw("ConstantQubitNoiseModel", "cirq.ConstantQubitNoiseModel", ["ConstantQubitNoiseModel"],
   a=[st.one_of(S("BitFlipCh"), gate1u())], opt=dict(prepend=st.booleans()))
const("NoNoise", "cirq.NO_NOISE", ["_NoNoiseModel"])
const("UnconstrainedDevice", "cirq.UNCONSTRAINED_DEVICE", ["_UnconstrainedDevice"])


@st.composite
def _insertion_model(draw):
    qs = draw(qubits(1, 3))
    items = []
    for _ in range(draw(st.integers(0, 3))):
        ident = {"T": "OpIdentifier", "g": draw(gate_type()), "q": [qs[i] for i in draw(st.lists(st.integers(0, len(qs) - 1), max_size=2, unique=True))]}
        items.append([ident, draw(op_on(qs, 0))])
    uniq = {}
    for k, v in items:
        uniq.setdefault(_k(k), [k, v])
    r = {"T": "InsertionNoiseModel", "items": list(uniq.values()), "kw": {}}
    for f in ("prepend", "require_physical_tag"):
        if draw(st.booleans()):
            r["kw"][f] = draw(st.booleans())
    return r


@reg("InsertionNoiseModel", _insertion_model, emits=["InsertionNoiseModel"])
def _b_insertion(r):
    return _cirq().devices.InsertionNoiseModel(ops_added={B(k): B(v) for k, v in r["items"]}, **r["kw"])


def rate():
    return st.sampled_from([0.0, 1e-5, 2e-4, 1e-3, 0.25])


@st.composite
def _thermal(draw):
    qs = draw(qreg(draw(st.lists(st.sampled_from([2, 2, 3]), min_size=1, max_size=3))))
    durs = draw(st.lists(st.tuples(gate_type(), st.sampled_from([25.0, 12, 4000.0, 0.5])), max_size=3, unique_by=lambda t: t[0]["c"]))
    r = {"T": "ThermalNoiseModel", "qs": qs, "durs": [list(t) for t in durs], "kw": {}}
    for f in ("heat_rate_GHz", "cool_rate_GHz", "dephase_rate_GHz"):
        m = draw(st.sampled_from(["none", "scalar", "dict", "dict"]))
        if m == "scalar":
            r["kw"][f] = draw(rate())
        elif m == "dict":
            r["kw"][f] = D_([[q, draw(rate())] for q in qs])
    for f in ("require_physical_tag", "skip_measurements", "prepend"):
        if draw(st.booleans()):
            r["kw"][f] = draw(st.booleans())
    return r


@reg("ThermalNoiseModel", _thermal, emits=["ThermalNoiseModel"])
def _b_thermal(r):
    return _cirq().devices.ThermalNoiseModel(set(B(q) for q in r["qs"]), {B(k): v for k, v in r["durs"]}, **{k: B(v) for k, v in r["kw"].items()})


GNP_TYPES = ["cirq.ZPowGate", "cirq.PhasedXZGate", "cirq.MeasurementGate", "cirq.ResetChannel", "cirq.CZPowGate", "cirq.ISwapPowGate",
             "cirq.FSimGate", "cirq.PhasedFSimGate", "cirq_google.SycamoreGate", "cirq.IdentityGate", "cirq.WaitGate"]


@st.composite
def _google_noise_props(draw):
    qs = draw(grid_qubits(2, 3))
    pairs = [(0, 1)] + ([(1, 2)] if len(qs) > 2 and draw(st.booleans()) else [])
    gpe = []
    for t in ["cirq.ZPowGate", "cirq.PhasedXZGate", "cirq.MeasurementGate", "cirq.ResetChannel"]:
        for q in qs:
            gpe.append([{"T": "OpIdentifier", "g": {"T": "CONST", "c": t}, "q": [q]}, draw(st.sampled_from([1e-3, 2e-3, 0.0, 1e-2]))])
    two = draw(st.lists(st.sampled_from(["cirq.CZPowGate", "cirq.ISwapPowGate", "cirq.FSimGate", "cirq_google.SycamoreGate"]), min_size=1, max_size=3, unique=True))
    fsim = []
    for t in two:
        for a, b in pairs:
            e = draw(st.sampled_from([1e-2, 5e-3]))
            gpe.append([{"T": "OpIdentifier", "g": {"T": "CONST", "c": t}, "q": [qs[a], qs[b]]}, e])
            gpe.append([{"T": "OpIdentifier", "g": {"T": "CONST", "c": t}, "q": [qs[b], qs[a]]}, e])
            if draw(st.booleans()):
                g = {"T": "PhasedFSimGate", "c": "cirq.PhasedFSimGate", "kw": {"theta": draw(G.small_floats()), "phi": draw(G.small_floats())}}
                fsim.append([{"T": "OpIdentifier", "g": {"T": "CONST", "c": t}, "q": [qs[a], qs[b]]}, g])
                fsim.append([{"T": "OpIdentifier", "g": {"T": "CONST", "c": t}, "q": [qs[b], qs[a]]}, g])
    times = [[{"T": "CONST", "c": t}, draw(st.sampled_from([25.0, 12.0, 4000.0, 32]))] for t in GNP_TYPES]
    return {"T": "GoogleNoiseProperties", "times": times, "t1": D_([[q, draw(st.sampled_from([1e5, 2.5e4, 1e9]))] for q in qs]),
            "tphi": D_([[q, draw(st.sampled_from([2e5, 1e4, 1e10]))] for q in qs]),
            "ro": D_([[q, [draw(st.sampled_from([0.001, 0.01, 0.02])), draw(st.sampled_from([0.002, 0.03, 0.05]))]] for q in qs]),
            "gpe": gpe, "fsim": fsim, "validate": draw(st.booleans())}


@reg("GoogleNoiseProperties", _google_noise_props, emits=["GoogleNoiseProperties"])
def _b_gnp(r):
    import cirq_google

    return cirq_google.GoogleNoiseProperties(
        gate_times_ns={B(k): v for k, v in r["times"]}, t1_ns=B(r["t1"]), tphi_ns=B(r["tphi"]), readout_errors=B(r["ro"]),
        gate_pauli_errors={B(k): v for k, v in r["gpe"]}, fsim_errors={B(k): B(v) for k, v in r["fsim"]}, validate=r.get("validate", True))


@reg("NoiseModelFromNoiseProperties", lambda: _google_noise_props().map(lambda p: {"T": "NoiseModelFromNoiseProperties", "p": dict(p, validate=True)}),
     emits=["NoiseModelFromNoiseProperties"])
def _b_nmfnp(r):
    return _cirq().devices.NoiseModelFromNoiseProperties(B(r["p"]))


def _opt_qmap(vals):
    return st.one_of(st.none(), qfloat_map(qubits(1, 3), vals))


kw("PerQubitDepolNoise", "cirq_google.experimental.noise_models.PerQubitDepolarizingWithDampedReadoutNoiseModel",
   ["PerQubitDepolarizingWithDampedReadoutNoiseModel"], opt=dict(depol_probs=_opt_qmap(G.probs(0.5)), bitflip_probs=_opt_qmap(G.probs()), decay_probs=_opt_qmap(G.probs())))


def noise_model():
    return st.one_of(S("ConstantQubitNoiseModel"), S("NoNoise"), S("InsertionNoiseModel"), S("ThermalNoiseModel"), S("PerQubitDepolNoise"))


# ------------------------------------------------------------------------------------------------ devices / metadata


@st.composite
def _device_metadata(draw):
    qs = draw(qubits(1, 4))
    edges = draw(st.lists(st.tuples(st.integers(0, len(qs) - 1), st.integers(0, len(qs) - 1)).filter(lambda t: t[0] != t[1]), max_size=4, unique_by=lambda t: tuple(sorted(t))))
    extra = draw(qubits(0, 2))
    return {"T": "DeviceMetadata", "qs": qs, "edges": [list(e) for e in edges], "directed": draw(st.booleans()), "extra": extra}


@reg("DeviceMetadata", _device_metadata, emits=["DeviceMetadata"])
def _b_devmeta(r):
    import networkx as nx

    qs = [B(q) for q in r["qs"]]
    g = nx.DiGraph() if r.get("directed") else nx.Graph()
    g.add_nodes_from(qs)
    for a, b in r["edges"]:
        g.add_edge(qs[a % len(qs)], qs[b % len(qs)])
    return _cirq().DeviceMetadata(qs + [B(q) for q in r.get("extra", []) if B(q) not in qs], g)


@st.composite
def _grid_metadata(draw):
    qs = draw(grid_qubits(2, 4))
    pairs = draw(st.lists(st.tuples(st.integers(0, len(qs) - 1), st.integers(0, len(qs) - 1)).filter(lambda t: t[0] != t[1]), min_size=0, max_size=4, unique_by=lambda t: tuple(sorted(t))))
    fams = draw(st.lists(any_family(), min_size=1, max_size=3, unique_by=_k))
    r = {"T": "GridDeviceMetadata", "pairs": [[qs[a], qs[b]] for a, b in pairs], "fams": fams, "gs_name": draw(st.one_of(st.none(), st.just("gs")))}
    if draw(st.booleans()):
        k = draw(st.integers(0, len(fams)))
        r["durs"] = [[f, draw(S("Duration"))] for f in fams[:k]]
    if draw(st.booleans()):
        r["all"] = qs + draw(grid_qubits(0, 2))
    if draw(st.booleans()):
        r["ctg"] = draw(st.lists(target_gateset(), min_size=1, max_size=2, unique_by=_k))
    if draw(st.booleans()):
        r["attrs"] = [[q, D_([[a, draw(st.one_of(st.integers(0, 5), G.small_floats(), st.sampled_from(["s", "ü"])))] for a in draw(st.lists(st.sampled_from(["freq", "kind", "z"]), max_size=2, unique=True))])]
                      for q in qs[: draw(st.integers(0, len(qs)))]]
    return r


@reg("GridDeviceMetadata", _grid_metadata, emits=["GridDeviceMetadata"])
def _b_gridmeta(r):
    cirq = _cirq()
    fams = [B(f) for f in r["fams"]]
    gs = cirq.Gateset(*fams, name=r.get("gs_name"))
    all_q = None
    if "all" in r:
        seen, all_q = set(), []
        for q in [B(q) for q in r["all"]] + [B(q) for p in r["pairs"] for q in p]:
            if q not in seen:
                seen.add(q)
                all_q.append(q)
    durs = None if "durs" not in r else {B(f): B(d) for f, d in r["durs"]}
    if durs is not None and not set(durs).issubset(gs.gates):
        raise OutOfDomain("duration family deduplicated away by the gateset")
    return cirq.GridDeviceMetadata([(B(a), B(b)) for a, b in r["pairs"]], gs, durs, all_q,
                                   [B(g) for g in r.get("ctg", [])], None if "attrs" not in r else {B(q): B(a) for q, a in r["attrs"]})


@reg("GridDevice", lambda: _grid_metadata().map(lambda m: {"T": "GridDevice", "m": m}), emits=["cirq.google.GridDevice"])
def _b_griddevice(r):
    import cirq_google

    return cirq_google.GridDevice(B(r["m"]))


def _same_type_qubits():
    return st.one_of(qubits(0, 4, ["line"]), qubits(0, 4, ["grid"]), qubits(0, 4, ["named"]),
                     st.lists(st.tuples(st.integers(0, 5), st.integers(0, 5), st.integers(0, 2)), max_size=4, unique=True).map(
                         lambda ts: [{"T": "ThreeDQubit", "x": a, "y": b, "z": c, "d": 2} for a, b, c in ts]),
                     st.lists(st.tuples(st.integers(0, 5), st.integers(0, 5)), max_size=4, unique=True).map(
                         lambda ts: [{"T": "TwoDQubit", "x": a, "y": b, "d": 2} for a, b in ts]))


kw("PasqalDevice", "cirq_pasqal.PasqalDevice", ["PasqalDevice"], a=[qubits(0, 4, ["named"])])


@reg("PasqalVirtualDevice", lambda: st.tuples(st.one_of(qubits(0, 4, ["line"]), qubits(0, 4, ["grid"]), _same_type_qubits().filter(lambda q: not q or q[0]["T"] == "ThreeDQubit")),
                                              st.sampled_from([0.0, 0.5, 1.0, 1.5, 2.75])).map(lambda t: {"T": "PasqalVirtualDevice", "qs": t[0], "r": t[1]}),
     emits=["PasqalVirtualDevice"])
def _b_pvd(r):
    import cirq_pasqal

    qs = [B(q) for q in r["qs"]]
    return cirq_pasqal.PasqalVirtualDevice(control_radius=r["r"], qubits=qs)


# ------------------------------------------------------------------------------------------------ cirq_google misc / workflow

kw("DeviceParameter", "cirq_google.study.DeviceParameter", ["cirq.google.DeviceParameter"],
   path=st.lists(st.sampled_from(["q0_1", "readout", "freq", "ü", ""]), min_size=1, max_size=3),
   opt=dict(idx=st.integers(0, 5), value=st.one_of(G.small_floats(), st.integers(-3, 3), st.sampled_from(["v", ""]), st.lists(st.integers(0, 3), max_size=2)),
            units=st.sampled_from(["GHz", "ns", ""])))
kw("GMetadata", "cirq_google.study.Metadata", ["cirq.google.Metadata"],
   opt=dict(device_parameters=st.lists(S("DeviceParameter"), max_size=2), is_const=st.booleans(), label=st.sampled_from(["lbl", "", "ü"]),
            unit=st.sampled_from(["ns", "GHz", ""])))
kw("AnalogDetuneQubit", "cirq_google.AnalogDetuneQubit", ["AnalogDetuneQubit"], length=st.one_of(st.integers(1, 50), _ssym()), w=st.one_of(st.integers(1, 9), G.small_floats(), _ssym()),
   opt=dict(target_freq=st.one_of(pfloat(), _ssym()), prev_freq=st.one_of(pfloat(), _ssym()),
            neighbor_coupler_g_dict=st.dictionaries(st.sampled_from(["c_q0_0_q0_1", "c2"]), st.one_of(G.small_floats(), _ssym()), max_size=2).map(lambda d: D_(list(d.items()))),
            prev_neighbor_coupler_g_dict=st.dictionaries(st.sampled_from(["c_q0_0_q0_1", "c2"]), st.one_of(G.small_floats(), _ssym()), max_size=2).map(lambda d: D_(list(d.items()))),
            linear_rise=st.booleans()))


def _freq_pair():
    f = st.one_of(st.none(), G.small_floats(), st.integers(1, 9), _ssym())
    return st.tuples(f, f).map(lambda t: T_(list(t)))


kw("AnalogDetuneCouplerOnly", "cirq_google.AnalogDetuneCouplerOnly", ["AnalogDetuneCouplerOnly"],
   length=st.one_of(st.integers(1, 50), _ssym()), w=st.one_of(st.integers(1, 9), _ssym()), g_0=st.one_of(G.small_floats(), _ssym()), g_max=st.one_of(G.small_floats(), _ssym()),
   opt=dict(g_ramp_exponent=tparam(), neighbor_qubits_freq=_freq_pair(), prev_neighbor_qubits_freq=_freq_pair(), interpolate_coupling_cal=st.booleans(),
            analog_cal_for_pulseshaping=st.booleans()))
kw("WaitGateWithUnit", "cirq_google.WaitGateWithUnit", ["WaitGateWithUnit"], a=[_ssym()], opt=dict(num_qubits=st.integers(1, 3)))
kw("WaitGateWithUnitShape", "cirq_google.WaitGateWithUnit", ["WaitGateWithUnit"], a=[_ssym()], qid_shape=_shape().map(T_))


@st.composite
def _calibration(draw):
    metrics = []
    for name in draw(st.lists(st.sampled_from(["xeb", "t1", "two_qubit_xeb", "globalMetric", "ü"]), max_size=3, unique=True)):
        for _ in range(draw(st.integers(1, 2))):
            targets = draw(st.lists(st.sampled_from(["0_0", "0_1", "1_0", "q0_1", "phys"]), max_size=2, unique=True))
            vals = draw(st.lists(st.one_of(st.sampled_from([0.5, 0.25, 1e-3, 2.0]).map(lambda v: {"doubleVal": v}), st.integers(0, 100).map(lambda v: {"int64Val": str(v)}),
                                           st.sampled_from(["s", "A"]).map(lambda v: {"strVal": v})), min_size=1, max_size=2))
            metrics.append({"name": name, "targets": targets, "values": vals})
    seen, out = set(), []
    for m in metrics:
        key = (m["name"], tuple(m["targets"]))
        if not m["targets"]:
            key = (m["name"], "no-target")
        if key not in seen:
            seen.add(key)
            out.append(m)
    bare = {m["name"] for m in out if not m["targets"]}
    out = [m for m in out if not (m["name"] in bare and m["targets"])]
    return {"T": "Calibration", "ts": draw(st.integers(0, 2 ** 40)), "metrics": out}


@reg("Calibration", _calibration, emits=["Calibration"])
def _b_calibration(r):
    import cirq_google
    from cirq_google.api import v2
    from google.protobuf import json_format

    d = {"metrics": r["metrics"]}
    if r.get("ts"):
        d["timestampMs"] = str(r["ts"])
    return cirq_google.Calibration(json_format.ParseDict(d, v2.metrics_pb2.MetricsSnapshot()))


@reg("CalibrationLayer", lambda: _reg_strategy(1, 3).flatmap(lambda rg: circuit_on(rg, 0, frozen=False)).flatmap(lambda c: st.fixed_dictionaries({
    "T": st.just("CalibrationLayer"), "type": st.sampled_from(["xeb", "readout", ""]), "program": st.just(c),
    "args": st.dictionaries(st.sampled_from(["type", "n", "ü"]), st.one_of(st.sampled_from(["fsim", ""]), G.small_floats(), st.integers(0, 9)), max_size=2)})),
     emits=["CalibrationLayer"])
def _b_callayer(r):
    import cirq_google

    return cirq_google.CalibrationLayer(r["type"], B(r["program"]), dict(r["args"]))


kw("BitstringsMeasurement", "cirq_google.workflow.BitstringsMeasurement", ["cirq.google.BitstringsMeasurement"], n_repetitions=st.integers(0, 10 ** 6))
kw("EngineProcessorRecord", "cirq_google.workflow.EngineProcessorRecord", ["cirq.google.EngineProcessorRecord"], processor_id=st.sampled_from(["rainbow", "", "ü"]))
kw("SimulatedProcessorRecord", "cirq_google.workflow.SimulatedProcessorRecord", ["cirq.google.SimulatedProcessorRecord"],
   processor_id=st.sampled_from(["rainbow", "weber"]), opt=dict(noise_strength=st.sampled_from([0.001, 0.5, float("inf"), 1])))
kw("SimulatedProcessorWithLocalDeviceRecord", "cirq_google.workflow.SimulatedProcessorWithLocalDeviceRecord",
   ["cirq.google.SimulatedProcessorWithLocalDeviceRecord"], processor_id=st.sampled_from(["rainbow", "weber"]),
   opt=dict(noise_strength=st.sampled_from([0.001, 0.5, float("inf"), 1])))
kw("NaiveQubitPlacer", "cirq_google.workflow.NaiveQubitPlacer", ["cirq.google.NaiveQubitPlacer"])
kw("RandomDevicePlacer", "cirq_google.workflow.RandomDevicePlacer", ["cirq.google.RandomDevicePlacer"])


def topology():
    return st.one_of(S("LineTopology"), S("TiltedSquareLattice"))


def _kv_value():
    return st.one_of(st.integers(-3, 3), G.small_floats(), st.sampled_from(["v", ""]), st.booleans(), S("Duration"), S("LineQubit"))


kw("KeyValueExecutableSpec", "cirq_google.workflow.KeyValueExecutableSpec", ["cirq.google.KeyValueExecutableSpec"],
   executable_family=st.sampled_from(["fam", "cirq.example", ""]),
   opt=dict(key_value_pairs=st.lists(st.tuples(st.sampled_from(["n", "depth", "ü"]), _kv_value()), max_size=3, unique_by=lambda t: t[0]).map(
       lambda kv: T_([T_(list(t)) for t in kv]))))


@st.composite
def _hardcoded_placer(draw):
    topos = draw(st.lists(topology(), min_size=0, max_size=2, unique_by=_k))
    mapping = []
    for t in topos:
        nodes = draw(st.lists(st.one_of(st.integers(0, 5), st.tuples(st.integers(0, 3), st.integers(0, 3)).map(list)), min_size=0, max_size=3, unique_by=_k))
        qs = draw(qubits(len(nodes), len(nodes), ["grid"])) if nodes else []
        mapping.append([t, [[n, q] for n, q in zip(nodes, qs)]])
    return {"T": "HardcodedQubitPlacer", "mapping": mapping}


@reg("HardcodedQubitPlacer", _hardcoded_placer, emits=["cirq.google.HardcodedQubitPlacer"])
def _b_hcplacer(r):
    import cirq_google

    return cirq_google.workflow.HardcodedQubitPlacer({B(t): {(tuple(n) if isinstance(n, list) else n): B(q) for n, q in pl} for t, pl in r["mapping"]})


def placer():
    return st.one_of(S("NaiveQubitPlacer"), S("RandomDevicePlacer"), S("HardcodedQubitPlacer"))


def processor_record():
    return st.one_of(S("EngineProcessorRecord"), S("SimulatedProcessorRecord"), S("SimulatedProcessorWithLocalDeviceRecord"))


kw("QuantumRuntimeConfiguration", "cirq_google.workflow.QuantumRuntimeConfiguration", ["cirq.google.QuantumRuntimeConfiguration"],
   processor_record=processor_record(),
   opt=dict(run_id=st.sampled_from(["run-1", "", "ü"]), random_seed=st.integers(0, 2 ** 31), qubit_placer=placer(), target_gateset=target_gateset()))


@st.composite
def _runtime_info(draw):
    r = {"T": "RuntimeInfo", "idx": draw(st.integers(0, 20))}
    if draw(st.booleans()):
        nodes = draw(st.lists(st.one_of(st.integers(0, 5), st.tuples(st.integers(0, 3), st.integers(0, 3)).map(list), st.sampled_from(["n0", "n1"])), min_size=0, max_size=3, unique_by=_k))
        qs = draw(qubits(len(nodes), len(nodes))) if nodes else []
        r["placement"] = [[n, q] for n, q in zip(nodes, qs)]
    if draw(st.booleans()):
        r["timings"] = draw(st.lists(st.tuples(st.sampled_from(["placement", "run", "ü"]), st.one_of(G.probs(), st.integers(0, 5))), max_size=3, unique_by=lambda t: t[0])).copy()
        r["timings"] = [list(t) for t in r["timings"]]
    return r


@reg("RuntimeInfo", _runtime_info, emits=["cirq.google.RuntimeInfo"])
def _b_rtinfo(r):
    import cirq_google

    kwargs = {}
    if "placement" in r:
        kwargs["qubit_placement"] = {(tuple(n) if isinstance(n, list) else n): B(q) for n, q in r["placement"]}
    if "timings" in r:
        kwargs["timings_s"] = {k: v for k, v in r["timings"]}
    return cirq_google.workflow.RuntimeInfo(execution_index=r["idx"], **kwargs)


@reg("datetime", lambda: st.tuples(st.integers(0, 2 ** 31), st.sampled_from([0, 500000, 123456, 1])).map(lambda t: {"T": "datetime", "s": t[0], "us": t[1]}),
     emits=["datetime.datetime"])
def _b_datetime(r):
    return datetime.datetime.fromtimestamp(r["s"], tz=datetime.timezone.utc) + datetime.timedelta(microseconds=r.get("us", 0))


def device():
    return st.one_of(S("UnconstrainedDevice"), S("GridDevice"), S("PasqalDevice"))


kw("SharedRuntimeInfo", "cirq_google.workflow.SharedRuntimeInfo", ["cirq.google.SharedRuntimeInfo"], run_id=st.sampled_from(["run-1", "", "ü"]),
   opt=dict(device=device(), run_start_time=S("datetime"), run_end_time=S("datetime")))


@st.composite
def _quantum_executable(draw):
    rg = draw(qubits(1, 3))
    r = {"T": "QuantumExecutable", "circuit": draw(circuit_on(rg, 0, frozen=True)), "meas": draw(S("BitstringsMeasurement")), "kw": {}}
    if draw(st.booleans()):
        r["kw"]["params"] = draw(st.one_of(S("ParamResolver"), st.lists(st.tuples(st.sampled_from(SYMS), G.exponents()), max_size=2, unique_by=lambda t: t[0]).map(
            lambda kv: T_([T_(list(t)) for t in kv]))))
    if draw(st.booleans()):
        r["kw"]["spec"] = draw(S("KeyValueExecutableSpec"))
    if draw(st.booleans()):
        r["kw"]["problem_topology"] = draw(topology())
    # initial_state is never drawn: QuantumExecutable.__hash__ (dataclasses.astuple) cannot hash a ProductState -> unconstructible
    return r


@reg("QuantumExecutable", _quantum_executable, emits=["cirq.google.QuantumExecutable"])
def _b_qexe(r):
    import cirq_google

    return cirq_google.workflow.QuantumExecutable(B(r["circuit"]), B(r["meas"]), **{k: B(v) for k, v in r["kw"].items()})


@reg("QuantumExecutableGroup", lambda: st.lists(_quantum_executable(), max_size=2).map(lambda es: {"T": "QuantumExecutableGroup", "es": es}),
     emits=["cirq.google.QuantumExecutableGroup"])
def _b_qexeg(r):
    import cirq_google

    return cirq_google.workflow.QuantumExecutableGroup([B(e) for e in r["es"]])


kw("ExecutableResult", "cirq_google.workflow.ExecutableResult", ["cirq.google.ExecutableResult"],
   spec=st.one_of(st.none(), S("KeyValueExecutableSpec")), runtime_info=S("RuntimeInfo"), raw_data=st.one_of(S("ResultDict"), S("EngineResult")))
kw("ExecutableGroupResult", "cirq_google.workflow.ExecutableGroupResult", ["cirq.google.ExecutableGroupResult"],
   runtime_configuration=S("QuantumRuntimeConfiguration"), shared_runtime_info=S("SharedRuntimeInfo"), executable_results=st.lists(S("ExecutableResult"), max_size=2))
kw("EGRFilesystemRecord", "cirq_google.workflow.ExecutableGroupResultFilesystemRecord", ["cirq.google.ExecutableGroupResultFilesystemRecord"],
   runtime_configuration_path=st.sampled_from(["a/b.json.gz", "ü"]), shared_runtime_info_path=st.sampled_from(["s.json.gz", ""]),
   executable_result_paths=st.lists(st.sampled_from(["r0.json.gz", "r1.json.gz"]), max_size=2), run_id=st.sampled_from(["run-1", ""]))


# ------------------------------------------------------------------------------------------------ pandas


def _pd_cell():
    return st.one_of(st.integers(-3, 9), G.small_floats(), st.sampled_from(["a", "ü", ""]))


@reg("pdIndex", lambda: st.fixed_dictionaries({"T": st.just("pdIndex"), "data": st.one_of(st.lists(st.integers(0, 9), max_size=4), st.lists(st.sampled_from(["a", "b", "ü"]), max_size=3),
                                                                                        st.lists(G.small_floats(), max_size=3)),
                                               "name": st.one_of(st.none(), st.sampled_from(["idx", "ü"]))}), emits=["pandas.Index"])
def _b_pdindex(r):
    import pandas as pd

    return pd.Index(r["data"], name=r.get("name"))


@reg("pdMultiIndex", lambda: st.integers(2, 3).flatmap(lambda k: st.fixed_dictionaries({
    "T": st.just("pdMultiIndex"), "tuples": st.lists(st.tuples(*[st.one_of(st.integers(0, 3), st.sampled_from(["a", "b"])) for _ in range(k)]).map(list), min_size=1, max_size=3),
    "names": st.lists(st.sampled_from(["l0", "l1", "l2", "ü"]), min_size=k, max_size=k, unique=True)})), emits=["pandas.MultiIndex"])
def _b_pdmulti(r):
    import pandas as pd

    return pd.MultiIndex.from_tuples([tuple(t) for t in r["tuples"]], names=r["names"])


@st.composite
def _dataframe(draw):
    ncol = draw(st.integers(1, 3))
    nrow = draw(st.integers(1, 3))  # an empty frame carries no dtypes (documented widening)
    cols = draw(st.lists(st.sampled_from(["a", "b", "c", "ü", "x y"]), min_size=ncol, max_size=ncol, unique=True))
    kinds = [draw(st.sampled_from(["int", "float", "str"])) for _ in range(ncol)]
    cell = {"int": st.integers(-3, 9), "float": G.small_floats(), "str": st.sampled_from(["a", "ü", ""])}
    data = [[draw(cell[k]) for k in kinds] for _ in range(nrow)]
    idx = draw(st.sampled_from(["default", "named", "multi"])) if nrow else "default"
    r = {"T": "DataFrame", "cols": cols, "data": data, "idx": idx}
    if idx == "named":
        r["index"] = {"T": "pdIndex", "data": draw(st.lists(st.integers(0, 50), min_size=nrow, max_size=nrow, unique=True)), "name": draw(st.sampled_from(["i", None]))}
    if idx == "multi":
        r["index"] = {"T": "pdMultiIndex", "tuples": [[i, draw(st.sampled_from(["a", "b"]))] for i in range(nrow)], "names": ["l0", "l1"]}
    return r


@reg("DataFrame", _dataframe, emits=["pandas.DataFrame"])
def _b_dataframe(r):
    import pandas as pd

    index = B(r["index"]) if "index" in r else None
    return pd.DataFrame(data=[list(row) for row in r["data"]], columns=list(r["cols"]), index=index)


# ------------------------------------------------------------------------------------------------ legacy documents (names resolved by functions / aliases)


class Legacy:
    """a document in an old format + the value it must read to."""

    def __init__(self, name, doc, expected, warns=False):
        self.name, self.doc, self.expected, self.warns = name, doc, expected, warns

    def text(self):
        return _cirq().to_json(self.doc)


def legacy(name, strat):
    def deco(fn):
        kind = "L:" + name
        BUILD[kind] = fn
        STRAT[kind] = lambda: strat().map(lambda r: dict(r, T=kind))
        LEGACY[name] = kind
        ROOTS.setdefault(name, []).append(kind)
        return fn

    return deco


def _retype(x, name):
    """the document of ``x`` with its root cirq_type replaced by an alias name."""
    import json

    cirq = _cirq()
    d = json.loads(cirq.to_json(x))
    if d.get("cirq_type") == "VAL":
        d = d["val"]
    d["cirq_type"] = name
    return d


class _RawDoc(dict):
    pass


def _alias(name, inner_kind, fix=lambda r: r):
    @legacy(name, lambda: STRAT[inner_kind]().map(lambda r: {"inner": fix(r)}))
    def _b(r, name=name):
        x = B(r["inner"])
        return Legacy(name, _retype(x, name), x)


_alias("CNotPowGate", "EG", lambda r: dict(r, cls="CXPowGate"))
_alias("CCNotPowGate", "EG", lambda r: dict(r, cls="CCXPowGate"))
_alias("Result", "ResultDict")
_alias("TrialResult", "ResultDict")
_alias("GateTabulation", "TwoQubitGateTabulation")


@legacy("GlobalPhaseOperation", lambda: st.one_of(unit_complex(), _ssym()).map(lambda c: {"c": c}))
def _l_gpo(r):
    cirq = _cirq()
    c = B(r["c"])
    return Legacy("GlobalPhaseOperation", {"cirq_type": "GlobalPhaseOperation", "coefficient": c}, cirq.global_phase_operation(c))


@legacy("IdentityOperation", lambda: _reg_strategy(1, 3).map(lambda q: {"q": q}))
def _l_idop(r):
    cirq = _cirq()
    qs = [B(q) for q in r["q"]]
    return Legacy("IdentityOperation", {"cirq_type": "IdentityOperation", "qubits": qs}, cirq.IdentityGate(qid_shape=tuple(q.dimension for q in qs)).on(*qs))


@legacy("ParallelGateOperation", lambda: st.tuples(gate1u(), qubits(1, 3)).map(lambda t: {"g": t[0], "q": t[1]}))
def _l_pgo(r):
    cirq = _cirq()
    g, qs = B(r["g"]), [B(q) for q in r["q"]]
    return Legacy("ParallelGateOperation", {"cirq_type": "ParallelGateOperation", "gate": g, "qubits": qs}, cirq.ParallelGate(g, len(qs)).on(*qs))


def _matrix_doc(u):
    return [[{"cirq_type": "complex", "real": float(v.real), "imag": float(v.imag)} for v in row] for row in u]


@legacy("SingleQubitMatrixGate", lambda: st.sampled_from([2, 3]).flatmap(lambda d: _unitary_floats(d).map(lambda v: {"d": d, "v": v})))
def _l_sqm(r):
    from vf.ref import linalg as L

    cirq = _cirq()
    u = L.random_unitary_from_floats(r["v"], r["d"])
    return Legacy("SingleQubitMatrixGate", {"cirq_type": "SingleQubitMatrixGate", "matrix": _matrix_doc(u)}, cirq.MatrixGate(u, qid_shape=(r["d"],)))


@legacy("TwoQubitMatrixGate", lambda: _unitary_floats(4).map(lambda v: {"v": v}))
def _l_tqm(r):
    from vf.ref import linalg as L

    cirq = _cirq()
    u = L.random_unitary_from_floats(r["v"], 4)
    return Legacy("TwoQubitMatrixGate", {"cirq_type": "TwoQubitMatrixGate", "matrix": _matrix_doc(u)}, cirq.MatrixGate(u, qid_shape=(2, 2)))


@legacy("SymmetricalQidPair", lambda: _reg_strategy(2, 2).map(lambda q: {"q": q}))
def _l_sqp(r):
    qs = [B(q) for q in r["q"]]
    return Legacy("SymmetricalQidPair", {"cirq_type": "SymmetricalQidPair", "qids": qs}, frozenset(qs))


@legacy("BooleanHamiltonian", lambda: STRAT["BooleanHamiltonianGate"]().flatmap(lambda g: qubits(len(g["a"][0]), len(g["a"][0])).map(lambda q: {"g": g, "q": q})))
def _l_bh(r):
    g = r["g"]
    names, qs = g["a"][0], [B(q) for q in r["q"]]
    gate = B(g)
    return Legacy("BooleanHamiltonian", {"cirq_type": "BooleanHamiltonian", "qubit_map": dict(zip(names, qs)),
                                         "boolean_strs": g["kw"]["boolean_strs"], "theta": g["kw"]["theta"]}, gate.on(*qs))


def _xeb_pairs():
    return st.lists(st.tuples(st.integers(0, 50), G.probs()).map(list), max_size=3)


@legacy("CrossEntropyResult", lambda: st.fixed_dictionaries({"data": _xeb_pairs(), "reps": st.integers(0, 10 ** 5), "purity": st.one_of(st.none(), _xeb_pairs())}))
def _l_xeb(r):
    from cirq import json_resolver_cache as jrc

    exp = jrc.CrossEntropyResult(data=[jrc.CrossEntropyPair(a, b) for a, b in r["data"]], repetitions=r["reps"],
                                 purity_data=None if r["purity"] is None else [jrc.SpecklePurityPair(a, b) for a, b in r["purity"]])
    doc = {"cirq_type": "CrossEntropyResult", "data": r["data"], "repetitions": r["reps"]}
    if r["purity"] is not None or r["reps"] % 2:
        doc["purity_data"] = r["purity"]
    return Legacy("CrossEntropyResult", doc, exp)


@legacy("CrossEntropyResultDict", lambda: st.lists(st.tuples(qubits(1, 2), st.fixed_dictionaries({"data": _xeb_pairs(), "reps": st.integers(0, 10 ** 5), "purity": st.none()})).map(list),
                                                  max_size=2, unique_by=lambda t: _k(t[0])).map(lambda items: {"items": items}))
def _l_xebd(r):
    from cirq import json_resolver_cache as jrc

    results, docs = {}, []
    for qs, res in r["items"]:
        leg = _l_xeb(res)
        qq = [B(q) for q in qs]
        results[tuple(qq)] = leg.expected
        docs.append([qq, leg.doc])
    return Legacy("CrossEntropyResultDict", {"cirq_type": "CrossEntropyResultDict", "results": docs}, jrc.CrossEntropyResultDict(results=results))


@legacy("_NamedConstantXmonDevice", lambda: st.sampled_from(["cirq.google.Foxtail", "cirq.google.Bristlecone", "x"]).map(lambda c: {"c": c}))
def _l_xmon(r):
    return Legacy("_NamedConstantXmonDevice", {"cirq_type": "_NamedConstantXmonDevice", "constant": r["c"]}, str(r["c"]), warns=True)


# ------------------------------------------------------------------------------------------------ roots, containers


def registered():
    """{name: factory} over the five resolver caches (the property's quantifier)."""
    import importlib

    out = {}
    for pkg in ["cirq", "cirq_google", "cirq_ionq", "cirq_aqt", "cirq_pasqal"]:
        m = importlib.import_module(pkg + ".json_resolver_cache")
        for k, v in m._class_resolver_dictionary().items():
            out.setdefault(k, (pkg, v))
    return out


# kinds registered under several names via emits=... produce these at the root only sometimes; kinds that serve a
# name exclusively are listed first so that every covered name has a *dedicated* strategy.
EXTRA_ROOTS = {
    "GateOperation": ["gop"], "SingleQubitPauliStringGateOperation": ["PauliOp"], "FrozenCircuit": ["FrozenCircuit"], "Circuit": ["MutableCircuit"],
    "CXPowGate": ["EG:CXPowGate"], "CCXPowGate": ["EG:CCXPowGate"],
}


def _fixed_cls(cls):
    return lambda: STRAT["EG"]().map(lambda r: dict(r, cls=cls))


for _c in EIGEN:
    STRAT["EG:" + _c] = _fixed_cls(_c)
    BUILD["EG:" + _c] = _b_EG
    ROOTS[_c] = ["EG:" + _c] + [k for k in ROOTS.get(_c, []) if k not in ("EG", "G")]
STRAT["PauliOp"] = lambda: st.tuples(S("Pauli"), qid(2)).map(lambda t: {"T": "gop", "g": t[0], "q": [t[1]]})
BUILD["PauliOp"] = _b_gop
STRAT["FrozenCircuit"] = lambda: _reg_strategy(1, 4).flatmap(lambda rg: circuit_on(rg, 1, frozen=True))
STRAT["MutableCircuit"] = lambda: _reg_strategy(1, 4).flatmap(lambda rg: circuit_on(rg, 1, frozen=False))
BUILD["FrozenCircuit"] = BUILD["MutableCircuit"] = _b_circuit
ROOTS["SingleQubitPauliStringGateOperation"] = ["PauliOp"]
ROOTS["FrozenCircuit"] = ["FrozenCircuit", "SharedCircuit"]
ROOTS["Circuit"] = ["MutableCircuit", "SharedCircuit"]
ROOTS["GateOperation"] = ["gop"]
ROOTS["_QubitAsQid"] = ["NoIdQ3", "ThreeDQubit3"]
STRAT["NoIdQ3"] = lambda: st.sampled_from([3, 4, 5]).map(lambda d: {"T": "NoIdQ", "d": d})
STRAT["ThreeDQubit3"] = lambda: qid(3, ["pasqal"])
ROOTS["NoIdentifierQubit"] = ["NoIdQ2"]
STRAT["NoIdQ2"] = lambda: st.just({"T": "NoIdQ", "d": 2})
ROOTS["ThreeDQubit"] = ["ThreeDQubit2"]
ROOTS["TwoDQubit"] = ["TwoDQubit2"]
STRAT["ThreeDQubit2"] = lambda: qid(2, ["pasqal"]).filter(lambda r: r["T"] == "ThreeDQubit")
STRAT["TwoDQubit2"] = lambda: qid(2, ["pasqal"]).filter(lambda r: r["T"] == "TwoDQubit")
# names whose only producers are the shared family kind "G": give them a dedicated family strategy
_FAM_OF = {}
for _f, _n in FAMILY_EMITS.items():
    _FAM_OF.setdefault(_n, []).append(_f)


def _fam_strategy(fams):
    return lambda: family_gate(lambda f: f.name in fams)


for _n, _fs in _FAM_OF.items():
    ks = [k for k in ROOTS.get(_n, []) if k != "G"]
    if not ks:
        STRAT["G:" + _n] = _fam_strategy(set(_fs))
        BUILD["G:" + _n] = _b_G
        ks = ["G:" + _n]
    ROOTS[_n] = ks
# sympy names: dedicated expression shapes
_SYM_ROOT = {
    "sympy.Symbol": lambda: _ssym(), "sympy.Integer": lambda: st.integers(-9, 9).map(lambda v: {"T": "S", "op": "int", "v": v}),
    "sympy.Float": lambda: pfloat().map(lambda v: {"T": "S", "op": "float", "v": v}),
    "sympy.Rational": lambda: st.tuples(st.integers(-9, 9), st.integers(2, 9)).map(lambda t: {"T": "S", "op": "rat", "p": t[0], "q": t[1]}),
    "sympy.pi": lambda: st.just({"T": "S", "op": "pi"}), "sympy.E": lambda: st.just({"T": "S", "op": "E"}),
    "sympy.EulerGamma": lambda: st.just({"T": "S", "op": "EulerGamma"}),
    "sympy.Add": lambda: sexpr(2).filter(lambda r: r["op"] == "add"), "sympy.Mul": lambda: sexpr(2).filter(lambda r: r["op"] == "mul"),
    "sympy.Pow": lambda: sexpr(2).filter(lambda r: r["op"] == "pow"),
    "sympy.Indexed": lambda: st.tuples(st.sampled_from(SYMS), st.integers(0, 3)).map(lambda t: {"T": "S", "op": "indexed", "n": t[0], "i": t[1]}),
    "sympy.IndexedBase": lambda: st.tuples(st.sampled_from(SYMS), st.integers(0, 3)).map(lambda t: {"T": "S", "op": "indexed", "n": t[0], "i": t[1]}),
}
for _n, _op in [("sympy.GreaterThan", "ge"), ("sympy.StrictGreaterThan", "gt"), ("sympy.LessThan", "le"), ("sympy.StrictLessThan", "lt"),
                ("sympy.Equality", "eq"), ("sympy.Unequality", "ne"), ("sympy.And", "and"), ("sympy.Or", "or"), ("sympy.Not", "not"), ("sympy.Xor", "xor")]:
    _SYM_ROOT[_n] = (lambda op: lambda: sbool(1).filter(lambda r: r["op"] == op))(_op)
for _n, _s in _SYM_ROOT.items():
    STRAT["S:" + _n] = _s
    BUILD["S:" + _n] = _b_S
    ROOTS[_n] = ["S:" + _n]


def covered_names():
    reg_ = registered()
    return sorted(n for n in ROOTS if n in reg_)


def uncovered():
    """registered names without a generator strategy (checked through their corpus examples only)."""
    reg_ = registered()
    return sorted(n for n in reg_ if n not in ROOTS)


def root_value(name=None):
    """{"name": registered name, "v": recipe} for a uniformly drawn covered name."""
    names = covered_names() if name is None else [name]
    return st.sampled_from(names).flatmap(lambda n: st.sampled_from(ROOTS[n]).flatmap(lambda k: S(k).map(lambda r: {"name": n, "kind": k, "v": r})))


def hash_cached_value():
    """values whose (cached) hash depends on the per-process string hash seed: every qid class over names, keys, ops,
    moments and frozen circuits on named qubits (pickle_xproc)."""
    named_reg = st.integers(1, 3).flatmap(lambda n: st.lists(qid(2, ["named"]), min_size=n, max_size=n, unique_by=qid_key))
    mixed_reg = st.integers(1, 3).flatmap(lambda n: st.lists(st.one_of(qid(None, ["named"]), qid(2, ["named", "grid", "line", "pasqal"])), min_size=n, max_size=n, unique_by=qid_key))
    rg = st.one_of(named_reg, mixed_reg)
    return st.one_of(
        coupler(), coupler(), qid(None, ["named"]), qid(), S("CleanQubit"), S("NoIdQ"), mkey(),
        coupler().flatmap(lambda c: qubits(1, 1, ["named"]).map(lambda q: {"T": "container", "layout": "list", "items": [c, q[0], c], "names": [], "scalars": []})),
        rg.flatmap(lambda r: op_on(r, 1)), rg.flatmap(lambda r: moment_on(r, 1)), rg.flatmap(lambda r: circuit_on(r, 1, frozen=True)),
        rg.flatmap(lambda r: circuit_op(r, 0)), S("KeyCondition"), S("InternalTag").map(_hashable_itag), S("CalibrationTag"),
        S("InsertionNoiseModel"), S("OpIdentifier"), S("ProductState"), S("PauliString"),
    ).map(lambda r: {"name": "hash_cached", "kind": r.get("T", "?"), "v": r})


def any_value():
    return root_value().map(lambda r: r["v"])


@st.composite
def container(draw):
    """values nested in lists / dicts / tuples with shared sub-objects (same recipe object built once, referenced twice)."""
    items = draw(st.lists(root_value().filter(lambda r: r["name"] not in LEGACY), min_size=1, max_size=3))
    if draw(st.booleans()):  # make the VAL/REF path common: a value holding FrozenCircuits
        items.insert(0, draw(st.sampled_from(["FrozenCircuit", "CircuitOperation", "Circuit", "Moment"]).flatmap(root_value)))
    layout = draw(st.sampled_from(["list", "dict", "nested", "shared", "tuple", "mixed"]))
    return {"T": "container", "layout": layout, "items": [i["v"] for i in items], "names": [i["name"] for i in items],
            "scalars": draw(st.lists(st.one_of(st.integers(-5, 5), G.small_floats(), st.sampled_from(["s", "ü", ""]), st.booleans(), st.none(),
                                               st.sampled_from(["nan", "inf", "-inf"]).map(lambda v: {"T": "float", "v": v}), S("cx"), S("np")), max_size=3))}


reg("float", lambda: st.sampled_from(["nan", "inf", "-inf"]).map(lambda v: {"T": "float", "v": v}))(lambda r: float(r["v"]))


@reg("container", container)
def _b_container(r):
    objs = [B(i) for i in r["items"]]
    if any(isinstance(o, Legacy) for o in objs):
        raise OutOfDomain("legacy documents are checked at the root only")
    sc = [B(x) for x in r.get("scalars", [])]
    lay = r["layout"]
    if lay == "list":
        return objs + sc
    if lay == "tuple":
        return (tuple(objs), tuple(sc))
    if lay == "dict":
        return {f"k{i}": o for i, o in enumerate(objs)} | {"scalars": sc}
    if lay == "nested":
        return {"a": [objs, {"b": objs[:1], "c": sc}], "d": [[o] for o in objs]}
    if lay == "shared":
        return {"first": objs, "again": objs, "pair": [objs[0], objs[0]], "s": sc}
    return [objs[0], {"x": objs, "y": (sc, objs[-1])}, sc]
