"""Hypothesis strategies for C05 histories (JSON action lists)."""
from __future__ import annotations

from hypothesis import strategies as st

R = st.integers(0, 40)  # raw index, reduced modulo the current size by the interpreter
POOLS = {
    "mixed": ["X", "Y", "Z", "H", "S", "T", "X", "H", "CZ", "CX", "SW", "IS", "CZ", "CCZ", "CCX", "M", "M", "M", "CC", "CC", "PX", "PZZ"],
    # measurement / classical-control / parameter heavy: key bookkeeping of the placement cache and the lazy summaries
    "keys": ["X", "H", "CZ", "CX", "CCZ", "M", "M", "M", "M", "CC", "CC", "CC", "PX", "PZZ"],
}

QUERY_NAMES = ["qubits", "mkeys", "params", "meas", "eq", "freeze", "unitary", "nextprev", "reach", "between", "until", "misc", "moments"]
B = st.booleans()
ADOPT = st.sampled_from([True, True, False])
FROZEN = st.sampled_from([False, False, True])
S_ANY = st.integers(0, 7)
S_MOSTLY_E = st.sampled_from([0, 0, 0, 0, 1, 2, 3, 4])
FR = st.lists(R, min_size=5, max_size=5)


def _d(**kw):
    return st.fixed_dictionaries({k: (v if isinstance(v, st.SearchStrategy) else st.just(v)) for k, v in kw.items()})


def make_actions(pool):
    KIND = st.sampled_from(POOLS[pool])
    QS = st.lists(st.integers(0, 3), min_size=1, max_size=3, unique=True)
    OP = st.tuples(KIND, QS, st.integers(0, 1)).map(list)
    MOMENT = st.lists(OP, min_size=0, max_size=3)
    MOMENTS = st.lists(MOMENT, min_size=0, max_size=3)
    OPS = st.lists(OP, min_size=1, max_size=4)

    def _item():
        return st.one_of(OP, OP, OP, st.fixed_dictionaries({"m": MOMENT}), st.fixed_dictionaries({"l": st.lists(OP, min_size=1, max_size=2)}))

    TREE = st.one_of(st.lists(OP, min_size=1, max_size=1), st.lists(_item(), min_size=0, max_size=4), st.lists(OP, min_size=2, max_size=4))

    ACTIONS = {
        "new": _d(a="new", tree=TREE, s=S_MOSTLY_E, star=B),
        "append": _d(a="append", tree=TREE, s=S_MOSTLY_E, single=B),
        "insert": _d(a="insert", i=R, tree=TREE, s=S_ANY, single=B),
        "iir": _d(a="iir", tree=OPS, st=R, en=R, bad=st.sampled_from([0, 0, 0, 0, 1, 2])),
        "iaf": _d(a="iaf", tree=OPS, st=R, fr=st.one_of(st.none(), FR, FR), bad=st.sampled_from([0, 0, 0, 0, 1, 2])),
        "binsert": _d(a="binsert", ins=st.lists(st.tuples(R, TREE).map(list), min_size=0, max_size=4), single=B),
        "binto": _d(a="binto", ins=st.lists(st.tuples(R, st.lists(OP, min_size=1, max_size=2)).map(list), min_size=0, max_size=3),
                    bad=st.sampled_from([0, 0, 0, 0, 1])),
        "bremove": _d(a="bremove", sel=st.lists(st.tuples(R).map(list), min_size=0, max_size=4), bad=st.sampled_from([0, 0, 0, 1, 2, 3, 4])),
        "breplace": _d(a="breplace", sel=st.lists(st.tuples(R, OP).map(list), min_size=0, max_size=3),
                       bad=st.sampled_from([0, 0, 0, 1, 2, 3, 4]), free=st.sampled_from([False, False, False, True])),
        "clear": _d(a="clear", qs=st.lists(st.integers(0, 4), min_size=0, max_size=2), ms=st.lists(R, min_size=0, max_size=3)),
        "setitem": st.one_of(_d(a="setitem", i=R, m=MOMENT, neg=B), _d(a="setitem", lo=R, hi=R, ms=MOMENTS, neg=B, gen=B)),
        "del": st.one_of(_d(a="del", i=R, neg=B), _d(a="del", lo=R, hi=R, step=st.sampled_from([1, 1, 2]))),
        "add": _d(a="add", mode=st.sampled_from(["add", "iadd", "iadd", "radd"]),
                  other=st.one_of(_d(ms=MOMENTS, frozen=B, one=st.sampled_from([False, False, True])), _d(tree=TREE)), adopt=ADOPT, frozen=FROZEN),
        "mul": _d(a="mul", n=st.sampled_from([0, 1, 2, 2, 3]), mode=st.sampled_from(["mul", "imul", "rmul"]), np=B, adopt=ADOPT, frozen=FROZEN),
        "inv": _d(a="inv", frozen=FROZEN),
        "zip": _d(a="zip", others=st.lists(MOMENTS, min_size=1, max_size=2), align=st.sampled_from(["LEFT", "RIGHT"]),
                  avoid=st.sampled_from([True, True, False]), adopt=ADOPT, frozen=FROZEN, ofrozen=B, str=B),
        "ragged": _d(a="ragged", other=MOMENTS, align=st.sampled_from(["LEFT", "RIGHT", "FIRST"]), first=B, adopt=ADOPT, frozen=FROZEN, str=B),
        "tq": _d(a="tq", perm=st.lists(st.integers(0, 9), min_size=5, max_size=5), callable=B, adopt=ADOPT),
        "tags": _d(a="tags", t=st.sampled_from([[], ["t"], ["u"]])),
        "copy": _d(a="copy", how=st.integers(0, 7)),
        "factorize": _d(a="factorize", adopt=st.sampled_from([False, False, True]), pick=R, frozen=FROZEN),
        "mapops": _d(a="mapops", f=st.sampled_from(["retag", "drop", "double", "same"]), p=st.integers(0, 5), adopt=ADOPT, frozen=FROZEN),
        "query": _d(a="query", q=st.one_of(st.just(["*"]), st.lists(st.sampled_from(QUERY_NAMES), min_size=1, max_size=4, unique=True)),
                    qs=st.lists(st.integers(0, 4), min_size=1, max_size=3, unique=True), i=R, d=st.one_of(st.none(), R, R, R),
                    fr=FR, fr2=FR, mask=st.integers(0, 1023), blk=st.one_of(st.none(), st.tuples(st.integers(2, 5), st.integers(0, 4)).map(list)),
                    omit=B, past=st.sampled_from([False] * 5 + [True])),
    }

    return ACTIONS


WEIGHTS = {
    "all": {"new": 1, "append": 6, "insert": 10, "iir": 2, "iaf": 2, "binsert": 3, "binto": 2, "bremove": 2, "breplace": 2, "clear": 2,
            "setitem": 2, "del": 2, "add": 3, "mul": 2, "inv": 1, "zip": 2, "ragged": 2, "tq": 1, "tags": 1, "copy": 2, "factorize": 1,
            "mapops": 1, "query": 16},
    # placement-cache paths: Circuit(...) / append / += dominate, with the occasional edit that must invalidate the cache
    "append": {"new": 2, "append": 16, "insert": 3, "add": 4, "mul": 1, "copy": 1, "tags": 1, "bremove": 1, "clear": 1, "del": 1,
               "binto": 1, "setitem": 1, "query": 8},
    # traversal / summary queries between simple edits
    "query": {"new": 1, "append": 4, "insert": 5, "bremove": 1, "breplace": 1, "clear": 1, "del": 1, "setitem": 1, "mul": 1, "add": 1,
              "binto": 1, "iir": 1, "query": 14},
}


def history(profile: str, min_actions: int, max_actions: int, pool: str = "mixed"):
    ACTIONS = make_actions(pool)
    w = WEIGHTS[profile]
    names = [k for k, n in w.items() for _ in range(n)]
    action = st.sampled_from(names).flatmap(lambda k: ACTIONS[k])
    first = ACTIONS["new"] if profile != "all" else st.one_of(ACTIONS["new"], ACTIONS["new"], action)
    return st.tuples(first, st.lists(action, min_size=min_actions, max_size=max_actions)).map(
        lambda t: {"actions": [t[0]] + t[1]})
