"""Generators + builders for C16 (Google wire formats): programs, args, sweeps, results, device specs.

Recipes are plain JSON.  ``build_*`` functions turn them into Cirq objects; they tolerate shortened lists
(indices are taken modulo the pool sizes) so the generic JSON minimiser can work on them.
"""
from __future__ import annotations

import math

from hypothesis import strategies as st

# ------------------------------------------------------------------------------------------ numbers / expressions

SPECIAL_NUM = [0.0, 1.0, -1.0, 0.5, -0.5, 0.25, 2.0, 3.0, -2.0, 1 / 3, 0.1, 0.2, 0.123456789012345, 1e-9, -1e-9,
               1 - 1e-9, 1.5, -0.75, 4.0, 100.0, 16777217.0, 1e10, 0.3, 0.7]
SYMS = ["a", "b", "c", "d", "t"]


def one_in(n):
    """True with probability 1/n (st.integers is biased towards 0, so never use `integers(0,n)==0` for rare events)."""
    return st.sampled_from([False] * (n // 2) + [True] + [False] * (n - n // 2 - 1))  # endpoints of index ranges are boosted too


def numbers():
    return st.one_of(st.sampled_from(SPECIAL_NUM), st.floats(-4, 4, allow_nan=False).map(lambda x: round(x, 9) + 0.0),  # + 0.0: no negative zero
                    
                     st.integers(-8, 8).map(lambda k: k / 8))


def exact_numbers():
    """Numbers exactly representable in float32 (dyadic rationals)."""
    return st.integers(-64, 64).map(lambda k: k / 16)


@st.composite
def expr_trees(draw, depth=2):
    """["f",x] | ["s",name] | ["add",A,B] | ["mul",A,B] | ["neg",A] | ["pow",A,k]; always contains a symbol."""
    if depth <= 0:
        return ["s", draw(st.sampled_from(SYMS))]
    k = draw(st.sampled_from(["s", "s", "lin", "neglin", "add", "mul", "neg", "pow", "sumsym"]))
    if k == "s":
        return ["s", draw(st.sampled_from(SYMS))]
    if k == "lin":  # c1*s + c0
        return ["add", ["mul", ["f", draw(numbers())], draw(expr_trees(depth - 1))], ["f", draw(numbers())]]
    if k == "neglin":  # s1 - c*s2   (negative coefficient)
        c = abs(draw(numbers())) + 0.25
        return ["add", draw(expr_trees(depth - 1)), ["mul", ["f", -c], ["s", draw(st.sampled_from(SYMS))]]]
    if k == "add":
        return ["add", draw(expr_trees(depth - 1)), draw(st.one_of(expr_trees(depth - 1), numbers().map(lambda x: ["f", x])))]
    if k == "mul":
        return ["mul", draw(st.one_of(expr_trees(depth - 1), numbers().map(lambda x: ["f", x]))), draw(expr_trees(depth - 1))]
    if k == "neg":
        return ["neg", draw(expr_trees(depth - 1))]
    if k == "sumsym":
        return ["add", ["s", draw(st.sampled_from(SYMS))], ["neg", ["s", draw(st.sampled_from(SYMS))]]]
    return ["pow", draw(expr_trees(depth - 1)), draw(st.sampled_from([2, 3, -1, 0.5]))]


def float_args(p_sym=0.3):
    """A FloatArg recipe: ["f", x] or an expression tree."""
    return st.one_of(numbers().map(lambda x: ["f", x]), numbers().map(lambda x: ["f", x]), expr_trees()) if p_sym else numbers().map(lambda x: ["f", x])


def build_expr(tree):
    import sympy

    k = tree[0]
    if k == "f":
        return tree[1]
    if k == "s":
        return sympy.Symbol(str(tree[1]))
    if k == "add":
        return build_expr(tree[1]) + build_expr(tree[2])
    if k == "mul":
        return build_expr(tree[1]) * build_expr(tree[2])
    if k == "neg":
        return -build_expr(tree[1])
    if k == "pow":
        return build_expr(tree[1]) ** tree[2]
    raise KeyError(k)


def build_farg(tree):
    """Expression or number; expressions that sympy folded to a plain number are handed over as Python floats."""
    import sympy

    e = build_expr(tree)
    if isinstance(e, sympy.Basic) and not e.free_symbols:
        try:
            x = float(e)
        except TypeError:
            raise ValueError("degenerate expression (zoo/nan)")
        if not math.isfinite(x):  # constant folding gave nan / inf: not a number a gate argument can hold
            raise ValueError("degenerate expression (nan/inf)")
        return x
    if isinstance(e, sympy.Basic) and (e.has(sympy.zoo) or e.has(sympy.nan) or e.has(sympy.oo)):
        raise ValueError("degenerate expression (zoo/nan)")
    return e


def is_symbolic(tree):
    return tree[0] != "f"


# ------------------------------------------------------------------------------------------ generic Arg values

STRS = ["", "x", "abc", "key:1", "über", "a b", "0"]
UNITS = ["ns", "us", "GHz", "MHz", "V", "mV"]


@st.composite
def arg_values(draw, depth=1, hashable_only=False):
    kinds = ["f", "i", "b", "str", "c", "bytes", "unit", "none", "expr", "mkey", "mixtuple"]
    if not hashable_only:
        kinds += ["strs", "ints", "floats", "bools", "mixnum", "numtuple", "emptylist", "emptytuple", "mixlist", "ndarray", "fset", "mixset", "cond"]
    k = draw(st.sampled_from(kinds))
    if k == "f":
        return ["f", draw(numbers())]
    if k == "i":
        return ["i", draw(st.one_of(st.integers(-5, 5), st.sampled_from([2 ** 24 + 1, -(2 ** 31), 10 ** 6])))]
    if k == "b":
        return ["b", draw(st.booleans())]
    if k == "str":
        return ["str", draw(st.sampled_from(STRS))]
    if k == "c":
        return ["c", draw(numbers()), draw(numbers())]
    if k == "bytes":
        return ["bytes", draw(st.lists(st.integers(0, 255), max_size=4))]
    if k == "unit":
        return ["unit", draw(numbers()), draw(st.sampled_from(UNITS))]
    if k == "none":
        return ["none"]
    if k == "expr":
        return ["expr", draw(expr_trees())]
    if k == "mkey":
        return ["mkey", draw(st.sampled_from(["m", "k0", "z"])), draw(st.lists(st.sampled_from(["p", "0", "q"]), max_size=2))]
    if k == "strs":
        return ["strs", draw(st.lists(st.sampled_from(STRS), min_size=1, max_size=3))]
    if k == "ints":
        return ["ints", draw(st.lists(st.integers(-3, 2 ** 40), min_size=1, max_size=3))]
    if k == "floats":
        return ["floats", draw(st.lists(numbers(), min_size=1, max_size=3))]
    if k == "bools":
        return ["bools", draw(st.lists(st.booleans(), min_size=1, max_size=4))]
    if k == "mixnum":  # list of ints and floats -> repeated double
        return ["mixnum", draw(st.lists(st.one_of(st.integers(-3, 3).map(lambda i: ["i", i]), numbers().map(lambda x: ["f", x])), min_size=2, max_size=3))]
    if k == "numtuple":
        return ["numtuple", draw(st.lists(st.integers(-3, 3), min_size=1, max_size=3))]
    if k == "emptylist":
        return ["emptylist"]
    if k == "emptytuple":
        return ["emptytuple"]
    if k == "ndarray":
        dt = draw(st.sampled_from(["float64", "float32", "int64", "int32", "int8", "uint8", "bool", "complex128"]))
        shape = draw(st.sampled_from([[2], [3], [2, 2], [1, 3], [9]]))
        n = 1
        for s in shape:
            n *= s
        return ["ndarray", dt, shape, draw(st.lists(st.integers(0, 7), min_size=n, max_size=n))]
    if k == "cond":
        return ["expr_rel", draw(st.sampled_from(["==", "!=", ">", ">=", "<", "<="])), draw(st.sampled_from(SYMS)), draw(st.integers(-2, 3))]
    items = st.one_of(numbers().map(lambda x: ["f", x]), st.integers(-3, 3).map(lambda i: ["i", i]),
                      st.sampled_from(STRS).map(lambda s: ["str", s]), st.booleans().map(lambda b: ["b", b]), st.just(["none"]))
    if depth > 0:
        items = st.one_of(items, arg_values(depth - 1, hashable_only=hashable_only))
    if k == "mixtuple":
        # a string somewhere forces the generic Tuple encoding (uniform numeric tuples come back as lists)
        return ["mixtuple", [["str", draw(st.sampled_from(STRS))]] + draw(st.lists(items, max_size=3))]
    if k == "mixlist":
        return ["mixlist", [["str", draw(st.sampled_from(STRS))], ["i", draw(st.integers(0, 3))]] + draw(st.lists(items, max_size=2))]
    if k in ("fset", "mixset"):
        return [k, [["str", draw(st.sampled_from(STRS))], ["i", draw(st.integers(0, 3))]]]
    raise KeyError(k)


def build_arg(v):
    """-> python value handed to arg_to_proto."""
    import numpy as np
    import sympy
    import tunits

    import cirq

    k = v[0]
    if k == "f":
        return float(v[1])
    if k == "i":
        return int(v[1])
    if k == "b":
        return bool(v[1])
    if k == "str":
        return str(v[1])
    if k == "c":
        return complex(v[1], v[2])
    if k == "bytes":
        return bytes(v[1])
    if k == "unit":
        return v[1] * getattr(tunits, v[2])
    if k == "none":
        return None
    if k == "expr":
        return build_farg(v[1])  # ValueError for degenerate expressions (zoo / nan)
    if k == "mkey":
        return cirq.MeasurementKey(name=v[1], path=tuple(v[2]))
    if k == "strs":
        return [str(s) for s in v[1]]
    if k == "ints":
        return [int(i) for i in v[1]]
    if k == "floats":
        return [float(x) for x in v[1]]
    if k == "bools":
        return [bool(b) for b in v[1]]
    if k == "mixnum":
        return [build_arg(x) for x in v[1]]
    if k == "numtuple":
        return tuple(int(i) for i in v[1])
    if k == "emptylist":
        return []
    if k == "emptytuple":
        return ()
    if k == "mixtuple":
        return tuple(build_arg(x) for x in v[1])
    if k == "mixlist":
        return [build_arg(x) for x in v[1]]
    if k == "fset":
        return frozenset(build_arg(x) for x in v[1])
    if k == "mixset":
        return set(build_arg(x) for x in v[1])
    if k == "ndarray":
        n = 1
        for s in v[2]:
            n *= s
        vals = (list(v[3]) + [0] * n)[:n]
        return np.array(vals).reshape(v[2]).astype(v[1])
    if k == "expr_rel":
        s = sympy.Symbol(v[2])
        return {"==": sympy.Eq, "!=": sympy.Ne, ">": sympy.StrictGreaterThan, ">=": sympy.GreaterThan,
                "<": sympy.StrictLessThan, "<=": sympy.LessThan}[v[1]](s, v[3])
    raise KeyError(k)


# ------------------------------------------------------------------------------------------ qubits

NAMES = ["alice", "bob", "my_qubit", "q", "anc0", "x3", "a", "m", "t", "abc123", "hello", "X", "T"]  # some spell symbols / keys / tags


def qubit_recipes():
    return st.one_of(
        st.tuples(st.just("g"), st.integers(0, 7), st.integers(0, 7)).map(list),
        st.tuples(st.just("g"), st.integers(0, 7), st.integers(0, 7)).map(list),
        st.tuples(st.just("g"), st.integers(-2, 12), st.integers(-2, 12)).map(list),
        st.tuples(st.just("l"), st.integers(-2, 9)).map(list),
        st.tuples(st.just("n"), st.sampled_from(NAMES)).map(list),
    )


def build_qubit(r):
    import cirq

    if r[0] == "g":
        return cirq.GridQubit(int(r[1]), int(r[2]))
    if r[0] == "l":
        return cirq.LineQubit(int(r[1]))
    if r[0] == "n":
        return cirq.NamedQubit(str(r[1]))
    if r[0] == "qid":
        return cirq.LineQid(int(r[1]), 3)
    raise KeyError(r[0])


# ------------------------------------------------------------------------------------------ tags

TOKENS = ["abc123", "def456", ""]
DD = ["X", "Y", "XY4", "XY8"]


@st.composite
def tag_recipes(draw):
    k = draw(st.sampled_from(["physz", "cal", "cal", "dd", "internal", "internal", "compress", "fsim_model", "two_pulse",
                              "str", "str", "int", "float", "bool", "mixtuple", "cal", "str", "internal", "rare", "one", "one"]))
    if k == "one":  # equal-but-different-type values share one constants-table entry: 1 / 1.0 / True (and the string '1' must not)
        return draw(st.sampled_from([["int", 1], ["float", 1.0], ["bool", True], ["str", "1"], ["int", 0], ["float", 0.0], ["bool", False], ["str", "0"],
                                     ["str", "1.0"], ["str", "True"]]))
    if k == "rare":
        k = draw(st.sampled_from(["unknown", "unknown", "none", "numtuple", "str", "str"]))
    if k == "str" and draw(st.sampled_from([True, False, False])):
        # a raw string tag spelling the proto id of a qubit of this program (constants of different kinds share one table)
        return ["qid", draw(st.integers(0, 5))]
    if k == "cal":
        return ["cal", draw(st.sampled_from(TOKENS))]
    if k == "dd":
        return ["dd", draw(st.sampled_from(DD))]
    if k == "internal":
        n = draw(st.integers(0, 2))
        args = {}
        for key in draw(st.permutations(["p0", "p1", "amp"]))[:n]:
            args[key] = draw(arg_values(hashable_only=True))
        return ["internal", draw(st.sampled_from(["T", "Tag2"])), draw(st.sampled_from(["pkg", "pkg.sub"])), args]
    if k == "str":
        return ["str", draw(st.sampled_from(COLLIDING_STRS))]
    if k == "int":
        return ["int", draw(st.integers(-3, 3))]
    if k == "float":
        return ["float", draw(numbers())]
    if k == "bool":
        return ["bool", draw(st.booleans())]
    if k == "mixtuple":
        return ["mixtuple", [["str", draw(st.sampled_from(STRS))], ["i", draw(st.integers(0, 2))]]]
    if k == "numtuple":
        return ["numtuple", draw(st.lists(st.integers(0, 3), min_size=1, max_size=2))]
    return [k]


# raw string tags that spell other things of the same program: measurement keys, symbol names, qubit ids / names, gate and tag
# names, calibration tokens, reprs of other tags and of the numeric tags 1 / 1.0 / True
COLLIDING_STRS = ["t", "hello", "", "abc123", "def456", "m", "k0", "z", "a", "b", "alice", "q", "0_1", "1_1", "0", "1", "1.0", "True", "X", "G",
                  "T", "pkg", "XY4", "cirq_google.PhysicalZTag()", "CalibrationTag('abc123')", "amp"]


class UnknownTag:
    """A user tag the wire format has no representation for (documented: ValueError 'Unrecognized Tag')."""

    def __init__(self, v=0):
        self.v = v

    def __eq__(self, o):
        return isinstance(o, UnknownTag) and o.v == self.v

    def __hash__(self):
        return hash(("UnknownTag", self.v))

    def __repr__(self):
        return f"UnknownTag({self.v})"


def proto_id_of(q):
    """Restated from the docstring of qubit_to_proto_id (not calling the code under test)."""
    import cirq

    if isinstance(q, cirq.GridQubit):
        return f"{q.row}_{q.col}"
    if isinstance(q, cirq.LineQubit):
        return f"{q.x}"
    return getattr(q, "name", "q")


def build_tag(r, ctx=None):
    import cirq_google as cg
    from cirq_google.ops import DynamicalDecouplingTag

    k = r[0]
    if k == "physz":
        return cg.PhysicalZTag()
    if k == "cal":
        return cg.CalibrationTag(str(r[1]))
    if k == "dd":
        return DynamicalDecouplingTag(r[1] if r[1] in DD else "X")
    if k == "internal":
        return cg.InternalTag(name=str(r[1]), package=str(r[2]), **{str(a): build_arg(b) for a, b in r[3].items()})
    if k == "compress":
        return cg.CompressDurationTag()
    if k == "fsim_model":
        return cg.FSimViaModelTag()
    if k == "two_pulse":
        return cg.TwoPulseFSimTag()
    if k == "str":
        return str(r[1])
    if k == "qid":
        qs = (ctx or {}).get("qubits") or []
        return proto_id_of(qs[int(r[1]) % len(qs)]) if qs else "0_0"
    if k == "int":
        return int(r[1])
    if k == "float":
        return float(r[1])
    if k == "bool":
        return bool(r[1])
    if k in ("mixtuple", "numtuple"):
        return build_arg(r)
    if k == "unknown":
        return UnknownTag()
    if k == "none":
        return None
    raise KeyError(k)


def tag_lists(max_size=2, p_empty=0.55):
    return st.one_of(st.just([]), st.just([]), st.lists(tag_recipes(), min_size=1, max_size=max_size, unique_by=lambda t: repr(t)))


# ------------------------------------------------------------------------------------------ conditions


@st.composite
def condition_recipes(draw):
    k = draw(st.sampled_from(["key", "key", "keyidx", "bitmask", "sympy", "sympy2", "keypath"]))
    key = draw(st.sampled_from(["m", "k0", "z"]))
    if k == "key":
        return ["key", key, [], -1]
    if k == "keyidx":
        return ["key", key, [], draw(st.integers(-2, 2))]
    if k == "keypath":
        return ["key", key, draw(st.lists(st.sampled_from(["p", "0"]), min_size=1, max_size=2)), -1]
    if k == "bitmask":
        return ["bitmask", key, draw(st.integers(-1, 1)), draw(st.integers(0, 7)), draw(st.booleans()),
                draw(st.one_of(st.none(), st.integers(0, 7)))]
    if k == "sympy":
        return ["rel", draw(st.sampled_from(["==", "!=", ">", ">=", "<", "<="])), key, draw(st.integers(0, 3))]
    op = draw(st.sampled_from(["&", "|", "^", "!"]))
    return ["bool", op, ["rel", draw(st.sampled_from([">", "=="])), key, draw(st.integers(0, 2))],
            ["rel", draw(st.sampled_from(["<", "!="])), draw(st.sampled_from(["m", "k0", "z"])), draw(st.integers(0, 2))]]


def _build_rel(r):
    import sympy

    s = sympy.Symbol(r[2])
    return {"==": sympy.Eq, "!=": sympy.Ne, ">": sympy.StrictGreaterThan, ">=": sympy.GreaterThan,
            "<": sympy.StrictLessThan, "<=": sympy.LessThan}[r[1]](s, int(r[3]))


def build_condition(r):
    import sympy

    import cirq

    k = r[0]
    if k == "key":
        return cirq.KeyCondition(cirq.MeasurementKey(name=r[1], path=tuple(r[2])), index=int(r[3]))
    if k == "bitmask":
        return cirq.BitMaskKeyCondition(key=cirq.MeasurementKey(r[1]), index=int(r[2]), target_value=int(r[3]),
                                        equal_target=bool(r[4]), bitmask=None if r[5] is None else int(r[5]))
    if k == "rel":
        return cirq.SympyCondition(_build_rel(r))
    if k == "bool":
        a, b = _build_rel(r[2]), _build_rel(r[3])
        e = {"&": lambda: sympy.And(a, b), "|": lambda: sympy.Or(a, b), "^": lambda: sympy.Xor(a, b), "!": lambda: sympy.Not(a)}[r[1]]()
        return cirq.SympyCondition(e)
    raise KeyError(k)


# ------------------------------------------------------------------------------------------ gates

ONE_Q = ["X", "Y", "Z", "H", "PhX", "PhXZ", "Cliff", "I", "M", "Wait", "WaitU", "Reset", "MLReset", "LZSReset", "Depol", "RGC",
         "Internal", "ADQ", "ADCO1", "Rx"]
TWO_Q = ["CZ", "ISWAP", "SYC", "WILLOW", "FSim", "FSim", "Coupler", "M", "I", "Wait", "WaitU", "Depol", "RGC2", "Internal", "ADCO2", "LeakISWAP"]
THREE_Q = ["M", "I", "Internal", "Wait", "WaitU"]
UNSUPPORTED = ["CNOT", "SWAP", "XX", "CtrlX", "Matrix", "BitFlip", "AmpDamp", "Qid"]
UNSUPPORTED_2Q = ("CNOT", "SWAP", "XX", "CtrlX")


def _fa(p_sym):
    return float_args() if p_sym else numbers().map(lambda x: ["f", x])


@st.composite
def gate_recipes(draw, arity, p_unsupported=0.03, sym=True):
    pool = {1: ONE_Q, 2: TWO_Q, 3: THREE_Q}[arity]
    if arity <= 2 and p_unsupported and draw(one_in(int(1 / p_unsupported))):
        k = draw(st.sampled_from([u for u in UNSUPPORTED if (u in UNSUPPORTED_2Q) == (arity == 2)]))
        return [k, {}]
    k = draw(st.sampled_from(pool))
    fa = _fa(sym)
    shift = st.sampled_from([0, 0, 0, -0.5, 0.5, 0.25])
    if k in ("X", "Y", "Z", "H", "CZ", "ISWAP"):
        return [k, {"e": draw(fa), "s": draw(shift)}]
    if k == "Rx":
        return [k, {"r": draw(numbers()), "ax": draw(st.sampled_from("xyz"))}]
    if k == "PhX":
        return [k, {"p": draw(fa), "e": draw(fa), "s": draw(shift)}]
    if k == "PhXZ":
        return [k, {"x": draw(fa), "z": draw(fa), "a": draw(fa)}]
    if k == "Cliff":
        return [k, {"i": draw(st.integers(0, 23))}]
    if k == "I":
        return [k, {}]
    if k in ("SYC", "WILLOW", "MLReset", "LZSReset", "Reset"):
        return [k, {}]
    if k == "LeakISWAP":
        return [k, {"pm": draw(st.booleans())}]
    if k == "FSim":
        ang = st.one_of(fa, st.sampled_from([3.141592653589793, -3.141592653589793, 1.5707963267948966, 0.5235987755982988, 6.5]).map(lambda x: ["f", x]))
        return [k, {"theta": draw(ang), "phi": draw(ang)}]
    if k == "M":
        nm = draw(st.integers(0, arity))
        return [k, {"key": draw(st.sampled_from(["m", "k0", "z", "meas key", "a.b"])), "mask": draw(st.lists(st.booleans(), min_size=nm, max_size=nm)),
                    "confusion": draw(one_in(61))}]
    if k == "Wait":
        return [k, {"ns": draw(st.one_of(st.sampled_from([0, 1, 2.5, 0.001, 1000, 12.000000001]).map(lambda x: ["f", x]), fa))}]
    if k == "WaitU":
        return [k, {"d": draw(st.one_of(st.tuples(st.just("unit"), numbers(), st.sampled_from(["ns", "us"])).map(list),
                                        st.sampled_from(SYMS).map(lambda s: ["expr", ["s", s]])))}]
    if k == "Depol":
        return [k, {"p": draw(st.sampled_from([0.0, 0.1, 0.25, 0.5, 1e-3, 0.123456789]))}]
    if k in ("RGC", "RGC2"):
        sub = draw(gate_recipes(1 if k == "RGC" else 2, p_unsupported=0, sym=sym).filter(
            lambda g: g[0] in ("X", "Y", "Z", "H", "PhX", "PhXZ", "CZ", "ISWAP", "SYC", "FSim", "Cliff")))
        return ["RGC", {"sub": sub, "p": draw(st.one_of(st.sampled_from([0.0, 0.1, 0.25, 1.0, 1 / 3]).map(lambda x: ["f", x]), st.sampled_from([0.5, 0.123456789]).map(lambda x: ["f", x]), expr_trees() if sym else st.just(["f", 0.75])))}]
    if k == "Coupler":
        return [k, {"hold": draw(fa), "rise": draw(numbers()), "pad": draw(numbers()), "c": draw(fa), "q0": draw(fa), "q1": draw(fa)}]
    if k == "Internal":
        n = draw(st.integers(0, 3))
        args = {}
        for key in draw(st.permutations(["amp", "width", "name", "flag", "w2"]))[:n]:
            args[key] = draw(arg_values(hashable_only=(not draw(one_in(30)))))
        custom = draw(st.one_of(st.none(), st.none(), st.lists(st.integers(-20, 20), min_size=1, max_size=4, unique=True)))
        return [k, {"name": draw(st.sampled_from(["G", "Gate2"])), "module": draw(st.sampled_from([None, "", "mod", "mod.sub"])), "args": args,
                    "custom": custom}]
    if k == "ADQ":
        uv = st.one_of(st.tuples(st.just("unit"), numbers(), st.sampled_from(["ns", "GHz", "MHz"])).map(list), st.sampled_from(SYMS).map(lambda s: ["expr", ["s", s]]))
        d = st.one_of(st.none(), st.dictionaries(st.sampled_from(["c_q0_0_q1_0", "c_q1_0_q1_1"]), uv, max_size=2))
        return [k, {"length": draw(uv), "w": draw(uv), "target": draw(st.one_of(st.none(), uv)), "prev": draw(st.one_of(st.none(), uv)),
                    "nd": draw(d), "pnd": draw(d), "lin": draw(st.booleans())}]
    if k in ("ADCO1", "ADCO2"):
        uv = st.one_of(st.tuples(st.just("unit"), numbers(), st.sampled_from(["ns", "GHz", "MHz"])).map(list), st.sampled_from(SYMS).map(lambda s: ["expr", ["s", s]]))
        nf = st.lists(st.one_of(st.none(), uv), min_size=2, max_size=2)
        return [k, {"length": draw(uv), "w": draw(uv), "g0": draw(uv), "gmax": draw(uv), "exp": draw(fa), "nf": draw(nf), "pnf": draw(nf),
                    "interp": draw(st.booleans()), "cal": draw(st.booleans())}]
    raise KeyError(k)


def _farg(tree):
    return build_farg(tree)


def _uv(v):
    return None if v is None else build_arg(v)


def build_gate(g, arity):
    """-> cirq.Gate (arity = number of qubits it will be applied to)."""
    import numpy as np

    import cirq
    import cirq_google as cg
    from cirq_google.experimental.ops import CouplerPulse

    k, p = g
    if k in ("X", "Y", "Z", "H", "CZ", "ISWAP"):
        cls = {"X": cirq.XPowGate, "Y": cirq.YPowGate, "Z": cirq.ZPowGate, "H": cirq.HPowGate, "CZ": cirq.CZPowGate, "ISWAP": cirq.ISwapPowGate}[k]
        return cls(exponent=_farg(p["e"]), global_shift=p.get("s", 0))
    if k == "Rx":
        return {"x": cirq.rx, "y": cirq.ry, "z": cirq.rz}[p.get("ax", "x")](p["r"])
    if k == "PhX":
        return cirq.PhasedXPowGate(phase_exponent=_farg(p["p"]), exponent=_farg(p["e"]), global_shift=p.get("s", 0))
    if k == "PhXZ":
        return cirq.PhasedXZGate(x_exponent=_farg(p["x"]), z_exponent=_farg(p["z"]), axis_phase_exponent=_farg(p["a"]))
    if k == "Cliff":
        return cirq.SingleQubitCliffordGate.all_single_qubit_cliffords[int(p["i"]) % 24]
    if k == "I":
        return cirq.IdentityGate(arity)
    if k == "SYC":
        return cg.SYC
    if k == "WILLOW":
        return cg.WILLOW
    if k == "FSim":
        return cirq.FSimGate(theta=_farg(p["theta"]), phi=_farg(p["phi"]))
    if k == "M":
        kw = {}
        if p.get("confusion"):
            kw["confusion_map"] = {(0,): np.array([[0.9, 0.1], [0.2, 0.8]])}
        return cirq.MeasurementGate(arity, key=p["key"], invert_mask=tuple(bool(b) for b in p["mask"][:arity]), **kw)
    if k == "Wait":
        ns = _farg(p["ns"])
        return cirq.WaitGate(cirq.Duration(nanos=abs(ns) if isinstance(ns, (int, float)) else ns), num_qubits=arity)
    if k == "WaitU":
        return cg.WaitGateWithUnit(build_arg(p["d"]), num_qubits=arity)
    if k == "Reset":
        return cirq.ResetChannel()
    if k == "MLReset":
        return cg.MultilevelResetViaResonator()
    if k == "LZSReset":
        return cg.LZSResetViaResonator()
    if k == "LeakISWAP":
        return cg.LeakageISWAP(phase_matched=bool(p["pm"]))
    if k == "Depol":
        return cirq.DepolarizingChannel(p=p["p"], n_qubits=arity)
    if k == "RGC":
        return cirq.RandomGateChannel(sub_gate=build_gate(p["sub"], arity), probability=_farg(p["p"]))
    if k == "Coupler":
        return CouplerPulse(hold_time=cirq.Duration(picos=_farg(p["hold"])), coupling_mhz=_farg(p["c"]), rise_time=cirq.Duration(picos=p["rise"]),
                            padding_time=cirq.Duration(picos=p["pad"]), q0_detune_mhz=_farg(p["q0"]), q1_detune_mhz=_farg(p["q1"]))
    if k == "Internal":
        kw = {str(a): build_arg(b) for a, b in p["args"].items()}
        custom = None
        if p.get("custom"):
            xs = sorted(set(p["custom"]))
            custom = {"f": cg.ops.internal_gate.function_points_to_proto(x=[x / 4 for x in xs], y=[x * x / 8 for x in xs])}
        return cg.InternalGate(gate_name=p["name"], gate_module=p["module"], num_qubits=arity, custom_args=custom, **kw)
    if k == "ADQ":
        nd = None if p["nd"] is None else {a: build_arg(b) for a, b in p["nd"].items()}
        pnd = None if p["pnd"] is None else {a: build_arg(b) for a, b in p["pnd"].items()}
        return cg.AnalogDetuneQubit(length=build_arg(p["length"]), w=build_arg(p["w"]), target_freq=_uv(p["target"]), prev_freq=_uv(p["prev"]),
                                    neighbor_coupler_g_dict=nd, prev_neighbor_coupler_g_dict=pnd, linear_rise=bool(p["lin"]))
    if k in ("ADCO1", "ADCO2"):
        return cg.AnalogDetuneCouplerOnly(length=build_arg(p["length"]), w=build_arg(p["w"]), g_0=build_arg(p["g0"]), g_max=build_arg(p["gmax"]),
                                          g_ramp_exponent=_farg(p["exp"]), neighbor_qubits_freq=tuple(_uv(x) for x in p["nf"]),
                                          prev_neighbor_qubits_freq=tuple(_uv(x) for x in p["pnf"]), interpolate_coupling_cal=bool(p["interp"]),
                                          analog_cal_for_pulseshaping=bool(p["cal"]))
    # unsupported vocabulary
    if k == "CNOT":
        return cirq.CNOT
    if k == "SWAP":
        return cirq.SWAP
    if k == "XX":
        return cirq.XX ** 0.5
    if k == "CtrlX":
        return cirq.ControlledGate(cirq.X)
    if k == "Matrix":
        return cirq.MatrixGate(np.array([[0, 1], [1, 0]]))
    if k == "BitFlip":
        return cirq.bit_flip(0.1)
    if k == "AmpDamp":
        return cirq.amplitude_damp(0.1)
    if k == "Qid":
        return cirq.X
    raise KeyError(k)


# ------------------------------------------------------------------------------------------ programs


@st.composite
def op_recipes(draw, nq, sym=True, p_ctl=0.12):
    ar = draw(st.sampled_from([1, 1, 1, 1, 2, 2, 3])) if nq >= 3 else draw(st.sampled_from([1, 1, 2])) if nq >= 2 else 1
    g = draw(gate_recipes(ar, sym=sym))
    qs = list(draw(st.permutations(list(range(nq)))))[:ar]
    tags = draw(tag_lists())
    ctl = []
    if g[0] != "M" and draw(one_in(int(1 / p_ctl))):
        ctl = draw(st.lists(condition_recipes(), min_size=1, max_size=2, unique_by=repr))
    return {"g": g, "q": qs, "tags": tags, "ctl": ctl, "tag_outside": bool(ctl) and draw(one_in(10))}


@st.composite
def program_recipes(draw, max_q=6, sizes=(2, 3, 4, 5, 6, 8), subs=True, sym=True):
    nq = draw(st.sampled_from([1, 2, 3, 4, 4, 5, 5, max_q]))
    qubits = draw(st.lists(qubit_recipes(), min_size=nq, max_size=nq, unique_by=repr))
    nops = draw(st.sampled_from(sizes))
    ops = [draw(op_recipes(nq, sym=sym)) for _ in range(nops)]
    # variants: the same gate on the same qubits differing only in a tag / the same gate on other qubits
    nvar = draw(st.sampled_from([0, 1, 1, 2, 3]))
    for _ in range(nvar):
        base = dict(ops[draw(st.integers(0, len(ops) - 1))])
        how = draw(st.sampled_from(["tags", "tags", "tags", "qubits", "same"]))
        if how == "tags":
            base["tags"] = draw(st.lists(tag_recipes(), min_size=0 if base["tags"] else 1, max_size=2, unique_by=lambda t: repr(t)))
        elif how == "qubits":
            base["q"] = list(draw(st.permutations(list(range(nq)))))[: len(base["q"])]
        ops.append(base)
    r = {"qubits": qubits, "ops": ops, "subs": [], "cops": []}
    if subs and draw(one_in(2)):
        for si in range(draw(st.sampled_from([1, 1, 2]))):
            nm = draw(st.sampled_from([1, 2, 3]))
            r["subs"].append({"moments": [draw(_moment_refs(len(ops), len(r["cops"]))) for _ in range(nm)],
                              "tags": draw(tag_lists(1)) if draw(one_in(4)) else []})
            for _ in range(draw(st.sampled_from([1, 1, 2]))):
                r["cops"].append(draw(_cop_recipes(si, nq)))
        if draw(one_in(3)):  # a sub-circuit equal to the first one up to its tags, used by its own CircuitOperation
            r["subs"].append({"moments": r["subs"][0]["moments"], "tags": draw(st.lists(tag_recipes(), min_size=1, max_size=1))})
            r["cops"].append(draw(_cop_recipes(len(r["subs"]) - 1, nq)))
    npool = draw(st.sampled_from([1, 2, 3, 4, 5]))
    r["moments"] = [{"refs": draw(_moment_refs(len(ops), len(r["cops"]))), "tags": draw(tag_lists(2)) if draw(one_in(4)) else []}
                    for _ in range(npool)]
    if draw(one_in(4)):  # a moment equal to another one up to its tags
        base = dict(r["moments"][draw(st.integers(0, len(r["moments"]) - 1))])
        base["tags"] = draw(tag_lists(1))
        r["moments"].append(base)
    ncirc = draw(st.sampled_from([1, 2, 3, 4, 6, 8]))
    r["circuit"] = draw(st.lists(st.integers(0, len(r["moments"]) - 1), min_size=ncirc, max_size=ncirc))
    r["ctags"] = draw(tag_lists(1)) if draw(one_in(5)) else []
    if nq >= 2 and draw(one_in(5)):
        # tag serialized BEFORE the qubit whose proto id it spells: a leading moment X(q_i) tagged with the id of q_j (j != i)
        i, j = list(draw(st.permutations(list(range(nq)))))[:2]
        where = draw(st.sampled_from(["op", "op", "moment"]))
        r["ops"].append({"g": ["X", {"e": ["f", 1.0], "s": 0}], "q": [i], "tags": [["qid", j]] if where == "op" else [], "ctl": [], "tag_outside": False})
        r["moments"].append({"refs": [["o", len(r["ops"]) - 1]], "tags": [["qid", j]] if where == "moment" else []})
        r["circuit"] = [len(r["moments"]) - 1] + r["circuit"]
    return r


@st.composite
def _moment_refs(draw, nops, ncops):
    n = draw(st.sampled_from([1, 2, 3, 4, 5]))
    refs = [["o", i] for i in draw(st.lists(st.integers(0, nops - 1), min_size=n, max_size=n))]
    if ncops and draw(one_in(2)):
        refs.insert(draw(st.integers(0, len(refs))), ["c", draw(st.integers(0, ncops - 1))])
    return refs


@st.composite
def _cop_recipes(draw, sub, nq):
    reps = draw(st.sampled_from([1, 1, 2, 3, 0, 5]))
    rep_ids = None
    use = draw(st.booleans())
    if abs(reps) >= 1 and draw(one_in(3)):
        rep_ids = [draw(st.sampled_from(["r", "0", "x", "1"])) + str(i) for i in range(abs(reps))]
    until = None
    if not use and reps == 1 and draw(one_in(6)):
        until = draw(condition_recipes())
    return {
        "sub": sub, "reps": reps, "rep_ids": rep_ids, "use": use, "until": until,
        "qmap": draw(st.one_of(st.none(), st.permutations(list(range(nq))).map(list))),
        "kmap": draw(st.dictionaries(st.sampled_from(["m", "k0", "z"]), st.sampled_from(["m2", "out", "k0"]), max_size=2)),
        "params": draw(st.dictionaries(st.sampled_from(SYMS), st.one_of(numbers().map(lambda x: ["f", x]), st.sampled_from(SYMS + ["e2"]).map(lambda s: ["s", s]),
                                                                           st.integers(-2, 2).map(lambda i: ["i", i]), st.just(["add", ["s", "a"], ["f", 1.0]])), max_size=2)),
        "ctl": draw(st.lists(condition_recipes(), max_size=1)) if draw(one_in(4)) else [],
        "tags": draw(tag_lists(1)) if draw(one_in(25)) else [],
        "ppath": ["outer"] if draw(one_in(40)) else [],
    }


def build_op(r, o, qubits, ctx=None):
    import cirq

    qs = [qubits[i % len(qubits)] for i in o["q"]]
    seen = []
    for q in qs:
        if q not in seen:
            seen.append(q)
    qs = seen
    g = o["g"]
    if g[0] == "ADCO2" and len(qs) == 2 and not (all(isinstance(q, cirq.GridQubit) for q in qs) or all(isinstance(q, cirq.LineQubit) for q in qs)):
        qs = qs[:1]  # couplers between qubits of different kinds have no proto id form
    if g[0] == "Qid":
        qs = [cirq.LineQid(7, 3)]
        op = cirq.IdentityGate(qid_shape=(3,)).on(*qs)
    else:
        op = build_gate(g, len(qs)).on(*qs)
    tags = [build_tag(t, ctx) for t in o.get("tags", [])]
    ctl = [build_condition(c) for c in o.get("ctl", [])]
    if ctl and o.get("tag_outside"):
        op = op.with_classical_controls(*ctl)
        return op.with_tags(*tags) if tags else op
    if tags:
        op = op.with_tags(*tags)
    if ctl:
        op = op.with_classical_controls(*ctl)
    return op


def build_program(r):
    """-> (circuit, info) ; raises ValueError when cirq itself refuses the recipe (e.g. invalid CircuitOperation)."""
    import sympy

    import cirq

    qubits = [build_qubit(q) for q in r["qubits"]]
    if not qubits:
        qubits = [cirq.GridQubit(0, 0)]
    ctx = {"qubits": qubits}
    ops = [build_op(r, o, qubits, ctx) for o in r["ops"]]
    subs = []
    cops = []

    def moment(refs, tags=()):
        used = set()
        out = []
        for ref in refs:
            pool = ops if ref[0] == "o" else cops
            if not pool:
                continue
            op = pool[ref[1] % len(pool)]
            if used & set(op.qubits):
                continue
            used |= set(op.qubits)
            out.append(op)
        return cirq.Moment(out, tags=tuple(build_tag(t, ctx) for t in tags))

    ncops_per_sub = {}
    for c in r.get("cops", []):
        ncops_per_sub.setdefault(c["sub"], []).append(c)
    for si, s in enumerate(r.get("subs", [])):
        fc = cirq.FrozenCircuit([moment(m) for m in s["moments"]], tags=[build_tag(t, ctx) for t in s.get("tags", [])])
        subs.append(fc)
        for c in ncops_per_sub.get(si, []):
            kw = {}
            if c.get("qmap") is not None:
                sq = sorted(fc.all_qubits())
                perm = [qubits[i % len(qubits)] for i in c["qmap"]]
                tgt = []
                for q in perm:
                    if q not in tgt:
                        tgt.append(q)
                kw["qubit_map"] = {a: b for a, b in zip(sq, tgt)}
            if c.get("kmap"):
                kw["measurement_key_map"] = dict(c["kmap"])
            if c.get("params"):
                kw["param_resolver"] = {sympy.Symbol(a): build_expr(b if b[0] != "i" else ["f", b[1]]) if b[0] != "i" else int(b[1]) for a, b in c["params"].items()}
            if c.get("rep_ids") is not None:
                kw["repetition_ids"] = list(c["rep_ids"])
            if c.get("until") is not None:
                kw["repeat_until"] = build_condition(c["until"])
            if c.get("ppath"):
                kw["parent_path"] = tuple(c["ppath"])
            cop = cirq.CircuitOperation(fc, repetitions=int(c["reps"]), use_repetition_ids=bool(c["use"]), **kw)
            op = cop
            if c.get("tags"):
                op = op.with_tags(*[build_tag(t, ctx) for t in c["tags"]])
            if c.get("ctl"):
                op = op.with_classical_controls(*[build_condition(x) for x in c["ctl"]])
            cops.append(op)
    moments = [moment(m["refs"], m.get("tags", [])) for m in r["moments"]]
    if not moments:
        moments = [cirq.Moment()]
    circuit = cirq.Circuit([moments[i % len(moments)] for i in r["circuit"]], tags=[build_tag(t, ctx) for t in r.get("ctags", [])])
    return circuit


# ------------------------------------------------------------------------------------------ sweeps

KEYS = ["a", "b", "c", "d", "e", "f", "g", "h"]
UNIT_GROUPS = [["ns", "us", "ms"], ["kHz", "MHz", "GHz"], ["mV", "V"]]


def _point_values(exact):
    num = exact_numbers() if exact else numbers()
    return num.map(lambda x: ["f", x])


@st.composite
def _meta(draw):
    k = draw(st.sampled_from(["none", "none", "none", "dp", "dp", "md"]))
    if k == "none":
        return None
    if k == "dp":
        return ["dp", draw(st.lists(st.sampled_from(["q1", "readout", "freq", "x"]), min_size=1, max_size=3)),
                draw(st.sampled_from([None, None, 1, 2, 0, 5, 0, 2, 7, 4])), draw(st.sampled_from([None, "GHz", "ns", ""]))]
    dps = draw(st.one_of(st.none(), st.lists(st.tuples(st.lists(st.sampled_from(["q1", "p", "x"]), min_size=1, max_size=2),
                                                        st.sampled_from([None, 1, 2, 3, 0])).map(list), min_size=1, max_size=2)))
    return ["md", dps, draw(st.booleans()), draw(st.one_of(st.none(), st.sampled_from(["lbl", ""]))), draw(st.one_of(st.none(), st.sampled_from(["MHz", ""])))]


@st.composite
def _single(draw, key, exact):
    k = draw(st.sampled_from(["lin", "lin", "lin", "pts", "pts", "pts", "const", "const", "ulin", "ulin", "upts", "upts", "frv"]))
    if k == "pts" and draw(one_in(15)):
        k = "pts0"
    num = exact_numbers() if exact else numbers()
    if k == "lin":
        return ["lin", key, draw(num), draw(num), draw(st.integers(1, 4)), None, draw(_meta())]
    if k == "ulin":
        # start and stop in (possibly different) units of one dimension: ns/us/ms, kHz/MHz/GHz, mV/V
        grp = draw(st.sampled_from(UNIT_GROUPS))
        us, ue = draw(st.sampled_from(grp)), draw(st.sampled_from(grp))
        return ["lin", key, draw(num), draw(num), draw(st.sampled_from([1, 2, 3, 4])), us if us == ue else [us, ue], draw(_meta())]
    if k == "pts":
        vals = draw(st.lists(st.one_of(num.map(lambda x: ["f", x]), st.integers(-3, 3).map(lambda i: ["i", i])), min_size=2, max_size=4))
        return ["pts", key, vals, draw(_meta())]
    if k == "pts0":
        return ["pts", key, [], None]
    if k == "upts":
        grp = draw(st.sampled_from(UNIT_GROUPS))
        same = draw(st.booleans())
        u0 = draw(st.sampled_from(grp))
        n = draw(st.sampled_from([1, 2, 3, 3]))
        vals = [["u", draw(num), u0 if same else draw(st.sampled_from(grp))] for _ in range(n)]
        return ["pts", key, vals, draw(_meta())]
    if k == "const":
        v = draw(st.one_of(num.map(lambda x: ["f", x]), st.integers(-2 ** 40, 2 ** 40).map(lambda i: ["i", i]), st.sampled_from(STRS).map(lambda s: ["str", s]),
                           st.just(["none"])))
        return ["pts", key, [v], draw(_meta())]
    dist = draw(st.dictionaries(st.sampled_from([0.0, 1.0, -1.0, 0.5, 2.0]), st.sampled_from([1.0, 2.0, 0.5, 0.1]), min_size=1, max_size=draw(st.sampled_from([1, 1, 3]))))
    return ["frv", key, [[a, b] for a, b in sorted(dist.items())], draw(st.integers(0, 2 ** 31)), draw(st.integers(1, 4)), draw(_meta())]


@st.composite
def sweep_recipes(draw, depth=3, keys=None, exact=None):
    """Nested sweep recipe over fresh keys (left-to-right allocation keeps keys disjoint)."""
    top = keys is None
    if top:
        keys = list(KEYS)
    if exact is None:
        exact = draw(one_in(4))
    if depth <= 0 or len(keys) <= 1:
        k = "single"
    else:
        k = draw(st.sampled_from(["single", "zip", "prod", "prod", "zip", "concat", "ziplongest", "list", "unit"] if not top else
                                 ["zip", "prod", "prod", "zip", "concat", "ziplongest", "list", "single", "zip3", "prod3"]))
    if k == "single":
        return draw(_single(keys.pop(0), exact))
    if k == "unit":
        return ["unit"]
    if k in ("zip", "prod", "ziplongest", "zip3", "prod3"):
        n = 3 if k.endswith("3") else draw(st.integers(1, 3))
        kids = []
        for _ in range(n):
            if not keys:
                break
            c = draw(sweep_recipes(depth - 1, keys, exact))
            if k == "ziplongest" and c[0] in ("unit",):
                continue
            kids.append(c)
        if not kids:
            return ["unit"]
        return [k.rstrip("3"), kids]
    if k == "concat":
        key = keys.pop(0)
        n = draw(st.integers(1, 3))
        return ["concat", [draw(_single(key, exact).filter(lambda s: s[0] != "frv")) for _ in range(n)]]
    # list sweep
    nk = draw(st.integers(1, min(2, len(keys))))
    ks = [keys.pop(0) for _ in range(nk)]
    nrows = draw(st.integers(1, 3))
    num = exact_numbers() if exact else numbers()
    rows = []
    for i in range(nrows):
        row = {}
        for kk in ks:
            row[kk] = ["f", draw(num)]
        if draw(one_in(30)) and len(ks) > 1 and nrows > 1:
            row.pop(ks[-1])  # heterogeneous resolvers
        rows.append(row)
    return ["list", rows]


def build_meta(m):
    from cirq_google.study import DeviceParameter
    from cirq_google.study.device_parameter import Metadata

    if m is None:
        return None
    if m[0] == "dp":
        return DeviceParameter(path=list(m[1]), idx=m[2], units=m[3])
    dps = None if m[1] is None else [DeviceParameter(path=list(p), idx=i) for p, i in m[1]]
    return Metadata(device_parameters=dps, is_const=bool(m[2]), label=m[3], unit=m[4])


def _pt(v):
    import tunits

    t = v[0]
    if t == "f":
        return float(v[1])
    if t == "i":
        return int(v[1])
    if t == "str":
        return str(v[1])
    if t == "none":
        return None
    if t == "u":
        return v[1] * getattr(tunits, v[2])
    raise KeyError(t)


def build_sweep(r):
    import tunits

    import cirq
    from cirq_google.study import FiniteRandomVariable

    k = r[0]
    if k == "unit":
        return cirq.UnitSweep
    if k == "lin":
        _, key, a, b, n, unit, meta = (list(r) + [None, None])[:7]
        if unit:
            us, ue = (unit, unit) if isinstance(unit, str) else (unit[0], unit[1])
            return cirq.Linspace(key, a * getattr(tunits, us), b * getattr(tunits, ue), int(n), metadata=build_meta(meta))
        return cirq.Linspace(key, a, b, int(n), metadata=build_meta(meta))
    if k == "pts":
        return cirq.Points(r[1], [_pt(v) for v in r[2]], metadata=build_meta(r[3] if len(r) > 3 else None))
    if k == "frv":
        return FiniteRandomVariable(r[1], distribution={float(a): float(b) for a, b in r[2]}, seed=int(r[3]), length=int(r[4]),
                                    metadata=build_meta(r[5] if len(r) > 5 else None))
    if k == "zip":
        return cirq.Zip(*[build_sweep(c) for c in r[1]])
    if k == "ziplongest":
        return cirq.ZipLongest(*[build_sweep(c) for c in r[1]])
    if k == "prod":
        return cirq.Product(*[build_sweep(c) for c in r[1]])
    if k == "concat":
        return cirq.Concat(*[build_sweep(c) for c in r[1]])
    if k == "list":
        return cirq.ListSweep([cirq.ParamResolver({a: _pt(b) for a, b in row.items()}) for row in r[1]])
    raise KeyError(k)


# ------------------------------------------------------------------------------------------ results


@st.composite
def result_recipes(draw, max_reps=70):
    nkeys = draw(st.sampled_from([1, 1, 2, 3, 6, 12]))
    reps_choices = st.one_of(st.integers(0, max_reps), st.sampled_from([1, 7, 8, 9, 15, 16, 17, 63, 64, 65]))
    meas = []
    for i in range(nkeys):
        nq = draw(st.integers(1, 4))
        qs = draw(st.lists(st.tuples(st.integers(0, 5), st.integers(0, 5)).map(list), min_size=nq, max_size=nq, unique_by=repr))
        meas.append({"key": f"k{i}" if draw(st.integers(0, 3)) else draw(st.sampled_from(["m", "q(0,1)", "a b"])) + str(i), "qubits": qs,
                     "inst": draw(st.sampled_from([1, 1, 1, 2, 3])), "perm": list(draw(st.permutations(list(range(nq)))))})
    sweeps = []
    for _ in range(draw(st.integers(1, 2))):
        reps = draw(reps_choices)
        trials = []
        for _ in range(draw(st.integers(1, 2))):
            params = draw(st.dictionaries(st.sampled_from(SYMS), numbers(), max_size=2))
            bits = [draw(st.integers(0, 2 ** (max(1, reps * m["inst"] * len(m["qubits"]))) - 1)) for m in meas]
            trials.append({"params": params, "bits": [str(b) for b in bits]})
        sweeps.append({"reps": reps, "trials": trials})
    return {"meas": meas, "sweeps": sweeps, "use_info": draw(st.sampled_from(["same", "perm", "none"]))}


# ------------------------------------------------------------------------------------------ device specifications

GATE_SPECS = ["syc", "sqrt_iswap", "sqrt_iswap_inv", "cz", "cz_pow_gate", "phased_xz", "virtual_zpow", "physical_zpow", "coupler_pulse", "meas",
              "wait", "fsim_via_model", "two_pulse_fsim", "internal_gate", "reset", "analog_detune_qubit", "analog_detune_coupler_only",
              "wait_gate_with_unit"]
PROBES = ["SYC", "FSIM_SYC", "SQRT_ISWAP", "FSIM_SQRT_ISWAP", "SQRT_ISWAP_INV", "FSIM_SQRT_ISWAP_INV", "CZ", "FSIM_CZ", "CZ_POW", "PHXZ", "XPOW",
          "YPOW", "HPOW", "PHX", "IDENT", "CLIFF", "ZPOW", "ZPOW_PHYS", "COUPLER", "MEAS1", "MEAS2", "MEAS3", "WAIT1", "WAIT2", "WAITU",
          "FSIM_MODEL", "FSIM_TWO_PULSE", "INTERNAL1", "INTERNAL2", "RESET", "ADQ", "ADCO1", "CNOT", "ISWAP", "FSIM_OTHER"]
PROBE_ARITY = {"MEAS2": 2, "MEAS3": 3, "WAIT2": 2, "INTERNAL2": 2}
for _p in ("SYC", "FSIM_SYC", "SQRT_ISWAP", "FSIM_SQRT_ISWAP", "SQRT_ISWAP_INV", "FSIM_SQRT_ISWAP_INV", "CZ", "FSIM_CZ", "CZ_POW", "COUPLER",
           "FSIM_MODEL", "FSIM_TWO_PULSE", "CNOT", "ISWAP", "FSIM_OTHER"):
    PROBE_ARITY[_p] = 2


@st.composite
def device_recipes(draw):
    n = draw(st.sampled_from([1, 2, 3, 4, 5, 6, 7]))
    qubits = draw(st.lists(st.tuples(st.integers(0, 4), st.integers(0, 4)).map(list), min_size=n, max_size=n, unique_by=repr))
    bad = "dup" if draw(one_in(25)) else "name" if draw(one_in(25)) else "ok"
    if bad == "dup":
        qubits = qubits + [qubits[0]]
    elif bad == "name":
        qubits = qubits + [draw(st.sampled_from(["q1_2", "-1_2", "a", "1_2_3"]))]
    targets = []
    for ti in range(draw(st.sampled_from([0, 1, 1, 1, 2, 3]))):
        ordn = draw(st.sampled_from(["SYMMETRIC"] * 8 + ["SUBSET_PERMUTATION", "UNSPECIFIED", "UNSPECIFIED"] + (["ASYMMETRIC"] if draw(one_in(4)) else ["SYMMETRIC"])))
        size = 1 if ordn == "SUBSET_PERMUTATION" else draw(st.sampled_from([2, 2, 2, 2, 1, 3]))
        ts = []
        for _ in range(draw(st.sampled_from([1, 2, 3, 5, 6]))):
            t = list(draw(st.permutations(list(range(n)))))[:size]
            if size == 2 and draw(one_in(80)):
                t = [t[0], t[0]]
            if draw(one_in(120)):
                t = t[:-1] + ["9_9"]
            ts.append(t)
        targets.append({"name": f"ts{ti}", "ord": ordn, "t": ts})
    k = draw(st.sampled_from([0, 1, 2, 3, 5, 8, 12, len(GATE_SPECS)]))
    names = list(draw(st.permutations(GATE_SPECS)))[:k]
    if draw(st.sampled_from([True, True, False])):
        names = list(dict.fromkeys(names + ["phased_xz", "meas"] + draw(st.sampled_from([["cz"], ["syc"], ["sqrt_iswap"], ["cz_pow_gate"], ["cz", "syc"]]))))
    gates = [[g, draw(st.sampled_from([None, None, 0, 25000, 12345, 1]))] for g in names]
    attrs = []
    for _ in range(draw(st.sampled_from([0, 0, 1, 2]))):
        qi = draw(st.integers(0, n - 1))
        attrs.append([qi if not draw(one_in(60)) else "8_8", draw(st.sampled_from(["freq", "on", "label", "n"])),
                      draw(st.one_of(st.booleans(), st.integers(-3, 3), st.sampled_from([0.5, 1.25, 1e-3]), st.sampled_from(["x", ""]), st.none()))])
    pairs = [t for ts in targets if ts["ord"] == "SYMMETRIC" for t in ts["t"] if len(t) == 2 and not isinstance(t[1], str)]
    allowed = set()
    from vf.ref.c16_ref import SPEC_ACCEPTS
    for g in names:
        allowed |= SPEC_ACCEPTS[g]
    probes = []
    for _ in range(draw(st.sampled_from([4, 8, 12, 16]))):
        kind = draw(st.sampled_from(sorted(allowed))) if allowed and draw(st.sampled_from([True, True, False])) else draw(st.sampled_from(PROBES))
        ar = PROBE_ARITY.get(kind, 1)
        how = draw(st.sampled_from(["pair", "pair", "rev", "any", "any", "off"]))
        if ar == 2 and pairs and how in ("pair", "rev"):
            t = pairs[draw(st.integers(0, len(pairs) - 1))]
            qs = list(t) if how == "pair" else list(t)[::-1]
        else:
            hi = n + 1 if how == "off" else n - 1
            qs = [draw(st.sampled_from(list(range(hi + 1)))) for _ in range(ar)]  # indices >= n denote off-device qubits
        if len(set(qs)) < len(qs):
            continue
        probes.append([kind, qs])
    return {"qubits": qubits, "targets": targets, "gates": gates, "attrs": attrs, "probes": probes}
