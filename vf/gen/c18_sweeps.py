"""Sweepable descriptions for C18: JSON trees, an independent expansion into ordered parameter assignments, and
the construction of the corresponding Cirq object.

Node kinds
  sweeps     : pts {s, v}            cirq.Points(s, v)
               lin {s, stop, n}      cirq.Linspace(s, 0, stop, n)          (values chosen so that they are exact)
               zip / ziplong / prod / concat {subs}
               ls {pts: [items, ...]}  cirq.ListSweep of ParamResolvers, every resolver with its own key order
  sweepables : none, unit, empty ({}), dict {items}, res {items} (ParamResolver), dol {items: [[s, [v..]|v], ..]}
               (dict with list values = Cartesian product in dict order), list {subs, tup} (list / tuple of sweepables)
``items`` are ordered [[symbol, value], ...] lists: the key ORDER of every element is part of the recipe.
"""
from __future__ import annotations

from hypothesis import strategies as st

import cirq
from vf.core import Reject

SWEEPS = ("pts", "lin", "zip", "ziplong", "prod", "concat", "ls")


# ------------------------------------------------------------------------------------------ strategies


@st.composite
def _leaf(draw, s, values):
    if draw(st.integers(0, 4)) == 0:
        n = draw(st.integers(1, 3 if 2 in values else 2))  # 0 | 0, 1 | 0, 1, 2: exact in either interpolation formula
        return {"k": "lin", "s": s, "stop": 2 if n == 3 else 1, "n": n}
    return {"k": "pts", "s": s, "v": draw(st.lists(st.sampled_from(values), min_size=1, max_size=3))}


@st.composite
def _items(draw, order, values):
    return [[s, draw(st.sampled_from(values))] for s in order]


@st.composite
def _flat(draw, order, values):
    """zip / product / zip-longest of one leaf per symbol, keys exactly in `order`."""
    if len(order) == 1:
        return draw(_leaf(order[0], values))
    return {"k": draw(st.sampled_from(["zip", "prod", "prod", "ziplong"])), "subs": [draw(_leaf(s, values)) for s in order]}


@st.composite
def _sweep_over(draw, order, values, depth=0):
    c = draw(st.integers(0, 9))
    if c < 4 or depth >= 2:
        return draw(_flat(order, values))
    if c < 6:
        n = draw(st.integers(1, 3))
        pts = []
        for i in range(n):
            o = order if i == 0 and draw(st.booleans()) else list(draw(st.permutations(order)))
            pts.append(draw(_items(o, values)))
        return {"k": "ls", "pts": pts}
    if c < 8:
        return {"k": "concat", "subs": [draw(_flat(order, values)) for _ in range(draw(st.integers(2, 3)))]}
    if len(order) >= 2:
        cut = draw(st.integers(1, len(order) - 1))
        return {"k": draw(st.sampled_from(["zip", "prod", "ziplong"])),
                "subs": [draw(_sweep_over(order[:cut], values, depth + 1)), draw(_sweep_over(order[cut:], values, depth + 1))]}
    return draw(_flat(order, values))


@st.composite
def _element(draw, order, values):
    c = draw(st.integers(0, 9))
    if c < 2:
        return {"k": "dict", "items": draw(_items(order, values))}
    if c < 4:
        return {"k": "res", "items": draw(_items(order, values))}
    if c < 5:
        its = []
        for s in order:
            its.append([s, draw(st.lists(st.sampled_from(values), min_size=1, max_size=2)) if draw(st.booleans()) else draw(st.sampled_from(values))])
        return {"k": "dol", "items": its}
    return draw(_sweep_over(order, values))


@st.composite
def sweepables(draw, syms, values, allow_subset=False):
    """A Sweepable over the symbols `syms`; every element draws its own key order."""
    syms = list(syms)
    if not syms:
        base = st.sampled_from([{"k": "none"}, {"k": "unit"}, {"k": "empty"}, {"k": "res", "items": []}, {"k": "dict", "items": []}])
        if draw(st.integers(0, 2)) == 0:
            return {"k": "list", "tup": draw(st.booleans()), "subs": draw(st.lists(base, min_size=1, max_size=2))}
        return draw(base)
    perm = lambda: list(draw(st.permutations(syms)))  # noqa
    if draw(st.integers(0, 2)) == 0:
        return draw(_element(perm(), values))
    subs = []
    for _ in range(draw(st.integers(1, 3))):
        e = draw(_element(perm(), values))
        if draw(st.integers(0, 5)) == 0:
            e = {"k": "list", "tup": draw(st.booleans()), "subs": [e, draw(_element(perm(), values))]}
        subs.append(e)
    if allow_subset and len(syms) >= 2 and draw(st.integers(0, 7)) == 0:
        subs.insert(draw(st.integers(0, len(subs))), draw(_element(perm()[: len(syms) - 1], values)))
    return {"k": "list", "tup": draw(st.booleans()), "subs": subs}


# ------------------------------------------------------------------------------------------ legacy recipes


def upgrade(sw, syms):
    """Recipes written before the tree form ({"kind": ...}) keep working."""
    if not isinstance(sw, dict):
        raise Reject("malformed sweepable")
    if "k" in sw:
        return sw
    kind = sw.get("kind")
    pts = sw.get("pts") or [{}]
    items = lambda p: [[s, p.get(s, 0)] for s in syms]  # noqa
    cols = {s: list((sw.get("cols") or {}).get(s) or [0]) for s in syms}
    flat = lambda c, k: {"k": k, "subs": [{"k": "pts", "s": s, "v": c[s]} for s in syms]} if len(syms) > 1 else {"k": "pts", "s": syms[0], "v": c[syms[0]]}  # noqa
    if kind == "none":
        return {"k": "none"}
    if kind == "empty_dict":
        return {"k": "empty"}
    if kind == "unit":
        return {"k": "unit"}
    if kind == "dict":
        return {"k": "dict", "items": items(pts[0])}
    if kind == "resolver":
        return {"k": "res", "items": items(pts[0])}
    if kind == "dictlist":
        return {"k": "list", "subs": [{"k": "dict", "items": items(p)} for p in pts]}
    if kind == "listsweep":
        return {"k": "ls", "pts": [items(p) for p in pts]} if syms else {"k": "unit"}
    if not syms:
        return {"k": "none"}
    if kind == "zip":
        return flat(cols, "zip")
    if kind == "product":
        return flat(cols, "prod")
    if kind == "dict_of_lists":
        return {"k": "dol", "items": [[s, cols[s]] for s in syms]}
    if kind == "points_sum":
        return {"k": "concat", "subs": [flat(cols, "zip"), flat({s: cols[s][:1] for s in syms}, "zip")]}
    if kind == "sweeplist":
        c2 = {s: list((sw.get("cols2") or {}).get(s) or [0]) for s in syms}
        return {"k": "list", "subs": [flat(cols, "zip"), flat(c2, "zip")]}
    raise Reject("unknown sweepable kind")


# ------------------------------------------------------------------------------------------ reference semantics


def _vals(node):
    if node["k"] == "pts":
        v = list(node.get("v") or [])
        if not v:
            raise Reject("empty sweep")
        return v
    n = max(1, min(3, int(node.get("n", 1))))
    stop = int(node.get("stop", 1)) or 1
    if n == 1:
        return [0]
    return [stop * i / (n - 1) for i in range(n)]  # n=2: 0, stop ; n=3: 0, stop/2, stop (exact for stop in 1, 2)


def keys_of(node):
    """Key list as a Sweep reports it (order matters for Concat)."""
    k = node["k"]
    if k in ("pts", "lin"):
        return [node["s"]]
    if k in ("zip", "ziplong", "prod"):
        out = []
        for s in node["subs"]:
            out += keys_of(s)
        return out
    if k == "concat":
        return keys_of(node["subs"][0])
    if k == "ls":
        return [it[0] for it in node["pts"][0]]
    raise Reject("not a sweep")


def validate(node):
    k = node.get("k")
    if k in ("pts", "lin"):
        if not isinstance(node.get("s"), str):
            raise Reject("malformed sweepable")
        _vals(node)
    elif k in ("zip", "ziplong", "prod", "concat"):
        if not node.get("subs"):
            raise Reject("malformed sweepable")
        for s in node["subs"]:
            if s.get("k") not in SWEEPS:
                raise Reject("malformed sweepable")
            validate(s)
        if k == "concat":
            if any(keys_of(s) != keys_of(node["subs"][0]) for s in node["subs"]):
                raise Reject("concat of sweeps with different keys")
        else:
            ks = keys_of(node)
            if len(set(ks)) != len(ks):
                raise Reject("overlapping keys")
    elif k == "ls":
        if not node.get("pts") or any(not p for p in node["pts"]):
            raise Reject("malformed sweepable")
        for p in node["pts"]:
            if len({it[0] for it in p}) != len(p) or {it[0] for it in p} != {it[0] for it in node["pts"][0]}:
                raise Reject("malformed resolver list")
    elif k in ("dict", "res", "dol"):
        its = node.get("items") or []
        if len({it[0] for it in its}) != len(its):
            raise Reject("malformed items")
        if k == "dol" and any(isinstance(it[1], list) and not it[1] for it in its):
            raise Reject("empty sweep")
    elif k == "list":
        if not node.get("subs"):
            raise Reject("empty sweepable list")
        for s in node["subs"]:
            validate(s)
    elif k not in ("none", "unit", "empty"):
        raise Reject("unknown sweepable node")


def expand(node):
    """-> list of parameter assignments (dicts), in the documented iteration order."""
    k = node["k"]
    if k in ("none", "unit", "empty"):
        return [{}]
    if k in ("dict", "res"):
        return [{s: v for s, v in node.get("items") or []}]
    if k == "dol":
        out = [{}]
        for s, v in node.get("items") or []:  # first entry is the outermost loop
            vs = v if isinstance(v, list) else [v]
            out = [dict(o, **{s: x}) for o in out for x in vs]
        return out
    if k in ("pts", "lin"):
        return [{node["s"]: v} for v in _vals(node)]
    if k == "ls":
        return [{s: v for s, v in p} for p in node["pts"]]
    subs = [expand(s) for s in node["subs"]]
    if k == "list":
        return [p for s in subs for p in s]
    if k == "concat":
        return [p for s in subs for p in s]
    if k == "zip":
        n = min(len(s) for s in subs)
        return [_merge(s[i] for s in subs) for i in range(n)]
    if k == "ziplong":  # shorter sweeps repeat their last value
        n = max(len(s) for s in subs)
        return [_merge(s[min(i, len(s) - 1)] for s in subs) for i in range(n)]
    if k == "prod":  # first factor slowest
        out = [{}]
        for s in subs:
            out = [dict(o, **p) for o in out for p in s]
        return out
    raise Reject("unknown sweepable node")


def _merge(ds):
    out = {}
    for d in ds:
        out.update(d)
    return out


def sweep_units(node):
    """-> list of lists of assignments: one inner list per Sweep that cirq.to_sweeps documents for the sweepable
    (None, a resolver, a Sweep -> one; a dict -> one per expanded assignment; an iterable -> concatenation)."""
    k = node["k"]
    if k == "list":
        return [u for s in node["subs"] for u in sweep_units(s)]
    if k in ("dict", "dol", "empty"):
        return [[p] for p in expand(node)]
    return [expand(node)]


# ------------------------------------------------------------------------------------------ construction


def build(node):
    k = node["k"]
    if k == "none":
        return None
    if k == "unit":
        return cirq.UnitSweep
    if k == "empty":
        return {}
    if k == "dict":
        return {s: v for s, v in node.get("items") or []}
    if k == "res":
        return cirq.ParamResolver({s: v for s, v in node.get("items") or []})
    if k == "dol":
        return {s: (list(v) if isinstance(v, list) else v) for s, v in node.get("items") or []}
    if k == "pts":
        return cirq.Points(node["s"], list(node["v"]))
    if k == "lin":
        n = max(1, min(3, int(node.get("n", 1))))
        return cirq.Linspace(node["s"], 0, int(node.get("stop", 1)) or 1, n)
    if k == "ls":
        return cirq.ListSweep([cirq.ParamResolver({s: v for s, v in p}) for p in node["pts"]])
    subs = [build(s) for s in node["subs"]]
    if k == "list":
        return tuple(subs) if node.get("tup") else subs
    return {"zip": cirq.Zip, "ziplong": cirq.ZipLongest, "prod": cirq.Product, "concat": cirq.Concat}[k](*subs)


def describe(node):
    k = node["k"]
    if k in ("none", "unit", "empty"):
        return k
    if k in ("dict", "res"):
        return f"{k}{[it[0] for it in node.get('items') or []]}"
    if k == "dol":
        return f"dict-of-lists{[it[0] for it in node.get('items') or []]}"
    if k in ("pts", "lin"):
        return f"{k}({node['s']})"
    if k == "ls":
        return "ListSweep[" + ", ".join("".join(it[0] for it in p) for p in node["pts"]) + "]"
    return f"{k}(" + ", ".join(describe(s) for s in node["subs"]) + ")"
