"""Circuit recipes and builders.

Recipe (JSON-able):
  {"dims": [2,2,3], "qkind": "line"|"grid"|"named"|"mixed", "names": [2,0,1],
   "ops": [{"g": [family, params], "w": [wire indices], "ins": 0..3, "tag": bool?,
            "ctl": {"w": [control wires], "v": [[enabled levels] per control], "sop": [[level per control] rows]?}?}, ...],
   "empties": [positions of explicit empty moments]}
(``wrappers=True`` only: "tag", "ctl" - op.controlled_by(controls, control_values=ProductOfSums v | SumOfProducts sop) - and the
qudit power gates QuditXPow / QuditZPow = cirq.XPowGate / ZPowGate(exponent, global_shift, dimension).)
Wire i is the qubit ``qubit_for(recipe, i)``; ``names`` is a permutation so that sorted order of the
qubits differs from wire order.
"""
from __future__ import annotations

from hypothesis import strategies as st

from . import gates as G

INS = ["EARLIEST", "NEW", "INLINE", "NEW_THEN_INLINE"]


def qubit_for(recipe, i):
    import cirq

    d = recipe["dims"][i]
    k = recipe["names"][i]
    kind = recipe.get("qkind", "line")
    if kind == "mixed":
        kind = ["line", "grid", "named"][k % 3]
    if kind == "line":
        return cirq.LineQubit(k) if d == 2 else cirq.LineQid(k, dimension=d)
    if kind == "grid":
        return cirq.GridQubit(k // 2, k % 3) if d == 2 else cirq.GridQid(k // 2, k % 3, dimension=d)
    q = cirq.NamedQubit(f"q{k}") if d == 2 else cirq.NamedQid(f"q{k}", dimension=d)
    return q


def qubits_of(recipe):
    return [qubit_for(recipe, i) for i in range(len(recipe["dims"]))]


@st.composite
def wires(draw, min_w=1, max_w=4, qudits=False):
    n = draw(st.integers(min_w, max_w))
    if qudits:
        dims = draw(st.lists(st.sampled_from([2, 2, 3, 3, 4]), min_size=n, max_size=n))
    else:
        dims = [2] * n
    names = draw(st.permutations(list(range(n + 2))))[:n]
    qkind = draw(st.sampled_from(["line", "line", "grid", "named", "mixed"]))
    return {"dims": dims, "names": list(names), "qkind": qkind}


def _gate_for_wires(pred):
    """strategy: given dims of chosen wires -> gate recipe or None."""
    pass


QUDIT_POW = {"QuditXPow": "XPowGate", "QuditZPow": "ZPowGate"}


@st.composite
def _controls(draw, dims, used):
    """Controls on wires the operation does not use: any non-empty subset of levels per control (ProductOfSums), or a
    non-empty set of rows (SumOfProducts)."""
    free = [i for i in range(len(dims)) if i not in used]
    k = draw(st.integers(1, min(2, len(free))))
    w = list(draw(st.permutations(free)))[:k]
    v = []
    for i in w:
        d = dims[i]
        lv = [x for x in range(d) if draw(st.booleans())]
        if not lv:
            lv = [draw(st.integers(0, d - 1))]
        if draw(st.integers(0, 3)) == 0:
            lv = list(draw(st.permutations(lv)))  # unsorted input
        v.append(lv)
    ctl = {"w": w, "v": v}
    if draw(st.integers(0, 3)) == 0:
        rows = draw(st.lists(st.tuples(*[st.integers(0, dims[i] - 1) for i in w]), min_size=1, max_size=4, unique=True))
        ctl["sop"] = [list(x) for x in rows]
    return ctl


@st.composite
def op_on(draw, dims, pred, max_arity=3, wrappers=False):
    """One operation recipe {"g":..., "w":[...]} on a register with ``dims``; qudit-aware."""
    o = draw(_bare_op_on(dims, pred, max_arity, wrappers))
    if wrappers:
        if len(o["w"]) < len(dims) and draw(st.integers(0, 3)) == 0:
            o["ctl"] = draw(_controls(dims, o["w"]))
        if draw(st.integers(0, 7)) == 0:
            o["tag"] = True
    return o


@st.composite
def _bare_op_on(draw, dims, pred, max_arity=3, wrappers=False):
    n = len(dims)
    G._lazy()
    qubit_wires = [i for i, d in enumerate(dims) if d == 2]
    qudit_wires = [i for i, d in enumerate(dims) if d != 2]
    use_qudit = bool(qudit_wires) and (not qubit_wires or draw(st.integers(0, 2)) == 0)
    if use_qudit:
        kind = draw(st.sampled_from(["QuditMatrix", "QuditPlus", "QuditIdentity", "QuditMatrix2"] + (list(QUDIT_POW) * 2 if wrappers else [])))
        if kind in QUDIT_POW:
            w = draw(st.sampled_from(qudit_wires))
            d = dims[w]
            e = draw(st.one_of(st.sampled_from([1, 2, 3, -1, -2, 0.5, -0.5, 0.25, 1.5, 2.5, -1.5, d, -d, d + 1, 0, 2 / d, 1 / d]), G.exponents()))
            return {"g": [kind, {"d": d, "e": e, "s": draw(G.shifts())}], "w": [w]}
        if kind == "QuditMatrix2" and n >= 2:
            w = draw(st.permutations(list(range(n))))[:2]
            dd = [dims[w[0]], dims[w[1]]]
            D = dd[0] * dd[1]
            v = draw(st.lists(G.small_floats(), min_size=2 * D * D, max_size=2 * D * D))
            return {"g": ["QuditMatrix2", {"d": dd, "v": v}], "w": list(w)}
        w = draw(st.sampled_from(qudit_wires))
        d = dims[w]
        if kind == "QuditPlus":
            return {"g": ["QuditPlus", {"d": d, "k": draw(st.integers(1, d - 1))}], "w": [w]}
        if kind == "QuditIdentity":
            return {"g": ["QuditIdentity", {"d": d}], "w": [w]}
        v = draw(st.lists(G.small_floats(), min_size=2 * d * d, max_size=2 * d * d))
        return {"g": ["QuditMatrix", {"d": d, "v": v}], "w": [w]}
    g = draw(G.gate_recipes(pred, max_arity=min(max_arity, len(qubit_wires))))
    k = G.arity(g)
    w = draw(st.permutations(qubit_wires))[:k]
    return {"g": g, "w": list(w)}


@st.composite
def circuit_recipes(draw, pred=lambda f: f.unitary and not f.qudit, min_w=1, max_w=4, max_ops=10, qudits=False,
                    min_ops=0, max_arity=3, wrappers=False):
    r = draw(wires(min_w, max_w, qudits))
    nops = draw(st.integers(min_ops, max_ops))
    ops = []
    for _ in range(nops):
        o = draw(op_on(r["dims"], pred, max_arity, wrappers))
        o["ins"] = draw(st.sampled_from([0, 0, 0, 1, 2, 3]))
        ops.append(o)
    r["ops"] = ops
    r["empties"] = draw(st.lists(st.integers(0, max(0, nops)), max_size=2))
    return r


def _ctl_ok(recipe, o, ctl):
    try:
        dims = recipe["dims"]
        w = ctl["w"]
        if not w or len(set(w)) != len(w) or set(w) & set(o["w"]) or any(not 0 <= i < len(dims) for i in w):
            return False
        if ctl.get("sop"):
            return all(len(row) == len(w) and all(0 <= x < dims[i] for x, i in zip(row, w)) for row in ctl["sop"])
        return len(ctl["v"]) == len(w) and all(v and all(0 <= x < dims[i] for x in v) for v, i in zip(ctl["v"], w))
    except (KeyError, TypeError):
        return False


def build_op(recipe, o):
    import cirq

    if o["g"][0] in QUDIT_POW:
        p = o["g"][1]
        g = getattr(cirq, QUDIT_POW[o["g"][0]])(exponent=p["e"], global_shift=p.get("s", 0.0), dimension=p["d"])
    else:
        g = G.build_gate(o["g"])
    qs = [qubit_for(recipe, i) for i in o["w"]]
    op = g.on(*qs)
    ctl = o.get("ctl")
    if _ctl_ok(recipe, o, ctl):  # (a minimised recipe may carry a mutilated control spec: then the op is left uncontrolled)
        cq = [qubit_for(recipe, i) for i in ctl["w"]]
        if ctl.get("sop"):
            cv = cirq.SumOfProducts([tuple(row) for row in ctl["sop"]])
        else:
            cv = [tuple(v) for v in ctl["v"]]
        op = op.controlled_by(*cq, control_values=cv)
    if o.get("tag"):
        op = op.with_tags("vf_tag")
    return op


def build_circuit(recipe):
    """Returns (circuit, qubits in wire order)."""
    import cirq

    c = cirq.Circuit()
    empties = sorted(recipe.get("empties", []))
    for i, o in enumerate(recipe["ops"]):
        for e in empties:
            if e == i:
                c.append(cirq.Moment())
        c.append(build_op(recipe, o), strategy=getattr(cirq.InsertStrategy, INS[o.get("ins", 0)]))
    for e in empties:
        if e >= len(recipe["ops"]):
            c.append(cirq.Moment())
    return c, qubits_of(recipe)
