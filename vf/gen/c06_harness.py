"""C06 helpers: harness-supplied (correct by construction) merge/map functions and structural oracles."""
from __future__ import annotations

from collections import Counter

import numpy as np

import cirq
from vf.gen import c06_circuits as G6
from vf.ref import linalg as L

VF_MERGED = "vf_merged"
INPUT_TAGS = {G6.IGN, G6.OTHER, G6.MAPPED, G6.SUBTAG}


def has_keys(op) -> bool:
    return bool(cirq.measurement_key_objs(op)) or bool(cirq.control_keys(op))


def ignored(op) -> bool:
    return G6.IGN in op.tags


def plain_unitary(op, max_q=3) -> bool:
    """A unitary, untagged-for-ignore, key-free, non-parameterised operation on <= max_q qids."""
    return (not ignored(op) and len(op.qubits) <= max_q and not cirq.is_parameterized(op) and not has_keys(op)
            and cirq.has_unitary(op))


def matrix_op(u, qubits):
    shape = tuple(q.dimension for q in qubits)
    if len(qubits) == 0:
        return cirq.global_phase_operation(complex(u[0, 0]))
    return cirq.MatrixGate(np.asarray(u), qid_shape=shape).on(*qubits)


def product_on(ops_in_time_order, qubits):
    """Reference product of the unitaries of ops (each acting inside ``qubits``) on the order ``qubits``."""
    shape = [q.dimension for q in qubits]
    pos = {q: i for i, q in enumerate(qubits)}
    return L.circuit_unitary([(cirq.unitary(o), [pos[q] for q in o.qubits]) for o in ops_in_time_order], shape)


# ------------------------------------------------------------------------------ merge_operations


def merge_func(kind):
    def none(a, b):
        return None

    def matrix(a, b, lim=2):
        if not (plain_unitary(a) and plain_unitary(b)):
            return None
        qs = a.qubits if len(a.qubits) >= len(b.qubits) else b.qubits
        if not (set(a.qubits) <= set(qs) and set(b.qubits) <= set(qs)) or len(qs) > lim:
            return None
        return matrix_op(product_on([a, b], list(qs)), list(qs))

    def one_q(a, b):
        return matrix(a, b, lim=1)

    def circuit_op(a, b):
        if ignored(a) or ignored(b) or len(set(a.qubits) | set(b.qubits)) > 2:
            return None
        if cirq.is_parameterized(a) or cirq.is_parameterized(b):
            return None
        return cirq.CircuitOperation(cirq.FrozenCircuit(a, b)).with_tags(VF_MERGED)

    return [none, matrix, one_q, circuit_op][kind % 4]


def can_merge(kind):
    def never(l, r):
        return False

    def unitary2(l, r):
        return all(plain_unitary(o, 2) for o in list(l) + list(r))

    def always(l, r):
        return not any(cirq.is_parameterized(o) for o in list(l) + list(r))

    def one_q(l, r):
        return all(plain_unitary(o, 1) for o in list(l) + list(r))

    return [never, unitary2, always, one_q][kind % 4]


# ------------------------------------------------------------------------------ merge_moments


def _moment_1q(m):
    return len(m) > 0 and all(plain_unitary(o, 1) for o in m)


def _merge_1q(moments):
    per = {}
    zero = []
    for m in moments:
        for o in m:
            if len(o.qubits) == 0:
                zero.append(o)
            else:
                per.setdefault(o.qubits[0], []).append(o)
    ops = [matrix_op(product_on(v, [q]), [q]) for q, v in per.items()]
    if zero:
        ph = 1.0 + 0j
        for o in zero:
            ph *= complex(cirq.unitary(o)[0, 0])
        ops.append(cirq.global_phase_operation(ph))
    return cirq.Moment(ops)


def _disjoint_ok(m1, m2):
    if m1.qubits & m2.qubits:
        return False
    return not any(has_keys(o) for o in list(m1) + list(m2))


def moments_merge_func(kind):
    def none(a, b):
        return None

    def one_q(a, b):
        return _merge_1q([a, b]) if _moment_1q(a) and _moment_1q(b) else None

    def disjoint(a, b):
        return cirq.Moment(list(a.operations) + list(b.operations)) if _disjoint_ok(a, b) else None

    return [none, one_q, disjoint][kind % 3]


def moments_batch_func(kind):
    def trivial(ms):
        return ms[0], ms[1:]

    def one_q(ms):
        n = 0
        while n < len(ms) and _moment_1q(ms[n]):
            n += 1
        if n <= 1:
            return ms[0], ms[1:]
        return _merge_1q(ms[:n]), ms[n:]

    def disjoint(ms):
        cur = ms[0]
        n = 1
        while n < len(ms) and _disjoint_ok(cur, ms[n]):
            cur = cirq.Moment(list(cur.operations) + list(ms[n].operations))
            n += 1
        return cur, ms[n:]

    return [trivial, one_q, disjoint][kind % 3]


# ------------------------------------------------------------------------------ map_moments / map_operations


def map_moment_func(kind):
    def ident(m, i):
        return m

    def pad(m, i):
        return [m, cirq.Moment()]

    def split(m, i):
        a = [o for o in m if plain_unitary(o, 1) and len(o.qubits) == 1]
        b = [o for o in m if o not in a]
        if a and b:
            return [cirq.Moment(a), cirq.Moment(b)]
        return m

    def drop(m, i):
        return m if m else []

    return [ident, pad, split, drop][kind % 4]


def map_op_func(kind, floats):
    v1 = L.random_unitary_from_floats(list(floats) + [0.3] * 8, 2)

    def ident(op, i):
        return op

    def split(op, i):
        if not plain_unitary(op, 2) or len(op.qubits) == 0 or any(q.dimension != 2 for q in op.qubits):
            return op
        if isinstance(op.untagged, cirq.CircuitOperation):
            return op
        v = v1 if len(op.qubits) == 1 else np.kron(v1, v1.conj())
        u = cirq.unitary(op)
        return [matrix_op(v, list(op.qubits)), matrix_op(u @ v.conj().T, list(op.qubits))]

    def drop_identity(op, i):
        if not plain_unitary(op, 2) or isinstance(op.untagged, cirq.CircuitOperation):
            return op
        u = cirq.unitary(op)
        if abs(abs(u[0, 0]) - 1) < 1e-12 and np.allclose(u, u[0, 0] * np.eye(len(u)), rtol=0.0, atol=1e-12):
            return []
        return op

    def one_q_factor(op, i):
        # a 2-qubit op becomes itself followed by a cancelling pair on its first qubit only (subset of qubits)
        if not plain_unitary(op, 2) or len(op.qubits) != 2 or any(q.dimension != 2 for q in op.qubits):
            return op
        if isinstance(op.untagged, cirq.CircuitOperation):
            return op
        q = op.qubits[0]
        return [op, matrix_op(v1, [q]), matrix_op(v1.conj().T, [q])]

    return [ident, split, drop_identity, one_q_factor][kind % 4]


# ------------------------------------------------------------------------------ structural oracles


def moments_of(c):
    return tuple(c.moments)


def top_circuit_ops(c):
    return [op for op in c.all_operations() if isinstance(op.untagged, cirq.CircuitOperation)]


def ignored_ops(c, deep):
    """Counter of operations carrying the ignore tag (top level; recursively through non-ignored sub-circuits if deep)."""
    out = Counter()
    for op in c.all_operations():
        if ignored(op):
            out[op] += 1
        elif deep and isinstance(op.untagged, cirq.CircuitOperation):
            out.update(ignored_ops(op.untagged.circuit, deep))
    return out


def all_ignored_ops(c):
    """Counter of ignore-tagged ops at any depth (also inside ignored sub-circuits)."""
    out = Counter()
    for op in c.all_operations():
        if ignored(op):
            out[op] += 1
        if isinstance(op.untagged, cirq.CircuitOperation):
            out.update(all_ignored_ops(op.untagged.circuit))
    return out


def tagsets(c, deep):
    """[(untagged op with sub-circuits stripped of tags if deep, frozenset(tags))] in program order."""
    out = []
    for op in c.all_operations():
        u = op.untagged
        if deep and isinstance(u, cirq.CircuitOperation):
            out.append(("sub", frozenset(op.tags), tuple(tagsets(u.circuit, deep))))
        else:
            out.append((u, frozenset(op.tags)))
    return out


def generic_state(seed: int, D: int):
    """Deterministic generic (all amplitudes non-zero, distinct phases) state from a drawn integer."""
    k = np.arange(1, D + 1, dtype=float)
    ph = np.mod(0.6180339887498949 * k * (seed % 97 + 1) + 0.137 * seed, 1.0)
    mag = 1.0 + np.mod(1.4142135623730951 * k * (seed % 89 + 3), 1.0)
    v = mag * np.exp(2j * np.pi * ph)
    return v / np.linalg.norm(v)


def ignored_moment_class(c) -> bool:
    """Some moment holds >= 2 ignore-tagged operations whose qubits became free at different times, and a later operation
    that is not ignored acts on a qubit of one of them."""
    moments = list(c)
    for i, m in enumerate(moments):
        ign = [op for op in m if ignored(op) and op.qubits]
        if len(ign) < 2:
            continue
        free = []
        for op in ign:
            prev = c.prev_moment_operating_on(op.qubits, i)
            free.append(-1 if prev is None else prev)
        if len(set(free)) < 2:
            continue
        qs = set(q for op in ign for q in op.qubits)
        for later in moments[i + 1:]:
            if any((not ignored(op)) and qs & set(op.qubits) for op in later):
                return True
    return False
