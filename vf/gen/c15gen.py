"""C15 generators: *structured* unitaries / states so that measure-zero classes have positive probability.

Recipes are plain JSON; ``build_*`` turn them into numpy arrays (no Cirq involved) that are unitary
to ~1e-15 (polar re-projection after construction).
"""
from __future__ import annotations

import math

import numpy as np
from hypothesis import strategies as st

from vf.ref import c15ref as R
from vf.ref import linalg as L

PI = math.pi
Q = PI / 4

EPS = [0.0, 1e-12, 1e-9, 1e-7, 1e-5]
ATOLS = [1e-8, 1e-8, 1e-8, 1e-7, 1e-6, 1e-5]


def _pad(v, n):
    v = [float(x) for x in (v or [])][:n]
    return v + [0.0] * (n - len(v))


def unit_floats():
    return st.floats(-1, 1, allow_nan=False, allow_infinity=False, width=64)


def eps_values():
    return st.sampled_from(EPS)


def atols():
    return st.sampled_from(ATOLS)


def phases():
    return st.one_of(
        st.sampled_from([0.0, 0.0, PI / 2, PI, -PI / 2, PI / 4, 2 * PI / 3]),
        st.floats(-PI, PI, allow_nan=False, width=64),
    )


# ----------------------------------------------------------------------------- one qubit

NAMED_1Q = {
    "I": np.eye(2, dtype=complex),
    "X": L.PX, "Y": L.PY, "Z": L.PZ,
    "H": np.array([[1, 1], [1, -1]], dtype=complex) / math.sqrt(2),
    "S": np.diag([1, 1j]).astype(complex),
    "Sdg": np.diag([1, -1j]).astype(complex),
    "T": np.diag([1, np.exp(1j * PI / 4)]).astype(complex),
    "sqrtX": np.array([[1 + 1j, 1 - 1j], [1 - 1j, 1 + 1j]], dtype=complex) / 2,
    "sqrtY": np.array([[1 + 1j, -1 - 1j], [1 + 1j, 1 + 1j]], dtype=complex) / 2,
    "HS": (np.array([[1, 1], [1, -1]], dtype=complex) / math.sqrt(2)) @ np.diag([1, 1j]),
    "-I": -np.eye(2, dtype=complex),
    "iX": 1j * L.PX,
}
AXES = [[1, 0, 0], [0, 1, 0], [0, 0, 1], [1, 1, 0], [1, 0, 1], [0, 1, 1], [1, 1, 1], [-1, 0, 0], [0, 0, -1], [1, -1, 0]]
ANGLES = [0.0, PI, -PI, PI / 2, -PI / 2, PI / 4, 2 * PI, 3 * PI, 4 * PI, PI / 3]


@st.composite
def oneq(draw, generic_weight=1):
    """1-qubit unitary recipe: exact named gates, axis rotations with special / near-special angles, QR-generic."""
    # Hypothesis never repeats an example, so the small "named" class saturates; weights are tuned on the measured
    # label histogram (special >= 55 %), not on nominal probabilities
    k = draw(st.sampled_from(["rot"] * 8 + ["named"] * 3 + ["qr"] * generic_weight))
    ph = draw(phases())
    if k == "named":
        return {"k": "named", "name": draw(st.sampled_from(sorted(NAMED_1Q))), "ph": ph}
    if k == "rot":
        axis = draw(st.one_of(st.sampled_from(AXES), st.sampled_from(AXES), st.lists(unit_floats(), min_size=3, max_size=3)))
        ang = draw(st.one_of(st.sampled_from(ANGLES), st.sampled_from(ANGLES), st.floats(-2 * PI, 2 * PI, allow_nan=False, width=64)))
        # at most one near-tolerance perturbation: of the angle, or a small tilt of the axis (near-Pauli axes)
        mode = draw(st.sampled_from(["none", "none", "angle", "angle", "tilt"]))
        e = draw(st.sampled_from(EPS[1:])) * draw(st.sampled_from([1, -1])) if mode == "angle" else 0.0
        tilt = draw(st.sampled_from([1e-9, 1e-7, 1e-5])) if mode == "tilt" else 0.0
        return {"k": "rot", "axis": list(axis), "ang": ang, "e": e, "tilt": tilt, "ph": ph}
    return {"k": "qr", "v": draw(st.lists(unit_floats(), min_size=8, max_size=8)), "ph": ph}


def build_1q(r) -> np.ndarray:
    k = r.get("k")
    ph = np.exp(1j * float(r.get("ph", 0.0)))
    if k == "named":
        m = NAMED_1Q[r["name"]]
    elif k == "rot":
        ax = _pad(r.get("axis"), 3)
        t = float(r.get("tilt", 0.0))
        ax = [ax[0] + t, ax[1] - t, ax[2] + 2 * t]
        if np.linalg.norm(ax) < 1e-6:
            ax = [0.0, 0.0, 1.0]
        m = R.rot(ax, float(r.get("ang", 0.0)) + float(r.get("e", 0.0)))
    elif k == "qr":
        m = L.random_unitary_from_floats(_pad(r.get("v"), 8), 2)
    else:
        raise KeyError(k)
    return R.polar_unitary(ph * m)


def oneq_is_special(r) -> bool:
    return r.get("k") == "named" or (r.get("k") == "rot" and (r.get("axis") in AXES or r.get("ang") in ANGLES))


# ----------------------------------------------------------------------------- two qubits

BASES = {
    "I": (0.0, 0.0, 0.0),
    "CNOT": (Q, 0.0, 0.0),
    "ISWAP": (Q, Q, 0.0),
    "SWAP": (Q, Q, Q),
    "SQRT_ISWAP": (PI / 8, PI / 8, 0.0),
    "B": (Q, PI / 8, 0.0),
    "SQRT_SWAP": (PI / 8, PI / 8, PI / 8),
    "SQRT_SWAP_INV": (PI / 8, PI / 8, -PI / 8),
    "SQRT_CZ": (PI / 8, 0.0, 0.0),
    "face_x": (Q, 0.6, 0.3),          # x = pi/4 face
    "face_x_z0": (Q, 0.6, 0.0),       # x = pi/4 and z = 0
    "face_x_yz": (Q, 0.5, 0.5),       # x = pi/4, y = z
    "edge_xy": (0.5, 0.5, 0.2),       # x = y
    "edge_xy_neg": (0.5, 0.5, -0.2),
    "edge_xyz": (0.4, 0.4, 0.4),      # x = y = z
    "edge_yz_neg": (0.6, 0.3, -0.3),  # y = |z|, z < 0
    "edge_yz": (0.6, 0.3, 0.3),
    "z0": (0.6, 0.3, 0.0),            # z = 0 plane: 2 CZ
    "z0_xy": (0.5, 0.5, 0.0),         # z = 0, x = y
    "yz0": (0.5, 0.0, 0.0),           # y = z = 0: partial CZ class
    "wall_sqiswap": (0.6, 0.4, 0.2),  # x = y + |z| : 2 / 3 sqrt-iSWAP wall
    "wall_sqiswap_neg": (0.6, 0.4, -0.2),
    "in2": (0.7, 0.3, 0.1),           # strictly inside the 2-sqrt-iSWAP region
    "in3": (0.6, 0.5, 0.4),           # strictly inside the 3-sqrt-iSWAP region
    "in3_neg": (0.6, 0.5, -0.4),
}
SPECIAL_BASES = sorted(BASES)
PERMS3 = [[0, 1, 2], [0, 2, 1], [1, 0, 2], [1, 2, 0], [2, 0, 1], [2, 1, 0]]
SIGNS = [[1, 1, 1], [-1, -1, 1], [-1, 1, -1], [1, -1, -1]]

NAMED_2Q = {
    "CZ": np.diag([1, 1, 1, -1]).astype(complex),
    "CNOT": np.array([[1, 0, 0, 0], [0, 1, 0, 0], [0, 0, 0, 1], [0, 0, 1, 0]], dtype=complex),
    "CNOT_rev": np.array([[1, 0, 0, 0], [0, 0, 0, 1], [0, 0, 1, 0], [0, 1, 0, 0]], dtype=complex),
    "SWAP": np.array([[1, 0, 0, 0], [0, 0, 1, 0], [0, 1, 0, 0], [0, 0, 0, 1]], dtype=complex),
    "ISWAP": np.array([[1, 0, 0, 0], [0, 0, 1j, 0], [0, 1j, 0, 0], [0, 0, 0, 1]], dtype=complex),
    "SQRT_ISWAP": np.array([[1, 0, 0, 0], [0, math.sqrt(0.5), 1j * math.sqrt(0.5), 0],
                            [0, 1j * math.sqrt(0.5), math.sqrt(0.5), 0], [0, 0, 0, 1]], dtype=complex),
    "SQRT_ISWAP_INV": np.array([[1, 0, 0, 0], [0, math.sqrt(0.5), -1j * math.sqrt(0.5), 0],
                                [0, -1j * math.sqrt(0.5), math.sqrt(0.5), 0], [0, 0, 0, 1]], dtype=complex),
    "SQRT_SWAP": np.array([[1, 0, 0, 0], [0, (1 + 1j) / 2, (1 - 1j) / 2, 0], [0, (1 - 1j) / 2, (1 + 1j) / 2, 0],
                           [0, 0, 0, 1]], dtype=complex),
    "SQRT_CZ": np.diag([1, 1, 1, 1j]).astype(complex),
    "CZ_T": np.diag([1, 1, 1, np.exp(1j * PI / 4)]).astype(complex),
    "SYC": np.array([[1, 0, 0, 0], [0, 0, -1j, 0], [0, -1j, 0, 0], [0, 0, 0, np.exp(-1j * PI / 6)]], dtype=complex),
    "I4": np.eye(4, dtype=complex),
    "-I4": -np.eye(4, dtype=complex),
    "iI4": 1j * np.eye(4, dtype=complex),
    "HH": np.kron(NAMED_1Q["H"], NAMED_1Q["H"]),
    "XX": R.XX.astype(complex), "YY": R.YY.astype(complex), "ZZ": R.ZZ.astype(complex),
    "XZ": np.kron(L.PX, L.PZ),
    "DCNOT": np.array([[1, 0, 0, 0], [0, 0, 0, 1], [0, 1, 0, 0], [0, 0, 1, 0]], dtype=complex),
    "MAGIC": np.array([[1, 0, 0, 1j], [0, 1j, 1, 0], [0, 1j, -1, 0], [1, 0, 0, -1j]], dtype=complex) / math.sqrt(2),
    "QFT4": np.array([[1, 1, 1, 1], [1, 1j, -1, -1j], [1, -1, 1, -1], [1, -1j, -1, 1j]], dtype=complex) / 2,
}


@st.composite
def _locals4(draw):
    mode = draw(st.sampled_from(["id", "id", "some", "all", "all"]))
    if mode == "id":
        return []
    if mode == "some":
        out = [{"k": "named", "name": "I", "ph": 0.0} for _ in range(4)]
        out[draw(st.integers(0, 3))] = draw(oneq())
        return out
    return [draw(oneq()) for _ in range(4)]


@st.composite
def kak_recipe(draw, generic_share=0.25):
    """U = e^{i ph} (A1 (x) A0) exp(i(x XX + y YY + z ZZ)) (B1 (x) B0) with (x,y,z) at/near special places."""
    r = {"k": "kak"}
    r["base"] = draw(st.sampled_from(SPECIAL_BASES + ["interior"] * max(1, int(len(SPECIAL_BASES) * generic_share / (1 - generic_share)))))
    if r["base"] == "interior":
        r["u"] = draw(st.lists(st.floats(0.02, 0.98, allow_nan=False), min_size=3, max_size=3))
        r["eps"] = 0.0
        r["dir"] = [0, 0, 0]
    else:
        r["eps"] = draw(eps_values())
        r["dir"] = [draw(st.sampled_from([-1, 0, 1])) for _ in range(3)]
    # present the class in a non-canonical way: lattice shifts, coordinate permutation, pair sign flip
    if draw(st.booleans()):
        r["shift"] = [draw(st.sampled_from([0, 0, 1, -1, 2])) for _ in range(3)]
        r["perm"] = draw(st.sampled_from(PERMS3))
        r["sign"] = draw(st.sampled_from(SIGNS))
    r["loc"] = draw(_locals4())
    r["ph"] = draw(phases())
    return r


def kak_coords(r):
    """-> (presented (x,y,z), perturbed point in base coordinates, exact base point or None)."""
    if r.get("base") == "interior":
        u = _pad(r.get("u"), 3)
        x = u[0] * Q
        y = u[1] * x
        z = (2 * u[2] - 1) * y
        base = None
        pt = (x, y, z)
    else:
        base = BASES[r["base"]]
        d = _pad(r.get("dir"), 3)
        e = float(r.get("eps", 0.0))
        pt = tuple(base[i] + e * d[i] for i in range(3))
    v = list(pt)
    if "perm" in r:
        p = r["perm"]
        if sorted(p) != [0, 1, 2]:
            p = [0, 1, 2]
        s = (list(r.get("sign", [1, 1, 1])) + [1, 1, 1])[:3]
        if s not in SIGNS:
            s = [1, 1, 1]
        k = [int(t) for t in _pad(r.get("shift"), 3)]
        v = [s[i] * v[p[i]] + k[i] * (PI / 2) for i in range(3)]
    return tuple(v), pt, base


def build_kak(r):
    v, pt, base = kak_coords(r)
    loc = list(r.get("loc") or [])
    ms = [build_1q(x) for x in loc[:4]] + [np.eye(2, dtype=complex)] * (4 - len(loc[:4]))
    a1, a0, b1, b0 = ms
    u = np.exp(1j * float(r.get("ph", 0.0))) * np.kron(a1, a0) @ R.interaction(*v) @ np.kron(b1, b0)
    return R.polar_unitary(u), v, pt, base


@st.composite
def twoq_other(draw):
    k = draw(st.sampled_from(["qr", "qr", "named", "named", "perm", "diag", "block", "orth", "so4", "kron"]))
    if k == "qr":
        return {"k": "qr", "v": draw(st.lists(unit_floats(), min_size=32, max_size=32))}
    if k == "named":
        return {"k": "named", "name": draw(st.sampled_from(sorted(NAMED_2Q))), "ph": draw(phases())}
    if k == "perm":
        return {"k": "perm", "p": list(draw(st.permutations([0, 1, 2, 3]))),
                "phs": [draw(st.sampled_from([0.0, 0.0, PI, PI / 2, -PI / 2, 0.3])) for _ in range(4)]}
    if k == "diag":
        return {"k": "diag", "phs": [draw(phases()) for _ in range(4)]}
    if k == "block":
        return {"k": "block", "a": draw(oneq()), "b": draw(oneq()), "ctl": draw(st.integers(0, 1)),
                "first_id": draw(st.booleans())}
    if k == "orth":
        return {"k": "orth", "v": draw(st.lists(unit_floats(), min_size=16, max_size=16)), "flip": draw(st.booleans())}
    if k == "so4":
        return {"k": "so4", "a": draw(oneq()), "b": draw(oneq())}
    return {"k": "kron", "a": draw(oneq()), "b": draw(oneq())}


def _swap_conj(m):
    s = NAMED_2Q["SWAP"]
    return s @ m @ s


def real_orthogonal_from_floats(v, d, flip=False):
    a = np.array(_pad(v, d * d), dtype=float).reshape(d, d) + 1e-3 * np.eye(d)
    q, r = np.linalg.qr(a)
    sg = np.sign(np.diag(r))
    sg[sg == 0] = 1
    q = q * sg
    if flip:
        q[:, 0] *= -1
    # polish orthogonality
    u, _, vt = np.linalg.svd(q)
    return u @ vt


def su2(m):
    return m / np.sqrt(np.linalg.det(m))


def build_2q_other(r) -> np.ndarray:
    k = r.get("k")
    if k == "qr":
        m = L.random_unitary_from_floats(_pad(r.get("v"), 32), 4)
    elif k == "named":
        m = NAMED_2Q[r["name"]] * np.exp(1j * float(r.get("ph", 0.0)))
    elif k == "perm":
        p = list(r.get("p") or [])
        if sorted(p) != [0, 1, 2, 3]:
            p = [0, 1, 2, 3]
        m = np.zeros((4, 4), dtype=complex)
        phs = _pad(r.get("phs"), 4)
        for i in range(4):
            m[p[i], i] = np.exp(1j * phs[i])
    elif k == "diag":
        m = np.diag(np.exp(1j * np.array(_pad(r.get("phs"), 4)))).astype(complex)
    elif k == "block":
        a = np.eye(2, dtype=complex) if r.get("first_id") else build_1q(r["a"])
        b = build_1q(r["b"])
        m = np.zeros((4, 4), dtype=complex)
        m[:2, :2] = a
        m[2:, 2:] = b
        if r.get("ctl"):
            m = _swap_conj(m)
    elif k == "orth":
        m = real_orthogonal_from_floats(r.get("v"), 4, bool(r.get("flip"))).astype(complex)
    elif k == "so4":
        mg = NAMED_2Q["MAGIC"]
        m = mg.conj().T @ np.kron(su2(build_1q(r["a"])), su2(build_1q(r["b"]))) @ mg
        m = np.real(m).astype(complex)
    elif k == "kron":
        m = np.kron(build_1q(r["a"]), build_1q(r["b"]))
    else:
        raise KeyError(k)
    return R.polar_unitary(m)


@st.composite
def twoq(draw, kak_share=0.7):
    n = max(1, int(round(10 * kak_share)))
    if draw(st.sampled_from([True] * n + [False] * (10 - n))):
        return draw(kak_recipe())
    return draw(twoq_other())


def build_2q(r):
    """-> (U, info) ; info: v (canonical vector of U), special (bool), kind, eps, base."""
    if r.get("k") == "kak":
        u, v, pt, base = build_kak(r)
        c = R.canonicalize(*v, face_tol=1e-12)
        return u, {"v": c, "kind": "kak:" + str(r.get("base")), "special": base is not None, "eps": float(r.get("eps", 0.0)),
                   "base": base, "constructed": True}
    u = build_2q_other(r)
    c = R.weyl_from_matrix(u)
    return u, {"v": c, "kind": r["k"], "special": r["k"] != "qr", "eps": 0.0, "base": None, "constructed": False}


# ----------------------------------------------------------------------------- n qubits (3, 4)


@st.composite
def nq(draw, n):
    """n-qubit unitary recipe (n = 3, 4): QR-generic, tensor products, controlled forms, diagonal, permutation, block."""
    D = 2 ** n
    k = draw(st.sampled_from(["qr", "qr", "kron1", "kron2", "ctrl", "ctrl", "diag", "perm", "block", "ident", "named"]))
    if k == "qr":
        return {"k": "qr", "n": n, "v": draw(st.lists(unit_floats(), min_size=2 * D * D, max_size=2 * D * D))}
    if k == "kron1":
        return {"k": "kron1", "n": n, "f": [draw(oneq()) for _ in range(n)]}
    if k == "kron2":  # (2-qubit) (x) rest, at a drawn position
        return {"k": "kron2", "n": n, "g": draw(twoq()), "f": [draw(oneq()) for _ in range(n - 2)], "pos": draw(st.integers(0, n - 2))}
    if k == "ctrl":  # controlled-(n-1 qubit unitary), control on a drawn wire
        sub = draw(twoq()) if n == 3 else draw(nq(3))
        return {"k": "ctrl", "n": n, "sub": sub, "wire": draw(st.integers(0, n - 1)), "val": draw(st.integers(0, 1))}
    if k == "diag":
        return {"k": "diag", "n": n, "phs": [draw(st.sampled_from([0.0, 0.0, PI, PI / 2, 0.7, -1.3])) for _ in range(D)]}
    if k == "perm":
        return {"k": "perm", "n": n, "p": list(draw(st.permutations(list(range(D))))), "neg": draw(st.integers(0, D - 1))}
    if k == "block":  # block-diagonal with two independent halves
        h = (lambda: draw(twoq())) if n == 3 else (lambda: draw(nq(3)))
        return {"k": "block", "n": n, "a": h(), "b": h()}
    if k == "ident":
        return {"k": "ident", "n": n, "ph": draw(phases())}
    return {"k": "named", "n": n, "name": draw(st.sampled_from(["CCZ", "CCX", "CSWAP", "QFT", "GHZ"]))}


def _embed_wire_first(m, wire, n):
    """m acts with wire 0 as its first qubit; move that qubit to position ``wire``."""
    axes = [wire] + [i for i in range(n) if i != wire]
    return L.embed(m, axes, [2] * n)


def build_nq(r) -> np.ndarray:
    k = r.get("k")
    if k == "kak" or "n" not in r:
        return build_2q(r)[0]
    n = int(r["n"])
    D = 2 ** n
    if k == "qr":
        m = L.random_unitary_from_floats(_pad(r.get("v"), 2 * D * D), D)
    elif k == "kron1":
        f = list(r.get("f") or [])
        m = L.kron_all([build_1q(x) for x in f[:n]] + [np.eye(2)] * (n - len(f[:n])))
    elif k == "kron2":
        g = build_nq(r["g"])
        f = [build_1q(x) for x in (r.get("f") or [])[: n - 2]]
        f = f + [np.eye(2)] * (n - 2 - len(f))
        pos = int(r.get("pos", 0)) % (n - 1)
        m = L.kron_all(f[:pos] + [g] + f[pos:])
    elif k == "ctrl":
        sub = build_nq(r["sub"])
        if sub.shape[0] != D // 2:
            raise ValueError("sub size")
        m = np.eye(D, dtype=complex)
        if r.get("val", 1):
            m[D // 2:, D // 2:] = sub
        else:
            m[: D // 2, : D // 2] = sub
        m = _embed_wire_first(m, int(r.get("wire", 0)) % n, n)
    elif k == "diag":
        m = np.diag(np.exp(1j * np.array(_pad(r.get("phs"), D)))).astype(complex)
    elif k == "perm":
        p = list(r.get("p") or [])
        if sorted(p) != list(range(D)):
            p = list(range(D))
        m = np.zeros((D, D), dtype=complex)
        for i in range(D):
            m[p[i], i] = 1
        m[:, int(r.get("neg", 0)) % D] *= -1
    elif k == "block":
        a, b = build_nq(r["a"]), build_nq(r["b"])
        if a.shape[0] != D // 2 or b.shape[0] != D // 2:
            raise ValueError("sub size")
        m = np.zeros((D, D), dtype=complex)
        m[: D // 2, : D // 2] = a
        m[D // 2:, D // 2:] = b
    elif k == "ident":
        m = np.eye(D, dtype=complex) * np.exp(1j * float(r.get("ph", 0.0)))
    elif k == "named":
        name = r["name"]
        m = np.eye(D, dtype=complex)
        if name == "CCZ":
            m[D - 1, D - 1] = -1
        elif name == "CCX":
            m[D - 2:, D - 2:] = L.PX
        elif name == "CSWAP":
            m[D - 4:, D - 4:] = NAMED_2Q["SWAP"]
        elif name == "QFT":
            w = np.exp(2j * PI / D)
            m = np.array([[w ** (i * j) for j in range(D)] for i in range(D)], dtype=complex) / math.sqrt(D)
        elif name == "GHZ":  # H on wire 0 then CNOT chain
            h = L.embed(NAMED_1Q["H"], [0], [2] * n)
            m = h
            for i in range(n - 1):
                m = L.embed(NAMED_2Q["CNOT"], [i, i + 1], [2] * n) @ m
    else:
        raise KeyError(k)
    return R.polar_unitary(m)


# ----------------------------------------------------------------------------- two-qubit states


@st.composite
def state2(draw):
    k = draw(st.sampled_from(["product", "product", "bell", "near_product", "schmidt", "generic", "basis"]))
    if k == "basis":
        return {"k": "basis", "i": draw(st.integers(0, 3)), "ph": draw(phases())}
    if k == "generic":
        return {"k": "generic", "v": draw(st.lists(unit_floats(), min_size=8, max_size=8))}
    r = {"k": k, "a": draw(oneq()), "b": draw(oneq())}
    if k == "bell":
        r["which"] = draw(st.integers(0, 3))
    if k == "near_product":
        r["eps"] = draw(st.sampled_from([1e-12, 1e-9, 1e-7, 1e-5, 1e-3]))
    if k == "schmidt":
        r["t"] = draw(st.one_of(st.sampled_from([PI / 4, PI / 8, PI / 6, 0.1]), st.floats(0.01, PI / 4, allow_nan=False)))
    return r


def build_state2(r) -> np.ndarray:
    k = r.get("k")
    if k == "basis":
        return L.basis_vector(int(r.get("i", 0)) % 4, 4) * np.exp(1j * float(r.get("ph", 0.0)))
    if k == "generic":
        return L.state_from_floats(_pad(r.get("v"), 8), 4)
    a, b = build_1q(r["a"]), build_1q(r["b"])
    if k == "product":
        t = 0.0
    elif k == "bell":
        t = PI / 4
    elif k == "near_product":
        t = float(r.get("eps", 0.0))
    else:
        t = float(r.get("t", 0.3))
    core = np.array([math.cos(t), 0, 0, math.sin(t)], dtype=complex)
    if k == "bell":
        w = int(r.get("which", 0)) % 4
        core = np.array([[1, 0, 0, 1], [1, 0, 0, -1], [0, 1, 1, 0], [0, 1, -1, 0]][w], dtype=complex) / math.sqrt(2)
    psi = np.kron(a, b) @ core
    return psi / np.linalg.norm(psi)
