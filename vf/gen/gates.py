"""Gate table: family name -> (parameter strategy, constructor, flags).

Recipes are ``[family, params_dict]``; ``build_gate(recipe)`` returns a ``cirq.Gate``.
Reference (closed-form) matrices for the same families live in ``vf.ref.gates``.
"""
from __future__ import annotations

import math
from dataclasses import dataclass, field
from typing import Any, Callable, Dict, List, Optional

from hypothesis import strategies as st

SPECIAL = [0.0, 0.25, -0.25, 0.5, -0.5, 1.0, -1.0, 1.5, -1.5, 2.0, 3.0, -3.0, 4.0, 1 / 3, 1e-9, 1 - 1e-9,
           0.5 + 1e-9, 0.5 - 1e-9, 0.125, 0.75, -0.75, 2.5]
SPECIAL_SHIFT = [0.0, 0.0, 0.0, -0.5, 0.5, 0.25, -0.25, 1.0, 0.125]
SPECIAL_RAD = [0.0, math.pi / 2, -math.pi / 2, math.pi, -math.pi, math.pi / 4, -math.pi / 4, 2 * math.pi, 3 * math.pi,
               math.pi / 6, math.pi / 9, 1e-9, math.pi - 1e-9, math.pi / 3]


def exponents():
    return st.one_of(st.sampled_from(SPECIAL), st.floats(-4, 4, allow_nan=False, width=64).map(lambda x: round(x, 6)))


def shifts():
    return st.one_of(st.sampled_from(SPECIAL_SHIFT), st.floats(-1, 1, allow_nan=False).map(lambda x: round(x, 4)))


def rads():
    return st.one_of(st.sampled_from(SPECIAL_RAD), st.floats(-7, 7, allow_nan=False).map(lambda x: round(x, 6)))


def probs(hi=1.0):
    return st.one_of(st.sampled_from([0.0, 1e-6, 0.01, 0.1, 0.25, 0.5, 0.75, 1.0]).filter(lambda p: p <= hi),
                     st.floats(0, hi, allow_nan=False).map(lambda x: round(x, 6)))


def small_floats():
    return st.floats(-1, 1, allow_nan=False).map(lambda x: round(x, 4))


@dataclass
class Family:
    name: str
    arity: Optional[int]  # None => depends on params (see arity_of)
    params: Any  # strategy of dict
    build: Callable[[dict], Any]
    unitary: bool = True
    channel: bool = False  # non-unitary channel (kraus)
    qudit: bool = False
    arity_of: Optional[Callable[[dict], int]] = None
    shape_of: Optional[Callable[[dict], tuple]] = None
    tags: frozenset = frozenset()  # e.g. {"eigen", "clifford_at_half", "diag", "classical", "fastpath"}
    weight: int = 1


FAMILIES: Dict[str, Family] = {}


def _reg(f: Family):
    FAMILIES[f.name] = f


def _es():
    return st.fixed_dictionaries({"e": exponents(), "s": shifts()})


def _lazy():
    """Register families (needs cirq importable)."""
    if FAMILIES:
        return
    import numpy as np
    import cirq

    def eig(name, cls, arity, tags=()):
        _reg(Family(name, arity, _es(), lambda p, cls=cls: cls(exponent=p["e"], global_shift=p["s"]),
                    tags=frozenset(("eigen",) + tuple(tags)), weight=3 if arity <= 2 else 1))

    eig("XPow", cirq.XPowGate, 1, ("fastpath", "pauli"))
    eig("YPow", cirq.YPowGate, 1, ("fastpath", "pauli"))
    eig("ZPow", cirq.ZPowGate, 1, ("fastpath", "pauli", "diag"))
    eig("HPow", cirq.HPowGate, 1, ("fastpath",))
    eig("CZPow", cirq.CZPowGate, 2, ("fastpath", "diag"))
    eig("CXPow", cirq.CXPowGate, 2, ("fastpath",))
    eig("CYPow", cirq.CYPowGate, 2, ("fastpath",))
    eig("SwapPow", cirq.SwapPowGate, 2, ("fastpath",))
    eig("ISwapPow", cirq.ISwapPowGate, 2, ("fastpath",))
    eig("XXPow", cirq.XXPowGate, 2)
    eig("YYPow", cirq.YYPowGate, 2)
    eig("ZZPow", cirq.ZZPowGate, 2, ("diag",))
    eig("CCZPow", cirq.CCZPowGate, 3, ("fastpath", "diag"))
    eig("CCXPow", cirq.CCXPowGate, 3, ("fastpath",))
    eig("CCYPow", cirq.CCYPowGate, 3, ())

    _reg(Family("Rx", 1, st.fixed_dictionaries({"r": rads()}), lambda p: cirq.Rx(rads=p["r"]), tags=frozenset({"pauli"})))
    _reg(Family("Ry", 1, st.fixed_dictionaries({"r": rads()}), lambda p: cirq.Ry(rads=p["r"]), tags=frozenset({"pauli"})))
    _reg(Family("Rz", 1, st.fixed_dictionaries({"r": rads()}), lambda p: cirq.Rz(rads=p["r"]), tags=frozenset({"pauli", "diag"})))
    _reg(Family("PhasedXPow", 1, st.fixed_dictionaries({"p": exponents(), "e": exponents(), "s": shifts()}),
                lambda p: cirq.PhasedXPowGate(phase_exponent=p["p"], exponent=p["e"], global_shift=p["s"]), weight=3))
    _reg(Family("PhasedXZ", 1, st.fixed_dictionaries({"x": exponents(), "z": exponents(), "a": exponents()}),
                lambda p: cirq.PhasedXZGate(x_exponent=p["x"], z_exponent=p["z"], axis_phase_exponent=p["a"]), weight=2))
    _reg(Family("PhasedISwapPow", 2, st.fixed_dictionaries({"p": exponents(), "e": exponents()}),
                lambda p: cirq.PhasedISwapPowGate(phase_exponent=p["p"], exponent=p["e"])))
    _reg(Family("FSim", 2, st.fixed_dictionaries({"theta": rads(), "phi": rads()}),
                lambda p: cirq.FSimGate(theta=p["theta"], phi=p["phi"]), weight=2))
    _reg(Family("PhasedFSim", 2, st.fixed_dictionaries({"theta": rads(), "zeta": rads(), "chi": rads(), "gamma": rads(), "phi": rads()}),
                lambda p: cirq.PhasedFSimGate(theta=p["theta"], zeta=p["zeta"], chi=p["chi"], gamma=p["gamma"], phi=p["phi"]), weight=2))
    _reg(Family("MS", 2, st.fixed_dictionaries({"r": rads()}), lambda p: cirq.ms(p["r"])))
    _reg(Family("CSwap", 3, st.just({}), lambda p: cirq.CSWAP, tags=frozenset({"fastpath"})))
    _reg(Family("Identity", None, st.fixed_dictionaries({"n": st.integers(1, 3)}), lambda p: cirq.IdentityGate(p["n"]),
                arity_of=lambda p: p["n"]))
    _reg(Family("GlobalPhase", 0, st.fixed_dictionaries({"turns": exponents()}),
                lambda p: cirq.GlobalPhaseGate(np.exp(2j * np.pi * p["turns"])), tags=frozenset({"zeroq"})))
    _reg(Family("Wait", 1, st.fixed_dictionaries({"ns": st.integers(0, 100)}), lambda p: cirq.WaitGate(cirq.Duration(nanos=p["ns"]))))
    _reg(Family("QFT", None, st.fixed_dictionaries({"n": st.integers(1, 3), "wr": st.booleans()}),
                lambda p: cirq.QuantumFourierTransformGate(p["n"], without_reverse=p["wr"]), arity_of=lambda p: p["n"]))
    _reg(Family("PhaseGradient", None, st.fixed_dictionaries({"n": st.integers(1, 3), "e": exponents()}),
                lambda p: cirq.PhaseGradientGate(num_qubits=p["n"], exponent=p["e"]), arity_of=lambda p: p["n"],
                tags=frozenset({"diag"})))
    _reg(Family("Diagonal", None, st.integers(1, 3).flatmap(
        lambda n: st.fixed_dictionaries({"angles": st.lists(rads(), min_size=2 ** n, max_size=2 ** n)})),
        lambda p: cirq.DiagonalGate(p["angles"]), arity_of=lambda p: int(math.log2(len(p["angles"]))), tags=frozenset({"diag"})))
    _reg(Family("TwoQubitDiagonal", 2, st.fixed_dictionaries({"angles": st.lists(rads(), min_size=4, max_size=4)}),
                lambda p: cirq.TwoQubitDiagonalGate(p["angles"]), tags=frozenset({"diag"})))
    _reg(Family("ThreeQubitDiagonal", 3, st.fixed_dictionaries({"angles": st.lists(rads(), min_size=8, max_size=8)}),
                lambda p: cirq.ThreeQubitDiagonalGate(p["angles"]), tags=frozenset({"diag"})))
    _reg(Family("QubitPermutation", None, st.integers(1, 4).flatmap(
        lambda n: st.fixed_dictionaries({"perm": st.permutations(list(range(n)))})),
        lambda p: cirq.QubitPermutationGate(list(p["perm"])), arity_of=lambda p: len(p["perm"]), tags=frozenset({"classical"})))
    _reg(Family("Matrix1", 1, st.fixed_dictionaries({"v": st.lists(small_floats(), min_size=8, max_size=8)}),
                lambda p: cirq.MatrixGate(_u(p["v"], 2)), weight=2))
    _reg(Family("Matrix2", 2, st.fixed_dictionaries({"v": st.lists(small_floats(), min_size=32, max_size=32)}),
                lambda p: cirq.MatrixGate(_u(p["v"], 4)), weight=2))
    _reg(Family("Matrix3", 3, st.fixed_dictionaries({"v": st.lists(small_floats(), min_size=128, max_size=128)}),
                lambda p: cirq.MatrixGate(_u(p["v"], 8))))
    _reg(Family("PauliInteraction", 2, st.fixed_dictionaries({"p0": st.sampled_from("XYZ"), "i0": st.booleans(),
                                                               "p1": st.sampled_from("XYZ"), "i1": st.booleans(), "e": exponents()}),
                lambda p: cirq.PauliInteractionGate(getattr(cirq, p["p0"]), p["i0"], getattr(cirq, p["p1"]), p["i1"], exponent=p["e"])))
    _reg(Family("SingleQubitClifford", 1, st.fixed_dictionaries({"i": st.integers(0, 23)}),
                lambda p: cirq.SingleQubitCliffordGate.all_single_qubit_cliffords[p["i"]]))
    _reg(Family("DensePauli", None, st.fixed_dictionaries({"ps": st.lists(st.sampled_from("IXYZ"), min_size=1, max_size=3),
                                                          "c": st.sampled_from([0, 1, 2, 3])}),
                lambda p: cirq.DensePauliString("".join(p["ps"]), coefficient=1j ** p["c"]), arity_of=lambda p: len(p["ps"])))
    _reg(Family("PauliStringPhasor", None, st.fixed_dictionaries({"ps": st.lists(st.sampled_from("IXYZ"), min_size=1, max_size=3),
                                                                 "neg": exponents(), "pos": exponents(), "sign": st.sampled_from([1, -1])}),
                lambda p: cirq.PauliStringPhasorGate(cirq.DensePauliString("".join(p["ps"]), coefficient=p["sign"]),
                                                     exponent_neg=p["neg"], exponent_pos=p["pos"]),
                arity_of=lambda p: len(p["ps"])))
    _reg(Family("UniformSuperposition", None, st.integers(1, 3).flatmap(
        lambda n: st.fixed_dictionaries({"n": st.just(n), "m": st.integers(1, 2 ** n)})),
        lambda p: cirq.UniformSuperpositionGate(p["m"], p["n"]), arity_of=lambda p: p["n"]))
    # vendor unitary gates
    import cirq_google, cirq_ionq

    _reg(Family("SYC", 2, st.just({}), lambda p: cirq_google.SYC))
    _reg(Family("WILLOW", 2, st.just({}), lambda p: cirq_google.WILLOW))
    _reg(Family("GPI", 1, st.fixed_dictionaries({"phi": exponents()}), lambda p: cirq_ionq.GPIGate(phi=p["phi"])))
    _reg(Family("GPI2", 1, st.fixed_dictionaries({"phi": exponents()}), lambda p: cirq_ionq.GPI2Gate(phi=p["phi"])))
    _reg(Family("IonqMS", 2, st.fixed_dictionaries({"phi0": exponents(), "phi1": exponents(),
                                                    "theta": st.one_of(st.sampled_from([0.25, 0.0, 0.125, 0.1]), st.floats(0, 0.25).map(lambda x: round(x, 5)))}),
                lambda p: cirq_ionq.MSGate(phi0=p["phi0"], phi1=p["phi1"], theta=p["theta"])))
    _reg(Family("IonqZZ", 2, st.fixed_dictionaries({"theta": st.one_of(st.sampled_from([0.25, 0.0, 0.125, -0.25, 0.1]), st.floats(-0.25, 0.25).map(lambda x: round(x, 5)))}),
                lambda p: cirq_ionq.ZZGate(theta=p["theta"])))
    # qudit gates
    _reg(Family("QuditMatrix", 1, st.integers(3, 4).flatmap(
        lambda d: st.fixed_dictionaries({"d": st.just(d), "v": st.lists(small_floats(), min_size=2 * d * d, max_size=2 * d * d)})),
        lambda p: cirq.MatrixGate(_u(p["v"], p["d"]), qid_shape=(p["d"],)), qudit=True, shape_of=lambda p: (p["d"],)))
    _reg(Family("QuditMatrix2", 2, st.tuples(st.integers(2, 3), st.integers(2, 3)).flatmap(
        lambda dd: st.fixed_dictionaries({"d": st.just(list(dd)), "v": st.lists(small_floats(), min_size=2 * (dd[0] * dd[1]) ** 2, max_size=2 * (dd[0] * dd[1]) ** 2)})),
        lambda p: cirq.MatrixGate(_u(p["v"], p["d"][0] * p["d"][1]), qid_shape=tuple(p["d"])), qudit=True, shape_of=lambda p: tuple(p["d"])))
    _reg(Family("QuditPlus", 1, st.fixed_dictionaries({"d": st.integers(3, 4), "k": st.integers(1, 3)}),
                lambda p: PlusGate(p["d"], p["k"]), qudit=True, shape_of=lambda p: (p["d"],)))
    _reg(Family("QuditIdentity", 1, st.fixed_dictionaries({"d": st.integers(3, 4)}),
                lambda p: cirq.IdentityGate(qid_shape=(p["d"],)), qudit=True, shape_of=lambda p: (p["d"],)))
    # channels
    ch = dict(unitary=False, channel=True)
    _reg(Family("Depolarize", 1, st.fixed_dictionaries({"p": probs(0.75)}), lambda p: cirq.depolarize(p["p"]), **ch))
    _reg(Family("Depolarize2", 2, st.fixed_dictionaries({"p": probs(15 / 16)}), lambda p: cirq.depolarize(p["p"], n_qubits=2), **ch))
    _reg(Family("AsymDepolarize", 1, st.fixed_dictionaries({"px": probs(0.3), "py": probs(0.3), "pz": probs(0.3)}),
                lambda p: cirq.asymmetric_depolarize(p["px"], p["py"], p["pz"]), **ch))
    _reg(Family("BitFlip", 1, st.fixed_dictionaries({"p": probs(1.0)}), lambda p: cirq.BitFlipChannel(p["p"]), **ch))
    _reg(Family("PhaseFlip", 1, st.fixed_dictionaries({"p": probs(1.0)}), lambda p: cirq.PhaseFlipChannel(p["p"]), **ch))
    _reg(Family("PhaseDamp", 1, st.fixed_dictionaries({"g": probs(1.0)}), lambda p: cirq.phase_damp(p["g"]), **ch))
    _reg(Family("AmplitudeDamp", 1, st.fixed_dictionaries({"g": probs(1.0)}), lambda p: cirq.amplitude_damp(p["g"]), **ch))
    _reg(Family("GenAmplitudeDamp", 1, st.fixed_dictionaries({"p": probs(1.0), "g": probs(1.0)}),
                lambda p: cirq.generalized_amplitude_damp(p["p"], p["g"]), **ch))
    _reg(Family("Reset", 1, st.just({}), lambda p: cirq.ResetChannel(), **ch))
    _reg(Family("RandomGate", 1, st.fixed_dictionaries({"sub": st.sampled_from(["X", "Y", "Z", "H", "S"]), "p": probs(1.0)}),
                lambda p: cirq.RandomGateChannel(sub_gate=getattr(cirq, p["sub"]), probability=p["p"]), **ch))


def _u(vals, d):
    from vf.ref import linalg as L

    return L.random_unitary_from_floats(vals, d)


_PlusGate = None


def PlusGate(d, k):
    """Harness-defined qudit gate |x> -> |x+k mod d> (documented user extension: _qid_shape_ + _unitary_)."""
    global _PlusGate
    if _PlusGate is None:
        import numpy as np
        import cirq

        class _PG(cirq.Gate):
            def __init__(self, d, k):
                self.d, self.k = d, k

            def _qid_shape_(self):
                return (self.d,)

            def _unitary_(self):
                u = np.zeros((self.d, self.d), dtype=complex)
                for x in range(self.d):
                    u[(x + self.k) % self.d, x] = 1
                return u

            def _value_equality_values_(self):
                return self.d, self.k

            def __eq__(self, o):
                return isinstance(o, _PG) and (o.d, o.k) == (self.d, self.k)

            def __hash__(self):
                return hash(("PlusGate", self.d, self.k))

            def __repr__(self):
                return f"PlusGate({self.d},{self.k})"

        _PlusGate = _PG
    return _PlusGate(d, k)


def families(pred: Callable[[Family], bool] = lambda f: True) -> List[Family]:
    _lazy()
    return [f for f in FAMILIES.values() if pred(f)]


def gate_recipes(pred: Callable[[Family], bool] = lambda f: f.unitary and not f.qudit, max_arity: int = 3):
    """Strategy of [family, params] recipes."""
    fams = [f for f in families(pred)]
    names = []
    for f in fams:
        names += [f.name] * f.weight
    return st.sampled_from(names).flatmap(lambda n: FAMILIES[n].params.map(lambda p, n=n: [n, p])).filter(
        lambda r: arity(r) <= max_arity)


def build_gate(recipe):
    _lazy()
    name, params = recipe
    return FAMILIES[name].build(params)


def arity(recipe) -> int:
    _lazy()
    name, params = recipe
    f = FAMILIES[name]
    return f.arity if f.arity is not None else f.arity_of(params)


def qid_shape(recipe):
    _lazy()
    name, params = recipe
    f = FAMILIES[name]
    if f.shape_of is not None:
        return tuple(f.shape_of(params))
    return (2,) * arity(recipe)
