"""Generators and builders for C07 (hardware compilation / routing / devices).

Everything here is recipe-level (JSON-able) + a builder that turns a recipe into Cirq objects.
Nothing in this file decides whether Cirq is right; see ``vf.ref.c07_ref`` for the references.
"""
from __future__ import annotations

import math

import numpy as np
from hypothesis import strategies as st

from vf.gen import circuits as GC
from vf.gen import gates as G
from vf.ref import linalg as L

IGNORE_TAG = "nocompile"

# ------------------------------------------------------------------------------------ KAK-special two-qubit unitaries

PI = math.pi
KAK_CLASSES = {
    "local": (0.0, 0.0, 0.0),
    "cnot": (PI / 4, 0.0, 0.0),
    "iswap": (PI / 4, PI / 4, 0.0),
    "swap": (PI / 4, PI / 4, PI / 4),
    "sqrtiswap": (PI / 8, PI / 8, 0.0),
    "sqrtiswap_inv": (-PI / 8, -PI / 8, 0.0),
    "b": (PI / 4, PI / 8, 0.0),
    "sqrtswap": (PI / 8, PI / 8, PI / 8),
    "syc": (PI / 4, PI / 4, PI / 24),
}

_XX = np.kron(L.PX, L.PX)
_YY = np.kron(L.PY, L.PY)
_ZZ = np.kron(L.PZ, L.PZ)


def kak_matrix(xyz, loc_before, loc_after):
    """(a1 (x) a0) . exp(i(x XX + y YY + z ZZ)) . (b1 (x) b0) -- XX, YY, ZZ commute so the exponential factorises."""
    x, y, z = xyz

    def e(t, P):
        return math.cos(t) * np.eye(4) + 1j * math.sin(t) * P

    core = e(x, _XX) @ e(y, _YY) @ e(z, _ZZ)
    return np.kron(*loc_after) @ core @ np.kron(*loc_before)


def _local(v):
    """1-qubit unitary from 8 floats; an all-zero list means identity."""
    if not any(v):
        return np.eye(2, dtype=complex)
    return L.random_unitary_from_floats(list(v) + [0.0] * (8 - len(v)), 2)


def kak_unitary(p):
    cls = p.get("cls", "generic")
    if cls in KAK_CLASSES:
        xyz = KAK_CLASSES[cls]
    elif cls == "partialcz":
        xyz = (float(p["xyz"][0]), 0.0, 0.0)
    elif cls == "two_param":
        xyz = (float(p["xyz"][0]), float(p["xyz"][1]), 0.0)
    else:
        xyz = tuple(float(t) for t in (list(p.get("xyz", [])) + [0.0, 0.0, 0.0])[:3])
    eps = float(p.get("eps", 0.0))
    xyz = (xyz[0] + eps, xyz[1], xyz[2] - eps)
    loc = list(p.get("loc", [])) + [[]] * 4
    b = (_local(loc[0]), _local(loc[1]))
    a = (_local(loc[2]), _local(loc[3]))
    return kak_matrix(xyz, b, a)


def _loc4():
    one = st.one_of(st.just([0.0] * 8), st.lists(G.small_floats(), min_size=8, max_size=8))
    return st.lists(one, min_size=4, max_size=4)


@st.composite
def kak_params(draw):
    cls = draw(st.sampled_from(list(KAK_CLASSES) + ["partialcz", "two_param", "generic", "generic"]))
    ang = st.one_of(st.sampled_from([0.0, PI / 4, PI / 8, -PI / 8, PI / 16, 0.3, 1e-9, PI / 4 - 1e-9]),
                    st.floats(-PI / 4, PI / 4, allow_nan=False).map(lambda t: round(t, 6)))
    p = {"cls": cls, "loc": draw(_loc4())}
    if cls in ("partialcz", "two_param", "generic"):
        p["xyz"] = draw(st.lists(ang, min_size=3, max_size=3))
    if draw(st.integers(0, 9)) == 0:
        p["eps"] = draw(st.sampled_from([1e-9, -1e-9, 1e-7, 1e-5]))
    return p


# ------------------------------------------------------------------------------------ target gatesets

ADDITIONAL = ["ZPowGate", "XPowGate", "YPowGate", "PhasedXPowGate", "CNOT", "H", "ISWAP", "SwapPowGate", "FSimGate",
              "CCZ", "X", "PhysZ", "CZPowGate", "SQRT_ISWAP", "XXPowGate", "HPowGate"]
PAULI_TYPE_FAMILIES = ["ZPowGate", "PhasedXPowGate", "XPowGate", "YPowGate"]


def additional_gate(name):
    import cirq
    import cirq_google

    if name == "PhysZ":
        return cirq.GateFamily(cirq.ZPowGate, tags_to_accept=[cirq_google.PhysicalZTag()])
    return getattr(cirq, name)


ATOLS = [1e-8, 1e-8, 1e-8, 1e-10, 1e-6, 1e-5]
CORE_KINDS = ["cz", "sqrt_iswap", "syc", "gcz"]
VENDOR_KINDS = ["ionq", "aria", "forte", "aqt", "pasqal"]
TWOQ_KINDS = ["cz", "sqrt_iswap", "syc", "gcz"]


@st.composite
def gateset_recipes(draw, kinds=None, thorough=False, allow_req=True):
    k = draw(st.sampled_from(kinds or (CORE_KINDS + VENDOR_KINDS)))
    adds = st.lists(st.sampled_from(ADDITIONAL), max_size=3, unique=True)
    some_adds = st.one_of(st.just([]), adds)
    if k == "cz":
        pms = draw(st.booleans())
        return {"k": k, "atol": draw(st.sampled_from(ATOLS)), "partial": draw(st.booleans()), "add": draw(some_adds),
                "pms": pms, "reorder": (not pms) and draw(st.booleans())}
    if k == "sqrt_iswap":
        req = draw(st.sampled_from([None, None, None, 0, 1, 2, 3, 3])) if allow_req else None
        return {"k": k, "atol": draw(st.sampled_from(ATOLS)), "inv": draw(st.booleans()), "req": req, "add": draw(some_adds)}
    if k == "syc":
        return {"k": k, "atol": 1e-8, "tab": bool(thorough and draw(st.integers(0, 3)) == 0)}
    if k == "gcz":
        eject = draw(st.booleans())
        add = draw(some_adds)
        if eject:  # the property: eject_paulis ONLY together with the Pauli-rotation type families
            add = PAULI_TYPE_FAMILIES + [a for a in add if a not in PAULI_TYPE_FAMILIES]
        return {"k": k, "atol": draw(st.sampled_from(ATOLS)), "eject": eject, "add": add}
    if k in ("ionq", "aria", "forte"):
        return {"k": k, "atol": draw(st.sampled_from([1e-8, 1e-8, 1e-6]))}
    if k == "aqt":
        return {"k": k}
    if k == "pasqal":
        return {"k": k, "ctrl": draw(st.booleans())}
    raise KeyError(k)


_TAB = {}


def sycamore_tabulation():
    """Deterministic tabulation (fixed seed inside Cirq's own API; thorough tier only)."""
    if "t" not in _TAB:
        import cirq
        import cirq_google

        _TAB["t"] = cirq.two_qubit_gate_product_tabulation(cirq.unitary(cirq_google.SYC), 0.1, random_state=11, allow_missed_points=False)
    return _TAB["t"]


def build_gateset(g):
    import cirq
    import cirq_aqt.aqt_target_gateset
    import cirq_google
    import cirq_ionq
    import cirq_pasqal

    k = g["k"]
    add = [additional_gate(a) for a in g.get("add", [])]
    if k == "cz":
        return cirq.CZTargetGateset(atol=g["atol"], allow_partial_czs=g["partial"], additional_gates=add,
                                    preserve_moment_structure=g["pms"], reorder_operations=g["reorder"] and not g["pms"])
    if k == "sqrt_iswap":
        return cirq.SqrtIswapTargetGateset(atol=g["atol"], required_sqrt_iswap_count=g["req"], use_sqrt_iswap_inv=g["inv"],
                                           additional_gates=add)
    if k == "syc":
        return cirq_google.SycamoreTargetGateset(atol=g.get("atol", 1e-8), tabulation=sycamore_tabulation() if g.get("tab") else None)
    if k == "gcz":
        return cirq_google.GoogleCZTargetGateset(atol=g["atol"], eject_paulis=g["eject"], additional_gates=add)
    if k == "ionq":
        return cirq_ionq.IonQTargetGateset(atol=g["atol"])
    if k == "aria":
        return cirq_ionq.AriaNativeGateset(atol=g["atol"])
    if k == "forte":
        return cirq_ionq.ForteNativeGateset(atol=g["atol"])
    if k == "aqt":
        return cirq_aqt.aqt_target_gateset.AQTTargetGateset()
    if k == "pasqal":
        return cirq_pasqal.PasqalGateset(include_additional_controlled_ops=g["ctrl"])
    raise KeyError(k)


def gateset_atol(g):
    return float(g.get("atol", 1e-8))


def native_gates(g):
    """A few gates that are documented members of the gateset ``g`` (for 'already native' inputs): list of
    (arity, builder(param) -> gate)."""
    import cirq
    import cirq_google
    import cirq_ionq

    k = g["k"]
    phxz = (1, lambda p: cirq.PhasedXZGate(x_exponent=p, z_exponent=p / 2, axis_phase_exponent=-p))
    if k == "cz":
        two = (2, (lambda p: cirq.CZ ** p) if g["partial"] else (lambda p: cirq.CZ))
        return [phxz, two, two]
    if k == "gcz":
        return [phxz, (2, lambda p: cirq.CZ), (2, lambda p: cirq.CZ)]
    if k == "sqrt_iswap":
        two = (2, (lambda p: cirq.SQRT_ISWAP_INV) if g["inv"] else (lambda p: cirq.SQRT_ISWAP))
        return [phxz, two, two]
    if k == "syc":
        return [phxz, (2, lambda p: cirq_google.SYC), (2, lambda p: cirq_google.SYC), (1, lambda p: cirq.Z ** p), (1, lambda p: cirq.X ** p),
                (1, lambda p: cirq.PhasedXPowGate(phase_exponent=p, exponent=0.5))]
    if k == "ionq":
        return [(1, lambda p: cirq.X ** p), (1, lambda p: cirq.Y ** p), (1, lambda p: cirq.Z ** p), (1, lambda p: cirq.H),
                (2, lambda p: cirq.CNOT), (2, lambda p: cirq.SWAP), (2, lambda p: cirq.XX ** p), (2, lambda p: cirq.YY ** p),
                (2, lambda p: cirq.ZZ ** p)]
    if k == "aria":
        return [(1, lambda p: cirq_ionq.GPIGate(phi=p)), (1, lambda p: cirq_ionq.GPI2Gate(phi=p)),
                (2, lambda p: cirq_ionq.MSGate(phi0=p, phi1=p / 2, theta=0.25))]
    if k == "forte":
        return [(1, lambda p: cirq_ionq.GPIGate(phi=p)), (1, lambda p: cirq_ionq.GPI2Gate(phi=p)),
                (2, lambda p: cirq_ionq.ZZGate(theta=0.25 if abs(p) > 0.5 else p / 2))]
    if k == "aqt":
        return [(1, lambda p: cirq.Z ** p), (1, lambda p: cirq.PhasedXPowGate(phase_exponent=p, exponent=p / 2)),
                (2, lambda p: cirq.XX ** p), (2, lambda p: cirq.XX ** 0.5)]
    if k == "pasqal":
        base = [(1, lambda p: cirq.X ** p), (1, lambda p: cirq.Z ** p), (1, lambda p: cirq.H), (2, lambda p: cirq.CZ),
                (1, lambda p: cirq.PhasedXPowGate(phase_exponent=p, exponent=p / 2)), (1, lambda p: cirq.Y ** p)]
        if g["ctrl"]:
            base += [(2, lambda p: cirq.CNOT), (3, lambda p: cirq.CCZ), (3, lambda p: cirq.CCX)]
        return base
    raise KeyError(k)


# ------------------------------------------------------------------------------------ circuits for the compile sub-checks

def _lib_pred(f):
    return f.unitary and not f.qudit and "zeroq" not in f.tags and f.name not in ("Wait",)


NAMED = {"H": 1, "T": 1, "S": 1, "X": 1, "Y": 1, "Z": 1, "CNOT": 2, "CZ": 2, "SWAP": 2, "ISWAP": 2, "SQRT_ISWAP": 2, "CCX": 3, "CCZ": 3, "CSWAP": 3,
         "CCZ_POW": 3, "CZ_POW": 2, "CNOT_POW": 2, "ZZ_POW": 2}


def named_gate(name, p):
    import cirq

    if name == "CCZ_POW":
        return cirq.CCZ ** p
    if name == "CZ_POW":
        return cirq.CZ ** p
    if name == "CNOT_POW":
        return cirq.CNOT ** p
    if name == "ZZ_POW":
        return cirq.ZZ ** p
    return getattr(cirq, name)


# Named two-qubit gates that target gatesets special-case ("known gate" fast paths), raised to a table of special exponents
BARE2Q = ["ISWAP", "SWAP", "CZ", "CNOT", "CY", "SQRT_ISWAP", "SQRT_ISWAP_INV", "ISWAP_INV", "ZZ", "XX", "YY", "FSIM_SYC", "FSIM_ISWAP", "FSIM_CZ",
          "FSIM_PHI", "FSIM_GEN", "SYC", "PISWAP", "MS", "GIVENS"]
BARE_EXPONENTS = [1.0, 1.0, -1.0, -1.0, 2.0, -2.0, 3.0, -3.0, 4.0, 5.0, -5.0, 7.0, 0.5, -0.5, 1.5, -1.5, 2.5, -2.5, 0.25, -0.25, 0.75, 1 / 3, 0.0]


def bare2q_gate(name, e):
    import cirq
    import cirq_google

    base = {
        "ISWAP": cirq.ISWAP, "SWAP": cirq.SWAP, "CZ": cirq.CZ, "CNOT": cirq.CNOT, "CY": cirq.CY, "SQRT_ISWAP": cirq.SQRT_ISWAP,
        "SQRT_ISWAP_INV": cirq.SQRT_ISWAP_INV, "ISWAP_INV": cirq.ISWAP_INV, "ZZ": cirq.ZZ, "XX": cirq.XX, "YY": cirq.YY,
        "FSIM_SYC": cirq.FSimGate(np.pi / 2, np.pi / 6), "FSIM_ISWAP": cirq.FSimGate(np.pi / 2, 0), "FSIM_CZ": cirq.FSimGate(0, np.pi),
        "FSIM_PHI": cirq.FSimGate(0, np.pi / 3), "FSIM_GEN": cirq.FSimGate(np.pi / 4, np.pi / 5), "SYC": cirq_google.SYC,
        "PISWAP": cirq.PhasedISwapPowGate(phase_exponent=0.25), "MS": cirq.ms(np.pi / 4), "GIVENS": cirq.givens(np.pi / 3),
    }[name]
    if e == 1.0:
        return base
    g = cirq.pow(base, e, None)
    return base if g is None else g


@st.composite
def bare_circuits(draw, measure=True):
    """Circuits in which every two-qubit gate is ALONE in its connected component (reaches the gateset's decomposer as a bare
    named gate, not as a merged matrix): segments separated by no-compile barriers on every wire."""
    n = draw(st.sampled_from([2, 2, 3]))
    r = draw(GC.wires(n, n))
    ops = []
    nseg = draw(st.integers(1, 3))
    for s_i in range(nseg):
        pair = list(draw(st.permutations(list(range(n)))))[:2]
        ops.append({"k": "bare2q", "name": draw(st.sampled_from(BARE2Q)), "e": draw(st.sampled_from(BARE_EXPONENTS)), "w": pair, "ins": 0})
        if n == 3 and draw(st.booleans()):  # something on the idle wire: its own component
            idle = [i for i in range(n) if i not in pair][0]
            ops.append({"k": "named", "name": draw(st.sampled_from(["H", "T", "X"])), "p": 1.0, "w": [idle], "ins": 0})
        if s_i + 1 < nseg:
            for i in range(n):
                ops.append({"k": "named", "name": "X", "p": 1.0, "w": [i], "ins": 0 if i else 1, "ign": True})
    r["ops"] = ops
    r["meas"] = sorted(draw(st.lists(st.integers(0, n - 1), max_size=n, unique=True))) if measure and draw(st.integers(0, 3)) == 0 else []
    return r


@st.composite
def _plain_op(draw, n, max_arity=3, allow_phase=False):
    """One non-nested op recipe on ``n`` wires."""
    kinds = ["lib", "lib", "lib", "kak", "u1", "native", "native", "named", "named", "bare2q"]
    if n < 2:
        kinds = ["lib", "u1", "native", "named"]
    if allow_phase:
        kinds.append("gphase")
    if n >= 3 and max_arity >= 3:
        kinds.append("lib3")
    k = draw(st.sampled_from(kinds))
    perm = draw(st.permutations(list(range(n))))
    if k == "lib3":
        g = draw(G.gate_recipes(lambda f: _lib_pred(f) and (f.arity == 3 or f.arity is None), max_arity=3).filter(lambda r: G.arity(r) == 3))
        return {"k": "lib", "g": g, "w": list(perm[:3])}
    if k == "lib":
        g = draw(G.gate_recipes(_lib_pred, max_arity=min(max_arity, n)))
        return {"k": "lib", "g": g, "w": list(perm[: G.arity(g)])}
    if k == "kak":
        return {"k": "kak", "p": draw(kak_params()), "w": list(perm[:2])}
    if k == "u1":
        return {"k": "u1", "v": draw(st.lists(G.small_floats(), min_size=8, max_size=8)), "w": [perm[0]]}
    if k == "gphase":
        return {"k": "gphase", "t": draw(G.exponents()), "w": []}
    if k == "bare2q":
        return {"k": "bare2q", "name": draw(st.sampled_from(BARE2Q)), "e": draw(st.sampled_from(BARE_EXPONENTS)), "w": list(perm[:2])}
    if k == "named":
        name = draw(st.sampled_from([x for x, a in NAMED.items() if a <= min(n, max_arity)]))
        return {"k": "named", "name": name, "p": draw(G.exponents()), "w": list(perm[: NAMED[name]])}
    return {"k": "native", "i": draw(st.integers(0, 11)), "p": draw(G.exponents()), "w": list(perm[:3])}


@st.composite
def compile_circuits(draw, min_w=1, max_w=3, max_ops=7, nested=True, ignored=True, measure=True, phase=False, only_native=False):
    n = draw(st.sampled_from([w for w in (1, 2, 2, 3, 3, 3) if min_w <= w <= max_w]))
    r = draw(GC.wires(n, n))
    nops = draw(st.integers(1, max_ops))
    ops = []
    use_ign = ignored and draw(st.integers(0, 3)) == 0
    use_nest = nested and draw(st.integers(0, 2)) == 0
    for _ in range(nops):
        if use_nest and draw(st.integers(0, 3)) == 0:
            sub = [draw(_plain_op(n, allow_phase=False)) for _ in range(draw(st.integers(1, 3)))]
            o = {"k": "cop", "ops": sub, "rep": draw(st.sampled_from([1, 1, 2]))}
        elif only_native == "plus1q" and draw(st.booleans()):
            o = {"k": "named", "name": draw(st.sampled_from(["H", "H", "T", "S", "X", "Y", "Z"])), "p": 1.0, "w": [draw(st.integers(0, n - 1))]}
        elif only_native:
            o = {"k": "native", "i": draw(st.integers(0, 11)), "p": draw(G.exponents()), "w": list(draw(st.permutations(list(range(n))))[:3])}
        else:
            o = draw(_plain_op(n, allow_phase=phase))
        o["ins"] = draw(st.sampled_from([0, 0, 0, 1, 2, 3]))
        if use_ign and draw(st.integers(0, 2)) == 0:
            o["ign"] = True
        ops.append(o)
    r["ops"] = ops
    r["meas"] = sorted(draw(st.lists(st.integers(0, n - 1), max_size=n, unique=True))) if measure and draw(st.integers(0, 4)) == 0 else []
    return r


def build_plain_op(r, o, g):
    """-> cirq.Operation or None (e.g. native op of an arity the register cannot host)."""
    import cirq

    qs = [GC.qubit_for(r, i) for i in o.get("w", [])]
    k = o["k"]
    if k == "lib":
        gate = G.build_gate(o["g"])
        op = gate.on(*qs[: cirq.num_qubits(gate)])
    elif k == "kak":
        op = cirq.MatrixGate(kak_unitary(o["p"])).on(*qs[:2])
    elif k == "u1":
        op = cirq.MatrixGate(L.random_unitary_from_floats(list(o["v"]) + [0.0] * 8, 2)).on(qs[0])
    elif k == "gphase":
        op = cirq.global_phase_operation(np.exp(2j * np.pi * float(o["t"])))
        return op  # zero-qubit operations are never tagged (outside the property's domain of 1-3 qubit operations)
    elif k == "bare2q":
        if len(qs) < 2:
            return None
        op = bare2q_gate(o["name"], float(o.get("e", 1.0))).on(*qs[:2])
    elif k == "named":
        gate = named_gate(o["name"], float(o.get("p", 1.0)))
        if cirq.num_qubits(gate) > len(qs):
            return None
        op = gate.on(*qs[: cirq.num_qubits(gate)])
    elif k == "native":
        nat = [x for x in native_gates(g) if x[0] <= len(qs)]
        if not nat:
            return None
        ar, mk = nat[int(o["i"]) % len(nat)]
        op = mk(float(o["p"])).on(*qs[:ar])
    elif k == "cop":
        sub = [build_plain_op(r, s, g) for s in o["ops"] if s.get("k") != "cop"]
        sub = [s for s in sub if s is not None]
        if not sub:
            return None
        op = cirq.CircuitOperation(cirq.FrozenCircuit(sub), repetitions=int(o.get("rep", 1)) or 1)
    else:
        raise KeyError(k)
    if o.get("ign"):
        op = op.with_tags(IGNORE_TAG)
    return op


def build_compile_circuit(r, g):
    """-> (circuit, qubits in wire order, list of built top-level ops)."""
    import cirq

    c = cirq.Circuit()
    built = []
    for o in r["ops"]:
        op = build_plain_op(r, o, g)
        if op is None:
            continue
        built.append(op)
        c.append(op, strategy=getattr(cirq.InsertStrategy, GC.INS[o.get("ins", 0) % 4]))
    qs = GC.qubits_of(r)
    meas = [qs[i] for i in r.get("meas", []) if i < len(qs)]
    if meas:
        c.append(cirq.Moment(cirq.measure(*meas, key="final")))
    return c, qs, built


@st.composite
def compile_cases(draw, kinds=None, thorough=False, max_w=3, max_ops=7):
    g = draw(gateset_recipes(kinds, thorough=thorough, allow_req=False))
    unroll = g["k"] in CORE_KINDS
    gp = g["k"] in ("cz", "sqrt_iswap", "syc", "gcz", "ionq", "aria", "forte") and draw(st.integers(0, 5)) == 0
    meas = not (g["k"] == "gcz" and g["eject"])
    only_native = {0: True, 1: "plus1q"}.get(draw(st.integers(0, 7)), False)
    if draw(st.integers(0, 5)) == 0:
        r = draw(bare_circuits(measure=meas))
    else:
        r = draw(compile_circuits(1, max_w, max_ops, nested=True, ignored=True, measure=meas, phase=gp, only_native=only_native))
    has_cop = any(o["k"] == "cop" for o in r["ops"])
    deep = bool(has_cop and unroll and draw(st.integers(0, 2)) != 0)
    return {"circ": r, "gs": g, "passes": draw(st.sampled_from([1, 1, None, 2])), "deep": deep}


@st.composite
def twoq_cases(draw, thorough=False):
    """A 2-qubit unitary circuit (one KAK-special op, or a short run of ops on the same pair) x a two-qubit gateset."""
    g = draw(gateset_recipes(TWOQ_KINDS, thorough=thorough, allow_req=True))
    r = draw(GC.wires(2, 2))
    single = draw(st.booleans())
    if single:
        kind = draw(st.sampled_from(["kak", "kak", "kak", "lib", "bare2q", "bare2q"]))
        if kind == "kak":
            ops = [{"k": "kak", "p": draw(kak_params()), "w": list(draw(st.permutations([0, 1])))}]
        elif kind == "bare2q":
            ops = [{"k": "bare2q", "name": draw(st.sampled_from(BARE2Q)), "e": draw(st.sampled_from(BARE_EXPONENTS)),
                    "w": list(draw(st.permutations([0, 1])))}]
        else:
            gg = draw(G.gate_recipes(lambda f: _lib_pred(f) and (f.arity == 2), max_arity=2))
            ops = [{"k": "lib", "g": gg, "w": list(draw(st.permutations([0, 1])))}]
    else:
        ops = [draw(_plain_op(2, max_arity=2)) for _ in range(draw(st.integers(2, 6)))]
        for o in ops:
            o["ins"] = draw(st.sampled_from([0, 0, 1]))
    r["ops"] = ops
    r["meas"] = []
    return {"circ": r, "gs": g, "passes": draw(st.sampled_from([1, 1, None, 2])), "deep": False, "single": single}


# ------------------------------------------------------------------------------------ routing

@st.composite
def graphs(draw, min_n=2, max_n=7):
    """Connected graph on n nodes: random spanning tree (node i>0 attached to a drawn earlier node) + drawn extra edges."""
    n = draw(st.integers(min_n, max_n))
    edges = set()
    for i in range(1, n):
        j = draw(st.integers(0, i - 1))
        edges.add((j, i))
    shape = draw(st.sampled_from(["tree", "tree", "sparse", "dense", "line", "star", "ring"]))
    if shape == "line":
        edges = {(i, i + 1) for i in range(n - 1)}
    elif shape == "star":
        edges = {(0, i) for i in range(1, n)}
    elif shape == "ring":
        edges = {(i, i + 1) for i in range(n - 1)} | ({(0, n - 1)} if n > 2 else set())
    elif shape in ("sparse", "dense"):
        allp = [(a, b) for a in range(n) for b in range(a + 1, n)]
        extra = draw(st.lists(st.sampled_from(allp), max_size=2 if shape == "sparse" else len(allp))) if allp else []
        edges |= set(extra)
    names = draw(st.permutations(list(range(n + 2))))[:n]
    nkind = draw(st.sampled_from(["line", "grid", "named"]))
    directed = draw(st.integers(0, 5)) == 0
    if directed and draw(st.booleans()):
        rev = [2 for _ in sorted(edges)]  # every edge in both directions
    else:
        rev = [draw(st.integers(0, 2)) for _ in sorted(edges)] if directed else []
    return {"n": n, "edges": sorted([list(e) for e in edges]), "names": list(names), "nkind": nkind, "directed": directed, "rev": rev}


def phys_qubit(gr, i):
    import cirq

    k = gr["names"][i]
    if gr["nkind"] == "line":
        return cirq.LineQubit(k)
    if gr["nkind"] == "grid":
        return cirq.GridQubit(k // 3, k % 3)
    return cirq.NamedQubit(f"p{k}")


def build_graph(gr):
    """-> (nx graph, physical qubits by node index, undirected edge set of index pairs)."""
    import networkx as nx

    n = gr["n"]
    ps = [phys_qubit(gr, i) for i in range(n)]
    und = {tuple(sorted(e)) for e in gr["edges"] if e[0] != e[1] and max(e) < n}
    if gr.get("directed"):
        g = nx.DiGraph()
        g.add_nodes_from(ps)
        rev = list(gr.get("rev", [])) + [0] * len(und)
        for (a, b), m in zip(sorted(und), rev):
            if m in (0, 2):
                g.add_edge(ps[a], ps[b])
            if m in (1, 2):
                g.add_edge(ps[b], ps[a])
    else:
        g = nx.Graph()
        g.add_nodes_from(ps)
        g.add_edges_from((ps[a], ps[b]) for a, b in sorted(und))
    return g, ps, und


def _route_pred(f):
    return _lib_pred(f) and f.name not in ("Identity",)


@st.composite
def route_cases(draw, max_n=7, max_ops=12):
    gr = draw(graphs(2, max_n))
    n = gr["n"]
    m = draw(st.integers(2, n)) if draw(st.integers(0, 9)) else draw(st.integers(1, n))  # logical qubits
    lnames = draw(st.permutations(list(range(m + 2))))[:m]
    lkind = draw(st.sampled_from(["line", "named", "grid"]))
    ops = []
    for _ in range(draw(st.integers(1, max_ops))):
        kind = draw(st.sampled_from(["g2", "g2", "g2", "g2", "g2", "g1", "g1", "meas", "swap"]))
        perm = draw(st.permutations(list(range(m))))
        if kind == "g2" and m >= 2:
            g = draw(G.gate_recipes(lambda f: _route_pred(f) and f.arity == 2, max_arity=2))
            ops.append({"k": "lib", "g": g, "w": list(perm[:2])})
        elif kind == "swap" and m >= 2:
            ops.append({"k": "lib", "g": ["SwapPow", {"e": 1.0, "s": 0.0}], "w": list(perm[:2])})
        elif kind == "meas":
            k = draw(st.integers(1, min(2, m)))
            ops.append({"k": "meas", "w": list(perm[:k]), "key": draw(st.sampled_from(["a", "b", "c", ""]))})
        else:
            g = draw(G.gate_recipes(lambda f: _route_pred(f) and f.arity == 1, max_arity=1))
            ops.append({"k": "lib", "g": g, "w": [perm[0]]})
    final_meas = draw(st.integers(0, 4)) == 0
    mapper = draw(st.sampled_from(["line", "hard", "hard", "hard", "default"]))
    case = {"graph": gr, "m": m, "lnames": list(lnames), "lkind": lkind, "ops": ops, "final_meas": final_meas, "mapper": mapper,
            "lookahead": draw(st.sampled_from([8, 1, 2, 0, 3, 20])), "tag": draw(st.booleans())}
    if mapper == "hard":
        # connected ordering of the nodes (each node adjacent to an earlier one), then a drawn injective assignment
        case["grow"] = [draw(st.integers(0, 50)) for _ in range(n)]
        case["k_extra"] = draw(st.integers(0, n - m))
        case["assign"] = list(draw(st.permutations(list(range(n)))))
    return case


def logical_qubit(case, i):
    import cirq

    k = case["lnames"][i]
    if case["lkind"] == "line":
        return cirq.LineQubit(100 + k)
    if case["lkind"] == "grid":
        return cirq.GridQubit(10 + k // 2, k % 2)
    return cirq.NamedQubit(f"l{k}")


def build_route_circuit(case):
    import cirq

    m = case["m"]
    ls = [logical_qubit(case, i) for i in range(m)]
    c = cirq.Circuit()
    nkey = 0
    for o in case["ops"]:
        w = [i for i in o["w"] if i < m]
        if o["k"] == "meas":
            if not w:
                continue
            key = o.get("key") or ""
            nkey += 1
            c.append(cirq.measure(*[ls[i] for i in w], key=f"{key}{nkey}" if key else None) if key else cirq.measure(*[ls[i] for i in w]))
        else:
            gate = G.build_gate(o["g"])
            if cirq.num_qubits(gate) > len(w):
                continue
            c.append(gate.on(*[ls[i] for i in w[: cirq.num_qubits(gate)]]))
    if case.get("final_meas") and m >= 1:
        c.append(cirq.Moment(cirq.measure(*ls, key="fin")))
    return c, ls


def connected_subset(und, n, size, grow):
    """Deterministic connected node subset of ``size`` nodes grown from drawn ints (independent of Cirq)."""
    adj = {i: set() for i in range(n)}
    for a, b in und:
        adj[a].add(b)
        adj[b].add(a)
    grow = list(grow) + [0] * n
    cur = [grow[0] % n]
    k = 1
    while len(cur) < size:
        frontier = sorted({v for u in cur for v in adj[u]} - set(cur))
        if not frontier:
            break
        cur.append(frontier[grow[k] % len(frontier)])
        k += 1
    return cur


# ------------------------------------------------------------------------------------ devices

GRID_SPECS = ["syc", "sqrt_iswap", "sqrt_iswap_inv", "cz", "cz_pow_gate", "phased_xz", "virtual_zpow", "physical_zpow", "meas",
              "wait", "fsim_via_model", "two_pulse_fsim", "reset"]

# op pool shared by all device sub-checks: key -> (arity, builder() -> gate, tags builder)
def _pool():
    import cirq
    import cirq_google

    P = {
        "SYC": (2, lambda: cirq_google.SYC),
        "FSIM_SYC": (2, lambda: cirq.FSimGate(np.pi / 2, np.pi / 6)),
        "SQRT_ISWAP": (2, lambda: cirq.SQRT_ISWAP),
        "FSIM_SQRT_ISWAP": (2, lambda: cirq.FSimGate(-np.pi / 4, 0)),
        "SQRT_ISWAP_INV": (2, lambda: cirq.SQRT_ISWAP_INV),
        "FSIM_SQRT_ISWAP_INV": (2, lambda: cirq.FSimGate(np.pi / 4, 0)),
        "CZ": (2, lambda: cirq.CZ),
        "CZ_HALF": (2, lambda: cirq.CZ ** 0.5),
        "CZ_SQ": (2, lambda: cirq.CZ ** 2),
        "CZ_INV": (2, lambda: cirq.CZ ** -1),
        "FSIM_CZ": (2, lambda: cirq.FSimGate(0, np.pi)),
        "FSIM_OTHER": (2, lambda: cirq.FSimGate(0.3, 0.2)),
        "ISWAP": (2, lambda: cirq.ISWAP),
        "CNOT": (2, lambda: cirq.CNOT),
        "CNOT_HALF": (2, lambda: cirq.CNOT ** 0.5),
        "SWAP": (2, lambda: cirq.SWAP),
        "XX": (2, lambda: cirq.XX ** 0.3),
        "YY": (2, lambda: cirq.YY ** 0.3),
        "ZZ": (2, lambda: cirq.ZZ ** 0.3),
        "MS": (2, lambda: cirq.ms(0.4)),
        "I2": (2, lambda: cirq.IdentityGate(2)),
        "X": (1, lambda: cirq.X),
        "X_T": (1, lambda: cirq.X ** 0.3),
        "Y_T": (1, lambda: cirq.Y ** 0.3),
        "Z_T": (1, lambda: cirq.Z ** 0.3),
        "RX": (1, lambda: cirq.rx(0.3)),
        "H": (1, lambda: cirq.H),
        "H_HALF": (1, lambda: cirq.H ** 0.5),
        "S": (1, lambda: cirq.S),
        "PHX": (1, lambda: cirq.PhasedXPowGate(phase_exponent=0.2, exponent=0.3)),
        "PHXZ": (1, lambda: cirq.PhasedXZGate(x_exponent=0.2, z_exponent=0.3, axis_phase_exponent=0.4)),
        "I1": (1, lambda: cirq.I),
        "CLIFF": (1, lambda: cirq.SingleQubitCliffordGate.all_single_qubit_cliffords[7]),
        "U1": (1, lambda: cirq.MatrixGate(np.array([[0, 1], [1, 0]], dtype=complex))),
        "MEAS1": (1, lambda: cirq.MeasurementGate(1, key="m1")),
        "MEAS2": (2, lambda: cirq.MeasurementGate(2, key="m2")),
        "MEAS_INV": (1, lambda: cirq.MeasurementGate(1, key="mi", invert_mask=(True,))),
        "WAIT": (1, lambda: cirq.WaitGate(cirq.Duration(nanos=10))),
        "WAIT2": (2, lambda: cirq.WaitGate(cirq.Duration(nanos=10), num_qubits=2)),
        "RESET": (1, lambda: cirq.ResetChannel()),
        "CCZ": (3, lambda: cirq.CCZ),
        "CCX": (3, lambda: cirq.CCX),
        "CCZ_HALF": (3, lambda: cirq.CCZ ** 0.5),
        "PAR_X": (2, lambda: cirq.ParallelGate(cirq.X, 2)),
        "PAR_S": (2, lambda: cirq.ParallelGate(cirq.ISWAP, 1) if False else cirq.ParallelGate(cirq.T, 2)),
    }
    return P


POOL_KEYS = ["SYC", "FSIM_SYC", "SQRT_ISWAP", "FSIM_SQRT_ISWAP", "SQRT_ISWAP_INV", "FSIM_SQRT_ISWAP_INV", "CZ", "CZ_HALF", "CZ_SQ",
             "CZ_INV", "FSIM_CZ", "FSIM_OTHER", "ISWAP", "CNOT", "CNOT_HALF", "SWAP", "XX", "YY", "ZZ", "MS", "I2", "X", "X_T", "Y_T",
             "Z_T", "RX", "H", "H_HALF", "S", "PHX", "PHXZ", "I1", "CLIFF", "U1", "MEAS1", "MEAS2", "MEAS_INV", "WAIT", "WAIT2", "RESET",
             "CCZ", "CCX", "CCZ_HALF", "PAR_X", "PAR_S"]
TAGS = ["none", "none", "none", "physz", "fsim_model", "two_pulse", "other"]
_POOL = {}


def pool_gate(key):
    if not _POOL:
        _POOL.update(_pool())
    ar, mk = _POOL[key]
    return ar, mk()


def pool_arity(key):
    return pool_gate(key)[0]


def op_tags(tag):
    import cirq_google

    return {"none": (), "physz": (cirq_google.PhysicalZTag(),), "fsim_model": (cirq_google.FSimViaModelTag(),),
            "two_pulse": (cirq_google.TwoPulseFSimTag(),), "other": ("vf_other",)}[tag]


@st.composite
def device_ops(draw, nq, n_off, keys=None, min_ops=6, max_ops=14, tags=True):
    """Ops on qubit indices: 0..nq-1 are device qubits, nq..nq+n_off-1 are off-device qubits."""
    out = []
    tot = nq + n_off
    for _ in range(draw(st.integers(min_ops, max_ops))):
        k = draw(st.sampled_from(keys or POOL_KEYS))
        ar = pool_arity(k)
        if ar > tot:
            continue
        on = draw(st.integers(0, 3)) != 0 or n_off == 0
        cand = list(range(nq)) if on and nq >= ar else list(range(tot))
        w = list(draw(st.permutations(cand)))[:ar]
        if not tags:
            tag = "none"
        elif k in ("Z_T", "S"):
            tag = draw(st.sampled_from(["none", "physz", "physz", "other"]))
        elif k in ("SYC", "FSIM_SYC", "FSIM_SQRT_ISWAP", "FSIM_SQRT_ISWAP_INV", "FSIM_CZ", "FSIM_OTHER"):
            tag = draw(st.sampled_from(["none", "none", "fsim_model", "two_pulse", "physz"]))
        else:
            tag = draw(st.sampled_from(TAGS))
        out.append({"g": k, "w": w, "tag": tag})
    return out


@st.composite
def grid_device_cases(draw):
    cells = [(r, c) for r in range(3) for c in range(3)]
    nq = draw(st.integers(2, 6))
    qs = list(draw(st.permutations(cells)))[:nq]
    n_off = draw(st.integers(1, 2))
    off = [q for q in cells if q not in qs][:n_off]
    allp = [(a, b) for a in range(nq) for b in range(a + 1, nq)]
    pairs = draw(st.lists(st.sampled_from(allp), max_size=len(allp), unique=True))
    pairs = [list(p) if draw(st.booleans()) else [p[1], p[0]] for p in pairs]
    specs = draw(st.lists(st.sampled_from(GRID_SPECS), min_size=3, max_size=len(GRID_SPECS), unique=True))
    from vf.ref import c07_ref as R

    members = [k for k in POOL_KEYS if any(R.grid_member(k, t, specs) for t in ("none", "physz", "fsim_model", "two_pulse"))]
    ops = draw(device_ops(nq, len(off), min_ops=3, max_ops=7))
    if members:
        ops = ops + draw(device_ops(nq, len(off), keys=members, min_ops=3, max_ops=7))
    order = draw(st.permutations(list(range(len(ops)))))
    ops = [ops[i] for i in order]
    # circuit of REPEATED equal gates that differ only in tags / qubits (bulk validation paths must decide per operation)
    sens = ["Z_T", "S", "FSIM_OTHER", "FSIM_SYC", "SYC", "FSIM_CZ", "FSIM_SQRT_ISWAP"]
    palette = draw(st.lists(st.sampled_from(sens + sens + (members or sens)), min_size=1, max_size=2))
    tcirc = draw(device_ops(nq, len(off) if draw(st.integers(0, 3)) == 0 else 0, keys=palette, min_ops=2, max_ops=7))
    return {"qubits": [list(q) for q in qs], "off": [list(q) for q in off], "off_kind": draw(st.sampled_from(["grid", "grid", "line", "named"])),
            "tcirc": tcirc, "tcirc_new": draw(st.booleans()),
            "pairs": pairs, "specs": specs, "via": draw(st.sampled_from(["proto", "proto", "metadata", "roundtrip"])),
            "distract": draw(st.booleans()), "durations": draw(st.booleans()),
            "ops": ops, "circ": draw(st.lists(st.integers(0, 13), max_size=6)), "circ_valid_only": draw(st.booleans())}


def build_grid_device(case):
    """-> (device, on-device qubits list, off-device qubits list)."""
    import cirq
    import cirq_google
    from cirq_google.api import v2

    qs = [cirq.GridQubit(*rc) for rc in case["qubits"]]
    if case.get("off_kind", "grid") == "grid":
        off = [cirq.GridQubit(*rc) for rc in case["off"]]
    elif case["off_kind"] == "line":
        off = [cirq.LineQubit(i) for i in range(len(case["off"]))]
    else:
        off = [cirq.NamedQubit(f"x{i}") for i in range(len(case["off"]))]
    nq = len(qs)
    pairs = [(qs[a], qs[b]) for a, b in case["pairs"] if a < nq and b < nq and a != b]
    via = case.get("via", "proto")
    if via in ("proto", "roundtrip"):
        spec = v2.device_pb2.DeviceSpecification()
        spec.valid_qubits.extend(f"{q.row}_{q.col}" for q in qs)
        ts = spec.valid_targets.add()
        ts.name = "2_qubit_targets"
        ts.target_ordering = v2.device_pb2.TargetSet.SYMMETRIC
        for a, b in pairs:
            t = ts.targets.add()
            t.ids.extend([f"{a.row}_{a.col}", f"{b.row}_{b.col}"])
        if case.get("distract"):
            # target sets that must NOT contribute pairs: single-qubit targets and a non-SYMMETRIC two-qubit set
            ms = spec.valid_targets.add()
            ms.name = "meas_targets"
            ms.target_ordering = v2.device_pb2.TargetSet.SUBSET_PERMUTATION
            for q in qs:
                ms.targets.add().ids.append(f"{q.row}_{q.col}")
            if nq >= 2:
                t = ms.targets.add()
                t.ids.extend([f"{qs[0].row}_{qs[0].col}", f"{qs[-1].row}_{qs[-1].col}"])
        for i, name in enumerate(case["specs"]):
            gs = spec.valid_gates.add()
            getattr(gs, name).SetInParent()
            if case.get("durations"):
                gs.gate_duration_picos = 1000 * (i + 1)
        dev = cirq_google.GridDevice.from_proto(spec)
        if via == "roundtrip":
            dev = cirq_google.GridDevice.from_proto(dev.to_proto())
    else:
        fams = []
        for name in case["specs"]:
            fams += grid_spec_families(name)
        md = cirq.GridDeviceMetadata(qubit_pairs=pairs, gateset=cirq.Gateset(*fams), all_qubits=qs)
        dev = cirq_google.GridDevice(md)
    return dev, qs, off


def grid_spec_families(name):
    """Gate families a user would put in a metadata gateset for the gate-spec ``name`` (documented proto meaning)."""
    import cirq
    import cirq_google

    return {
        "syc": [cirq_google.FSimGateFamily(gates_to_accept=[cirq_google.SYC])],
        "sqrt_iswap": [cirq_google.FSimGateFamily(gates_to_accept=[cirq.SQRT_ISWAP])],
        "sqrt_iswap_inv": [cirq_google.FSimGateFamily(gates_to_accept=[cirq.SQRT_ISWAP_INV])],
        "cz": [cirq_google.FSimGateFamily(gates_to_accept=[cirq.CZ])],
        "cz_pow_gate": [cirq.GateFamily(cirq.CZPowGate)],
        "phased_xz": [cirq.GateFamily(cirq.IdentityGate), cirq.GateFamily(cirq.PhasedXZGate), cirq.GateFamily(cirq.XPowGate),
                      cirq.GateFamily(cirq.YPowGate), cirq.GateFamily(cirq.HPowGate), cirq.GateFamily(cirq.PhasedXPowGate),
                      cirq.GateFamily(cirq.ops.SingleQubitCliffordGate)],
        "virtual_zpow": [cirq.GateFamily(cirq.ZPowGate, tags_to_ignore=[cirq_google.PhysicalZTag()])],
        "physical_zpow": [cirq.GateFamily(cirq.ZPowGate, tags_to_accept=[cirq_google.PhysicalZTag()])],
        "meas": [cirq.GateFamily(cirq.MeasurementGate)],
        "wait": [cirq.GateFamily(cirq.WaitGate)],
        "fsim_via_model": [cirq.GateFamily(cirq.FSimGate, tags_to_accept=[cirq_google.FSimViaModelTag()])],
        "two_pulse_fsim": [cirq.GateFamily(cirq.FSimGate, tags_to_accept=[cirq_google.TwoPulseFSimTag()])],
        "reset": [cirq.GateFamily(cirq.ResetChannel)],
    }[name]


def build_device_op(o, qs, off):
    """-> cirq.Operation or None."""
    ar, gate = pool_gate(o["g"])
    allq = list(qs) + list(off)
    w = [i for i in o["w"] if i < len(allq)]
    if len(w) < ar or len(set(w)) < len(w):
        return None
    op = gate.on(*[allq[i] for i in w[:ar]])
    tags = op_tags(o.get("tag", "none"))
    return op.with_tags(*tags) if tags else op


VENDOR_KEYS_IONQ = ["X", "X_T", "Y_T", "Z_T", "RX", "H", "H_HALF", "S", "CNOT", "CNOT_HALF", "SWAP", "XX", "YY", "ZZ", "MS", "CZ", "ISWAP",
                    "MEAS1", "MEAS2", "PHX", "PHXZ", "U1", "I1", "CCZ", "CCX", "WAIT", "SQRT_ISWAP"]
VENDOR_KEYS_AQT = ["X", "X_T", "Y_T", "Z_T", "RX", "H", "S", "CNOT", "XX", "MS", "YY", "ZZ", "CZ", "MEAS1", "MEAS2", "PHX", "PHXZ", "U1",
                   "I1", "CCZ", "WAIT"]
VENDOR_KEYS_PASQAL = ["X", "X_T", "Y_T", "Z_T", "RX", "H", "H_HALF", "S", "CNOT", "CNOT_HALF", "CZ", "CZ_HALF", "CZ_SQ", "CZ_INV", "XX",
                      "ISWAP", "MEAS1", "MEAS2", "MEAS_INV", "PHX", "PHXZ", "U1", "I1", "I2", "CCZ", "CCX", "CCZ_HALF", "PAR_X", "PAR_S",
                      "SWAP", "WAIT"]


@st.composite
def vendor_device_cases(draw):
    kind = draw(st.sampled_from(["ionq", "ionq", "aqt", "aqt", "pasqal", "pasqal_virtual", "pasqal_virtual"]))
    nq = draw(st.integers(1, 5))
    n_off = draw(st.integers(1, 2))
    case = {"kind": kind, "nq": nq, "n_off": n_off, "circ": draw(st.lists(st.integers(0, 13), max_size=6)),
            "new_moments": draw(st.booleans()), "circ_valid_only": draw(st.booleans())}
    if kind == "ionq":
        case["as_int"] = draw(st.booleans())
        case["xs"] = list(draw(st.permutations(list(range(8)))))[: nq + n_off]
        case["ops"] = draw(device_ops(nq, n_off, VENDOR_KEYS_IONQ, tags=False))
        case["off_kind"] = draw(st.sampled_from(["line", "line", "named"]))
    elif kind == "aqt":
        case["xs"] = list(draw(st.permutations(list(range(8)))))[: nq + n_off]
        case["ops"] = draw(device_ops(nq, n_off, VENDOR_KEYS_AQT, tags=False))
        case["off_kind"] = draw(st.sampled_from(["line", "line", "named"]))
        case["dup_keys"] = draw(st.booleans())
    elif kind == "pasqal":
        case["ops"] = draw(device_ops(nq, n_off, VENDOR_KEYS_PASQAL, tags=False))
        case["off_kind"] = draw(st.sampled_from(["named", "named", "line"]))
    else:
        case["qkind"] = draw(st.sampled_from(["two_d", "three_d", "three_d", "three_d", "grid", "line"]))
        if case["qkind"] == "three_d":
            # genuinely 3-d registers: same / close (x, y) with different z, so planar and 3-d distance disagree
            pts = [(x, y, z) for x in range(3) for y in range(2) for z in range(4)]
        else:
            pts = [(x, y, 0) for x in range(4) for y in range(3)]
        case["pts"] = [list(p) for p in list(draw(st.permutations(pts)))[: nq + n_off]]
        case["radius"] = draw(st.sampled_from([0.0, 1.0, 1.0, 1.5, 2.0, 2.5, 3.0, 1.42, 1.74, 2.24]))
        ops = draw(device_ops(nq, n_off, VENDOR_KEYS_PASQAL, tags=False, min_ops=4, max_ops=10))
        ops += draw(device_ops(nq, 0, ["CZ", "CZ", "CZ_INV", "CZ_SQ"], tags=False, min_ops=2, max_ops=5))  # distance-limited gates
        case["ops"] = [ops[i] for i in draw(st.permutations(list(range(len(ops)))))]
        case["off_kind"] = draw(st.sampled_from(["same", "same", "named"]))
    # circuit of repeated equal gates on varying (on-/off-device) qubits
    vkeys = {"ionq": VENDOR_KEYS_IONQ, "aqt": VENDOR_KEYS_AQT}.get(kind, VENDOR_KEYS_PASQAL)
    palette = draw(st.lists(st.sampled_from([k for k in vkeys if k != "MEAS_INV"]), min_size=1, max_size=2))
    case["tcirc"] = draw(device_ops(nq, n_off if draw(st.booleans()) else 0, keys=palette, min_ops=2, max_ops=6, tags=False))
    case["tcirc_new"] = draw(st.booleans())
    return case


@st.composite
def twoq_cases_single(draw):
    """One 2-qubit unitary x a sqrt-iSWAP target (the oracle iterates required_sqrt_iswap_count itself)."""
    g = {"k": "sqrt_iswap", "atol": draw(st.sampled_from(ATOLS)), "inv": draw(st.booleans()), "req": None, "add": []}
    r = draw(GC.wires(2, 2))
    sel = draw(st.integers(0, 5))
    if sel == 0:
        gg = draw(G.gate_recipes(lambda f: _lib_pred(f) and (f.arity == 2), max_arity=2))
        ops = [{"k": "lib", "g": gg, "w": list(draw(st.permutations([0, 1])))}]
    elif sel == 1:
        ops = [{"k": "bare2q", "name": draw(st.sampled_from(BARE2Q)), "e": draw(st.sampled_from(BARE_EXPONENTS)), "w": list(draw(st.permutations([0, 1])))}]
    else:
        ops = [{"k": "kak", "p": draw(kak_params()), "w": list(draw(st.permutations([0, 1])))}]
    r["ops"] = ops
    r["meas"] = []
    return {"circ": r, "gs": g, "passes": draw(st.sampled_from([1, 1, None, 2])), "deep": False, "single": True}


def bare_table(tier):
    """Finite table: every named two-qubit gate x every special exponent, alone in a 2-qubit circuit, x target gatesets with
    default options (quick: the three core two-qubit targets + one rotating vendor target; thorough: all targets, both qubit orders)."""
    exps = sorted(set(BARE_EXPONENTS))

    def gs(kind, i):
        return {"cz": {"k": "cz", "atol": 1e-8, "partial": bool(i % 2), "add": [], "pms": True, "reorder": False},
                "sqrt_iswap": {"k": "sqrt_iswap", "atol": 1e-8, "inv": bool(i % 2), "req": None, "add": []},
                "syc": {"k": "syc", "atol": 1e-8, "tab": False}, "gcz": {"k": "gcz", "atol": 1e-8, "eject": False, "add": []},
                "ionq": {"k": "ionq", "atol": 1e-8}, "aria": {"k": "aria", "atol": 1e-8}, "forte": {"k": "forte", "atol": 1e-8},
                "aqt": {"k": "aqt"}, "pasqal": {"k": "pasqal", "ctrl": bool(i % 2)}}[kind]

    out = []
    i = 0
    vendors = ["gcz", "ionq", "aria", "forte", "aqt", "pasqal"]
    for name in BARE2Q:
        for e in exps:
            i += 1
            kinds = ["syc", "cz", "sqrt_iswap", vendors[i % len(vendors)]] if tier == "quick" else ["syc", "cz", "sqrt_iswap"] + vendors
            orders = [[0, 1]] if tier == "quick" else [[0, 1], [1, 0]]
            for kind in kinds:
                for w in orders:
                    circ = {"dims": [2, 2], "names": [1, 0] if i % 2 else [0, 2], "qkind": "line", "meas": [],
                            "ops": [{"k": "bare2q", "name": name, "e": e, "w": w if tier != "quick" or i % 3 else w[::-1], "ins": 0}]}
                    out.append({"circ": circ, "gs": gs(kind, i), "passes": 1, "deep": False, "single": True})
    return out
