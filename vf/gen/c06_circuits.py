"""C06 circuit grammar G6: unitary gates + measurements, classical control, channels, tags, CircuitOperations.

Recipe (JSON-able):
  {"dims": [...], "names": [...], "qkind": ..., "repkeys": bool, "ops": [op, ...], "empties": [...],
   "res": {"s0": float, "s1": float}, "psi": [floats]}
op kinds (every op may carry "ins": insert strategy index and "tag": 0 none / 1 ignore tag / 2 other tag):
  {"k":"g", "g":[family, params], "w":[wires], "sym": 0|1|2}         unitary gate (sym>0: exponent := Symbol s0/s1)
  {"k":"ch", "g":[family, params], "w":[wires]}                      channel
  {"k":"m", "w":[wires], "key": int, "inv":[bool..], "conf": None|[floats]}   measurement
  {"k":"cc", "g":[family, params], "w":[wires], "conds":[cond, ...]}  classically controlled gate
  {"k":"sub", "body":[ops], "reps":1|2, "qperm":[ints]|None, "kmap": bool, "tag": 0..4}   CircuitOperation
cond:
  {"t":"key", "ki": int, "index": -1|0}
  {"t":"bitmask", "ki": int, "index": -1|0, "bitmask": int|None, "target": int, "equal": bool}
  {"t":"sympy", "ki": int, "kj": int, "form": int, "c": int}
``ki`` picks (modulo) among the keys measured before the op in program order; an op whose conditions cannot be
bound (nothing measured yet) is emitted without control.

The builder is deliberately defensive (indices modulo sizes, malformed ops skipped) so that the generic JSON
minimiser can shorten recipes freely.
"""
from __future__ import annotations

from dataclasses import dataclass, field
from typing import List, Optional

from hypothesis import strategies as st

from . import circuits as GC
from . import gates as G

IGN = "vf_ignore"  # the tag listed in tags_to_ignore
OTHER = "vf_other"  # an innocuous tag
MAPPED = "<mapped_circuit_op>"  # cirq.transformers.transformer_primitives.MAPPED_CIRCUIT_OP_TAG (documented default)
SUBTAG = "vf_sub"
OP_TAGS = {0: (), 1: (IGN,), 2: (OTHER,)}
SUB_TAGS = {0: (), 1: (IGN,), 2: (OTHER,), 3: (MAPPED,), 4: (SUBTAG,), 5: (MAPPED, IGN)}

SYMBOLS = ["s0", "s1"]
EIGEN_SYM = {"XPow", "YPow", "ZPow", "CZPow", "HPow", "ZZPow", "ISwapPow", "CXPow"}
SYM_ALL = EIGEN_SYM | {"PhasedXPow"}


@dataclass
class Cfg:
    """What a transformer row accepts as input."""
    meas: float = 0.0  # weight of measurement ops
    cc: float = 0.0  # weight of classically controlled ops
    chan: float = 0.0
    sub: float = 0.0
    tags: bool = True
    param: bool = False
    zeroq: bool = True
    qudits: bool = False
    repkeys: bool = False  # allow repeated measurement keys
    terminal_only: bool = False  # measurements only at the end (all wires idle afterwards)
    max_w: int = 4
    max_ops: int = 9
    min_ops: int = 1
    max_arity: int = 3
    boost: list = field(default_factory=list)  # gate recipes drawn with extra weight
    boost_p: float = 0.4
    pred: object = None  # family predicate (default: unitary qubit gates)
    conf: bool = True  # confusion maps allowed
    sub_tags: tuple = (0, 0, 1, 1, 1, 2, 3, 4)
    sub_reps2: bool = True
    sub_kmap: bool = True
    sub_qperm: bool = True
    nest: bool = True
    bitmask: bool = True
    meas_arity: tuple = (1, 1, 1, 2, 2, 3)
    leg_p: int = 2  # out of 10: measure one leg right behind a two-qubit gate
    tail: object = None  # callable(dims) -> strategy of op recipes appended at the very end (row specific shapes)
    tail_p: int = 4  # out of 10


def _default_pred(cfg):
    def pred(f):
        if not f.unitary or f.qudit:
            return False
        if not cfg.zeroq and "zeroq" in f.tags:
            return False
        return True

    return cfg.pred or pred


@st.composite
def _gate_op(draw, cfg: Cfg, dims):
    if cfg.boost and draw(st.floats(0, 1)) < cfg.boost_p:
        g = draw(st.sampled_from(cfg.boost))
        if callable(g):
            g = draw(g())
        k = G.arity(g)
        qw = [i for i, d in enumerate(dims) if d == 2]
        if k <= len(qw):
            w = list(draw(st.permutations(qw)))[:k]
            o = {"k": "g", "g": g, "w": w}
        else:
            o = dict(draw(GC.op_on(dims, _default_pred(cfg), cfg.max_arity)), k="g")
    else:
        o = dict(draw(GC.op_on(dims, _default_pred(cfg), cfg.max_arity)), k="g")
    if cfg.param and o["g"][0] in SYM_ALL and draw(st.integers(0, 2)) == 0:
        o["sym"] = draw(st.integers(1, 2))
    return o


@st.composite
def _cond(draw, cfg: Cfg):
    t = draw(st.sampled_from(["key", "key", "bitmask", "sympy"] if cfg.bitmask else ["key", "key", "sympy"]))
    ki = draw(st.integers(0, 5))
    if t == "key":
        return {"t": "key", "ki": ki, "index": draw(st.sampled_from([-1, -1, -1, 0]))}
    if t == "bitmask":
        return {"t": "bitmask", "ki": ki, "index": draw(st.sampled_from([-1, -1, -1, 0])),
                "bitmask": draw(st.sampled_from([None, 1, 2, 3])), "target": draw(st.integers(0, 3)),
                "equal": draw(st.booleans())}
    return {"t": "sympy", "ki": ki, "kj": draw(st.integers(0, 5)), "form": draw(st.integers(0, 4)), "c": draw(st.integers(0, 2))}


@st.composite
def _meas_op(draw, cfg: Cfg, dims, wires=None):
    n = len(dims)
    k = draw(st.sampled_from(list(cfg.meas_arity)))
    k = min(k, n)
    w = list(draw(st.permutations(list(range(n)))))[:k] if wires is None else wires
    o = {"k": "m", "w": w, "key": draw(st.integers(0, 2))}
    if draw(st.integers(0, 2)) == 0:
        o["inv"] = draw(st.lists(st.booleans(), min_size=0, max_size=len(w)))
    if cfg.conf and draw(st.integers(0, 4)) == 0 and all(dims[i] == 2 for i in w):
        # confusion map on the first one or two measured positions; rows drawn as probabilities
        m = 1 if len(w) == 1 else draw(st.integers(1, 2))
        o["conf"] = {"m": m, "p": draw(st.lists(G.probs(), min_size=2 ** m * (2 ** m - 1), max_size=2 ** m * (2 ** m - 1)))}
    return o


@st.composite
def _body(draw, cfg: Cfg, dims, depth, max_ops):
    nops = draw(st.integers(cfg.min_ops if depth == 0 else 1, max_ops))
    ops = []
    kinds = ["g"] * 10
    kinds += ["m"] * int(round(cfg.meas * 10)) + ["cc"] * int(round(cfg.cc * 10)) + ["ch"] * int(round(cfg.chan * 10))
    if depth < (2 if cfg.nest else 1):
        kinds += ["sub"] * int(round(cfg.sub * 10))
    forced = -1
    if depth == 0 and cfg.meas > 0 and not cfg.terminal_only and draw(st.integers(0, 9)) < 7:
        forced = draw(st.integers(0, max(0, (nops - 1) // 2)))
    for i_op in range(nops):
        kind = draw(st.sampled_from(kinds))
        if i_op == forced:
            kind = "m"
        if kind == "m" and cfg.terminal_only:
            kind = "g"
        if kind == "g":
            o = draw(_gate_op(cfg, dims))
        elif kind == "ch":
            o = dict(draw(GC.op_on(dims, lambda f: f.channel and not f.qudit, 2)), k="ch")
        elif kind == "m":
            o = draw(_meas_op(cfg, dims))
        elif kind == "cc":
            o = dict(draw(GC.op_on(dims, lambda f: f.unitary and not f.qudit and "zeroq" not in f.tags, 2)), k="cc")
            o["conds"] = draw(st.lists(_cond(cfg), min_size=1, max_size=2))
        else:
            o = {"k": "sub", "body": draw(_body(cfg, dims, depth + 1, 4)),
                 "reps": draw(st.sampled_from([1, 1, 1, 2])) if cfg.sub_reps2 else 1,
                 "qperm": draw(st.one_of(st.none(), st.lists(st.integers(0, 5), min_size=1, max_size=4))) if cfg.sub_qperm else None,
                 "kmap": draw(st.booleans()) if cfg.sub_kmap else False,
                 "tag": draw(st.sampled_from(list(cfg.sub_tags)))}
        o["ins"] = draw(st.sampled_from([0, 0, 0, 1, 2, 3]))
        if cfg.tags and kind != "sub":
            o["tag"] = draw(st.sampled_from([0, 0, 0, 0, 1, 1, 2]))
        ops.append(o)
        if kind == "g" and cfg.meas > 0 and not cfg.terminal_only and len(o["w"]) == 2 and draw(st.integers(0, 9)) < cfg.leg_p:
            # measure one leg of a two-qubit gate right behind it
            leg = draw(st.integers(0, 1))
            ops.append({"k": "m", "w": [o["w"][leg]], "key": draw(st.integers(0, 2)), "ins": 0, "tag": 0})
            if draw(st.booleans()):
                # ... then rotate and measure the other leg: phase kick-back of the two-qubit gate becomes observable
                g1 = draw(G.gate_recipes(lambda f: f.unitary and not f.qudit and f.arity == 1 and "diag" not in f.tags, max_arity=1))
                ops.append({"k": "g", "g": g1, "w": [o["w"][1 - leg]], "ins": 0, "tag": 0})
                ops.append({"k": "m", "w": [o["w"][1 - leg]], "key": draw(st.integers(0, 2)), "ins": 0, "tag": 0})
        if kind == "m" and cfg.cc > 0 and draw(st.integers(0, 9)) < 4:
            # feed-forward right behind the measurement, preferably on wires the measurement does not touch
            free = [w for w in range(len(dims)) if w not in o["w"] and dims[w] == 2]
            if free:
                g = draw(G.gate_recipes(lambda f: f.unitary and not f.qudit and f.arity == 1, max_arity=1))
                ops.append({"k": "cc", "g": g, "w": [draw(st.sampled_from(free))], "conds": [draw(_cond(cfg))],
                            "ins": draw(st.sampled_from([0, 0, 1])), "tag": 0})
    return ops


@st.composite
def circuits6(draw, cfg: Cfg):
    r = draw(GC.wires(1, cfg.max_w, cfg.qudits))
    r["repkeys"] = cfg.repkeys and draw(st.integers(0, 3)) == 0
    r["ops"] = draw(_body(cfg, r["dims"], 0, cfg.max_ops))
    n = len(r["dims"])
    if cfg.tail is not None and n >= 2 and draw(st.integers(0, 9)) < cfg.tail_p:
        r["ops"] = r["ops"] + draw(cfg.tail(r["dims"]))
    if cfg.terminal_only and cfg.meas > 0:
        # terminal measurements: a partition of a subset of the wires, appended at the end
        ws = list(draw(st.permutations(list(range(n)))))[: draw(st.integers(0, n))]
        i = 0
        while i < len(ws):
            k = draw(st.integers(1, min(2, len(ws) - i)))
            o = draw(_meas_op(cfg, r["dims"], wires=ws[i:i + k]))
            o["ins"] = draw(st.sampled_from([0, 0, 1]))
            o["term"] = True
            if cfg.tags:
                o["tag"] = draw(st.sampled_from([0, 0, 0, 0, 1, 2]))
            r["ops"].append(o)
            i += k
    r["empties"] = draw(st.lists(st.integers(0, len(r["ops"])), max_size=2))
    if cfg.param:
        r["res"] = {s: draw(G.exponents()) for s in SYMBOLS}
    return r


# ------------------------------------------------------------------------------------------------ builder


@dataclass
class Built:
    circuit: object
    qubits: list  # wire order
    n_ops: int = 0
    keys: list = field(default_factory=list)  # measured key names in program order (top level view)
    stats: dict = field(default_factory=dict)


class _Ctx:
    def __init__(self, recipe):
        self.recipe = recipe
        self.counter = 0
        self.stats = {"meas": 0, "cc": 0, "chan": 0, "sub": 0, "ign": 0, "sym": 0, "zeroq": 0, "cc_bound": 0, "nested": 0, "conf": 0,
                      "inv": 0, "reps2": 0, "kmap": 0, "qperm": 0, "bitmask": 0}


def _key_name(ctx: _Ctx, o, arity, dims_sig):
    if ctx.recipe.get("repkeys"):
        return f"k{int(o.get('key', 0)) % 3}_{dims_sig}"
    ctx.counter += 1
    return f"m{ctx.counter}"


def _tags(o, table):
    try:
        return table.get(int(o.get("tag", 0)) % (max(table) + 1), ())
    except (TypeError, ValueError):
        return ()


def _build_gate(o, sym_ok=True):
    import cirq
    import sympy

    g = G.build_gate(o["g"])
    s = o.get("sym", 0)
    if s and sym_ok and o["g"][0] in SYM_ALL:
        symb = sympy.Symbol(SYMBOLS[(int(s) - 1) % 2])
        p = o["g"][1]
        if o["g"][0] == "PhasedXPow":
            g = cirq.PhasedXPowGate(phase_exponent=p["p"], exponent=symb, global_shift=p["s"])
        else:
            g = type(g)(exponent=symb, global_shift=p["s"])
    return g


def _conf_map(o, nw):
    import numpy as np

    cf = o.get("conf")
    if not cf:
        return None
    m = max(1, min(int(cf.get("m", 1)), nw, 2))
    d = 2 ** m
    vals = list(cf.get("p", [])) + [0.0] * (d * (d - 1))
    mat = np.zeros((d, d))
    it = iter(vals)
    for r in range(d):
        row = [abs(float(next(it))) for _ in range(d - 1)]
        tot = sum(row)
        if tot > 1:
            row = [x / tot for x in row]
        rest = max(0.0, 1.0 - sum(row))
        full = row[:r] + [rest] + row[r:]
        mat[r, :] = full
    return {tuple(range(m)): mat}


def _cond_obj(ctx, c, avail):
    """avail: list of (key name, nbits) measured before this op (innermost scope last)."""
    import cirq
    import sympy

    if not avail:
        return None
    name, nbits = avail[int(c.get("ki", 0)) % len(avail)]
    t = c.get("t")
    idx = 0 if c.get("index", -1) == 0 else -1
    if t == "bitmask":
        ctx.stats["bitmask"] += 1
        bm = c.get("bitmask")
        lim = 2 ** nbits
        return cirq.BitMaskKeyCondition(name, index=idx, target_value=int(c.get("target", 0)) % lim, equal_target=bool(c.get("equal")),
                                        bitmask=None if bm is None else max(1, int(bm) % lim))
    if t == "sympy":
        name2, _ = avail[int(c.get("kj", 0)) % len(avail)]
        a, b = sympy.Symbol(name), sympy.Symbol(name2)
        cc = int(c.get("c", 0)) % 3
        form = int(c.get("form", 0)) % 5
        expr = [a > cc, sympy.Eq(a, cc), a + b >= cc + 1, sympy.Ne(a, b) if name != name2 else a < cc + 1, a * 2 + b > cc][form]
        if expr in (sympy.true, sympy.false) or not hasattr(expr, "free_symbols") or not expr.free_symbols:
            return cirq.KeyCondition(cirq.MeasurementKey(name))
        return cirq.SympyCondition(expr)
    return cirq.KeyCondition(cirq.MeasurementKey(name), index=idx)


def _build_ops(ctx: _Ctx, ops, qs, dims, avail, depth):
    """-> (circuit, keys measured inside in program order as (name, nbits))."""
    import cirq

    c = cirq.Circuit()
    n = len(qs)
    inner_keys = []
    empties = sorted(ctx.recipe.get("empties", [])) if depth == 0 else []
    for i, o in enumerate(ops):
        for e in empties:
            if e == i:
                c.append(cirq.Moment())
        if not isinstance(o, dict):
            continue
        kind = o.get("k")
        op = None
        try:
            if kind in ("g", "ch", "cc"):
                g = _build_gate(o, sym_ok=(kind == "g"))
                w = [int(x) % n for x in o.get("w", [])]
                if len(set(w)) != len(w) or len(w) != cirq.num_qubits(g):
                    continue
                if tuple(dims[x] for x in w) != cirq.qid_shape(g):
                    continue
                op = g.on(*[qs[x] for x in w])
                if kind == "g":
                    if len(w) == 0:
                        ctx.stats["zeroq"] += 1
                    if cirq.is_parameterized(op):
                        ctx.stats["sym"] += 1
                elif kind == "ch":
                    ctx.stats["chan"] += 1
                else:
                    conds = [_cond_obj(ctx, cd, avail + inner_keys) for cd in o.get("conds", []) if isinstance(cd, dict)]
                    conds = [x for x in conds if x is not None]
                    if conds:
                        op = op.with_classical_controls(*conds)
                        ctx.stats["cc_bound"] += 1
                    ctx.stats["cc"] += 1
            elif kind == "m":
                w = [int(x) % n for x in o.get("w", [])]
                if len(set(w)) != len(w) or not w:
                    continue
                sig = "".join(str(dims[x]) for x in w)
                name = _key_name(ctx, o, len(w), sig)
                inv = tuple(bool(b) for b in (o.get("inv") or []))[: len(w)]
                cm = _conf_map(o, len(w)) if all(dims[x] == 2 for x in w) else None
                op = cirq.measure(*[qs[x] for x in w], key=name, invert_mask=inv, confusion_map=cm)
                inner_keys.append((name, len(w)))
                ctx.stats["meas"] += 1
                ctx.stats["conf"] += cm is not None
                ctx.stats["inv"] += any(inv)
            elif kind == "sub":
                if depth >= 2:
                    continue
                body, bkeys = _build_ops(ctx, o.get("body", []), qs, dims, avail + inner_keys, depth + 1)
                if not list(body.all_operations()):
                    continue
                reps = 2 if o.get("reps") == 2 else 1
                if reps == 2 and bkeys and not ctx.recipe.get("repkeys"):
                    reps = 1
                kw = {}
                bq = sorted(body.all_qubits())
                qp = o.get("qperm")
                if qp and len(bq) >= 2:
                    # permutation of the body's own qubits (dimension preserving)
                    perm = list(range(len(bq)))
                    for j, x in enumerate(qp):
                        a, b = j % len(bq), int(x) % len(bq)
                        if bq[a].dimension == bq[b].dimension:
                            perm[a], perm[b] = perm[b], perm[a]
                    if perm != list(range(len(bq))) and all(bq[a].dimension == bq[p].dimension for a, p in enumerate(perm)):
                        kw["qubit_map"] = {bq[a]: bq[p] for a, p in enumerate(perm)}
                        ctx.stats["qperm"] += 1
                if o.get("kmap") and bkeys and not ctx.recipe.get("repkeys"):
                    kw["measurement_key_map"] = {nm: nm + "x" for nm, _ in bkeys}
                    bkeys = [(nm + "x", nb) for nm, nb in bkeys]
                    ctx.stats["kmap"] += 1
                op = cirq.CircuitOperation(body.freeze(), repetitions=reps, **kw)
                inner_keys.extend(bkeys * reps)
                ctx.stats["sub"] += 1
                ctx.stats["nested"] += depth >= 1
                ctx.stats["reps2"] += reps == 2
            else:
                continue
        except ZeroDivisionError:  # pragma: no cover
            raise
        tags = _tags(o, SUB_TAGS if kind == "sub" else OP_TAGS)
        if tags:
            op = op.with_tags(*tags)
            ctx.stats["ign"] += IGN in tags
        strat = getattr(cirq.InsertStrategy, GC.INS[int(o.get("ins", 0)) % 4])
        c.append(op, strategy=strat)
    for e in empties:
        if e >= len(ops):
            c.append(cirq.Moment())
    return c, inner_keys


def build(recipe) -> Built:
    qs = GC.qubits_of(recipe)
    ctx = _Ctx(recipe)
    c, keys = _build_ops(ctx, recipe.get("ops", []), qs, list(recipe["dims"]), [], 0)
    return Built(circuit=c, qubits=qs, keys=keys, stats=ctx.stats, n_ops=sum(1 for _ in c.all_operations()))


def resolver_of(recipe):
    import cirq

    return cirq.ParamResolver({k: float(v) for k, v in (recipe.get("res") or {}).items()})


def walk_ops(ops):
    """All op recipes, recursively through sub bodies."""
    for o in ops or []:
        if isinstance(o, dict):
            yield o
            if o.get("k") == "sub":
                yield from walk_ops(o.get("body"))
