"""Additional gate families (C03/C08) not in the shared table ``vf.gen.gates``.

Same recipe format ``[family, params]``; ``build_gate`` / ``gate_recipes`` here know both tables.
Reference matrices: ``vf.ref.gates.REF`` (same family names).
"""
from __future__ import annotations

import math
from typing import Callable, Dict, List

from hypothesis import strategies as st

from . import gates as G
from .gates import Family, exponents, probs, rads, shifts, small_floats

EXTRA: Dict[str, Family] = {}

_PAULI1 = ["X", "Y", "Z"]


def _reg(f: Family):
    EXTRA[f.name] = f


def bool_expr_str(e) -> str:
    k = e[0]
    if k == "v":
        return e[1]
    if k == "~":
        return f"~({bool_expr_str(e[1])})"
    return f"({bool_expr_str(e[1])}) {k} ({bool_expr_str(e[2])})"


def _bool_exprs(names):
    leaf = st.sampled_from(names).map(lambda n: ["v", n])
    return st.recursive(leaf, lambda ch: st.one_of(
        ch.map(lambda a: ["~", a]),
        st.tuples(st.sampled_from(["&", "|", "^"]), ch, ch).map(lambda t: [t[0], t[1], t[2]])), max_leaves=5)


def _bool_vars(e, acc):
    if e[0] == "v":
        acc.add(e[1])
    else:
        for s in e[1:]:
            _bool_vars(s, acc)
    return acc


_Arith = None


def arithmetic_gate(p):
    """ArithmeticGate subclass defined by the harness (documented extension point): registers/with_registers/apply."""
    global _Arith
    import cirq

    if _Arith is None:
        class _A(cirq.ArithmeticGate):
            def __init__(self, target, inp, kind, k):
                self.target, self.inp, self.kind, self.k = target, inp, kind, k

            def registers(self):
                return self.target, self.inp

            def with_registers(self, *new):
                return _A(new[0], new[1], self.kind, self.k)

            def apply(self, t, i):
                if self.kind == "add":
                    return t + i
                if self.kind == "addconst":
                    return t + self.k
                return t * self.k

            def __repr__(self):
                return f"Arith({self.kind},{self.k},{self.target},{self.inp})"

        _Arith = _A
    return _Arith([2] * p["nt"], [2] * p["ni"], p["kind"], p.get("k", 0))


@st.composite
def _asym_dict(draw):
    n = draw(st.integers(1, 2))
    strings = ["".join(t) for t in __import__("itertools").product("IXYZ", repeat=n)]
    ident = "I" * n
    with_ident = draw(st.booleans())
    pool = [s for s in strings if s != ident]
    k = draw(st.integers(1, min(4, len(pool))))
    chosen = list(draw(st.permutations(pool)))[:k]
    w = [draw(st.integers(1, 8)) for _ in chosen]
    if with_ident:
        wi = draw(st.integers(0, 8))
        tot = sum(w) + wi
        pr = {s: x / tot for s, x in zip(chosen, w)}
        pr[ident] = 1.0 - sum(pr.values())  # identity given explicitly: total mass 1
        if pr[ident] < 0:
            pr[ident] = 0.0
    else:
        total = draw(st.sampled_from([1.0, 0.5, 0.1, 0.999999, 0.25]))
        tot = sum(w)
        pr = {s: total * x / tot for s, x in zip(chosen, w)}
    return {"n": n, "probs": pr}


@st.composite
def _boolham(draw):
    n = draw(st.integers(1, 3))
    names = [f"x{i}" for i in range(n)]
    def nonconst(e):
        import itertools
        from vf.ref import gates as RG

        return len({RG.boolean_eval(e, dict(zip(names, bits))) for bits in itertools.product(range(2), repeat=n)}) == 2

    # an expression that sympy folds to a constant is a documented ValueError ("unsupported type"); C03 keeps a few via examples
    exprs = draw(st.lists(_bool_exprs(names).filter(nonconst), min_size=1, max_size=3))
    return {"names": names, "exprs": exprs, "theta": draw(rads())}


@st.composite
def _arith(draw):
    kind = draw(st.sampled_from(["add", "addconst", "mul"]))
    nt = draw(st.integers(1, 3))
    ni = draw(st.integers(1, 2)) if kind == "add" else draw(st.integers(0, 1))
    if kind == "add":
        ni = max(1, ni)
    k = draw(st.integers(0, 9))
    if kind == "mul":
        k = 2 * draw(st.integers(0, 4)) + 1
    return {"nt": nt, "ni": ni, "kind": kind, "k": k}


def _lazy():
    if EXTRA:
        return
    G._lazy()
    import numpy as np
    import cirq
    import cirq_google

    from vf.ref import gates as RG
    from vf.ref import linalg as L

    es = st.fixed_dictionaries
    _reg(Family("XPowD", 1, es({"d": st.integers(3, 5), "e": exponents(), "s": shifts()}),
                lambda p: cirq.XPowGate(exponent=p["e"], global_shift=p["s"], dimension=p["d"]), qudit=True,
                shape_of=lambda p: (p["d"],), tags=frozenset({"eigen"}), weight=3))
    _reg(Family("ZPowD", 1, es({"d": st.integers(3, 5), "e": exponents(), "s": shifts()}),
                lambda p: cirq.ZPowGate(exponent=p["e"], global_shift=p["s"], dimension=p["d"]), qudit=True,
                shape_of=lambda p: (p["d"],), tags=frozenset({"eigen", "diag"}), weight=3))
    _reg(Family("PhasedISwapPowS", 2, es({"p": exponents(), "e": exponents(), "s": shifts()}),
                lambda p: cirq.PhasedISwapPowGate(phase_exponent=p["p"], exponent=p["e"], global_shift=p["s"]), weight=2))
    # IonQ native gates over the whole real parameter line (the docstring matrices are defined for any real theta; the shared
    # rows only draw the hardware range theta in [0, 0.25] / [-0.25, 0.25])
    wide = st.one_of(exponents(), st.integers(-2000, 2000).map(lambda k: k / 1000.0))
    _reg(Family("IonqMSWide", 2, es({"phi0": exponents(), "phi1": exponents(), "theta": wide}),
                lambda p: __import__("cirq_ionq").MSGate(phi0=p["phi0"], phi1=p["phi1"], theta=p["theta"]), weight=2))
    _reg(Family("IonqZZWide", 2, es({"theta": wide}), lambda p: __import__("cirq_ionq").ZZGate(theta=p["theta"])))
    _reg(Family("CPhase", 2, es({"r": rads()}), lambda p: cirq.cphase(p["r"])))
    _reg(Family("Givens", 2, es({"r": rads()}), lambda p: cirq.givens(p["r"])))
    _reg(Family("RISwap", 2, es({"r": rads()}), lambda p: cirq.riswap(p["r"])))
    _reg(Family("FSimRz", 2, es({"theta": rads(), "phi": rads(), "b0": rads(), "b1": rads(), "a0": rads(), "a1": rads()}),
                lambda p: cirq.PhasedFSimGate.from_fsim_rz(p["theta"], p["phi"], (p["b0"], p["b1"]), (p["a0"], p["a1"])), weight=2))
    _reg(Family("IdentityShape", None, es({"shape": st.lists(st.integers(2, 4), min_size=1, max_size=3)}),
                lambda p: cirq.IdentityGate(qid_shape=tuple(p["shape"])), qudit=True,
                arity_of=lambda p: len(p["shape"]), shape_of=lambda p: tuple(p["shape"])))
    _reg(Family("WaitShape", None, es({"shape": st.lists(st.integers(2, 3), min_size=1, max_size=3), "ns": st.integers(0, 1000)}),
                lambda p: cirq.WaitGate(cirq.Duration(nanos=p["ns"]), qid_shape=tuple(p["shape"])), qudit=True,
                arity_of=lambda p: len(p["shape"]), shape_of=lambda p: tuple(p["shape"])))

    def _wait_unit(p):
        import tunits

        return cirq_google.WaitGateWithUnit(p["ns"] * tunits.ns, qid_shape=tuple(p["shape"]))

    _reg(Family("WaitWithUnit", None, es({"shape": st.lists(st.just(2), min_size=1, max_size=2), "ns": st.integers(0, 1000)}),
                _wait_unit, arity_of=lambda p: len(p["shape"]), shape_of=lambda p: tuple(p["shape"])))
    _reg(Family("MutableDensePauli", None, es({"ps": st.lists(st.sampled_from("IXYZ"), min_size=1, max_size=3),
                                                "c": st.sampled_from([0, 1, 2, 3])}),
                lambda p: cirq.MutableDensePauliString("".join(p["ps"]), coefficient=1j ** p["c"]), arity_of=lambda p: len(p["ps"])))
    _reg(Family("TwoQubitClifford", 2, es({"name": st.sampled_from(["CNOT", "CZ", "SWAP", "CXSWAP", "CZSWAP"])}),
                lambda p: getattr(cirq, p["name"]) if p["name"].endswith("SWAP") and p["name"] != "SWAP" else getattr(cirq.CliffordGate, p["name"])))
    _reg(Family("BooleanHamiltonian", None, _boolham(),
                lambda p: cirq.BooleanHamiltonianGate(list(p["names"]), [bool_expr_str(e) for e in p["exprs"]], p["theta"]),
                arity_of=lambda p: len(p["names"]), tags=frozenset({"diag"}), weight=2))
    _reg(Family("Arithmetic", None, _arith(), arithmetic_gate, arity_of=lambda p: p["nt"] + p["ni"],
                tags=frozenset({"classical"}), weight=2))
    single = lambda f: f.unitary and not f.qudit and f.arity == 1 and f.name not in ("Wait",)
    _reg(Family("Parallel", None, st.fixed_dictionaries({"sub": G.gate_recipes(single), "k": st.integers(1, 3)}),
                lambda p: cirq.ParallelGate(G.build_gate(p["sub"]), p["k"]), arity_of=lambda p: p["k"]))
    # channels
    ch = dict(unitary=False, channel=True)
    _reg(Family("ResetD", 1, es({"d": st.integers(2, 5)}), lambda p: cirq.ResetChannel(p["d"]), qudit=True,
                shape_of=lambda p: (p["d"],), **ch))
    _reg(Family("AsymDepolarizeDict", None, _asym_dict(), lambda p: cirq.AsymmetricDepolarizingChannel(error_probabilities=dict(p["probs"])),
                arity_of=lambda p: p["n"], weight=2, **ch))
    _reg(Family("Depolarize3", 3, es({"p": probs(63 / 64)}), lambda p: cirq.depolarize(p["p"], n_qubits=3), **ch))
    _reg(Family("KrausChannel", None, st.tuples(st.integers(1, 2), st.integers(1, 3)).flatmap(
        lambda nk: es({"n": st.just(nk[0]), "k": st.just(nk[1]),
                       "v": st.lists(small_floats(), min_size=2 * (nk[1] * 2 ** nk[0]) ** 2, max_size=2 * (nk[1] * 2 ** nk[0]) ** 2)})),
        lambda p: cirq.KrausChannel(RG.kraus_from_floats(p["v"], p["k"], 2 ** p["n"])), arity_of=lambda p: p["n"], weight=2, **ch))
    _reg(Family("MixedUnitary", None, st.tuples(st.integers(1, 2), st.integers(1, 3)).flatmap(
        lambda nk: es({"n": st.just(nk[0]), "w": st.lists(small_floats(), min_size=nk[1], max_size=nk[1]),
                       "us": st.lists(st.lists(small_floats(), min_size=2 * 4 ** nk[0], max_size=2 * 4 ** nk[0]), min_size=nk[1], max_size=nk[1])})),
        lambda p: cirq.MixedUnitaryChannel(RG.mixture_from_floats(p)), arity_of=lambda p: p["n"], weight=2, **ch))
    _reg(Family("StatePreparation", None, st.integers(1, 3).flatmap(
        lambda n: es({"n": st.just(n), "v": st.lists(small_floats(), min_size=2 * 2 ** n, max_size=2 * 2 ** n)})),
        lambda p: cirq.StatePreparationChannel(L.state_from_floats(p["v"], 2 ** p["n"])), arity_of=lambda p: p["n"], **ch))
    _reg(Family("Measurement", None, es({"shape": st.lists(st.integers(2, 3), min_size=1, max_size=2)}),
                lambda p: cirq.MeasurementGate(qid_shape=tuple(p["shape"]), key="m"), qudit=True,
                arity_of=lambda p: len(p["shape"]), shape_of=lambda p: tuple(p["shape"]), **ch))


def all_families() -> Dict[str, Family]:
    _lazy()
    d = dict(G.FAMILIES)
    d.update(EXTRA)
    return d


def gate_recipes(pred: Callable[[Family], bool], max_arity: int = 3, even: bool = False):
    """Strategy of [family, params] over both tables. ``even``: every family equally likely (ignores weights)."""
    fams = [f for f in all_families().values() if pred(f)]
    names: List[str] = []
    for f in fams:
        names += [f.name] * (1 if even else f.weight)
    table = all_families()
    return st.sampled_from(names).flatmap(lambda n: table[n].params.map(lambda p, n=n: [n, p])).filter(
        lambda r: arity(r) <= max_arity)


def build_gate(recipe):
    name, params = recipe
    return all_families()[name].build(params)


def arity(recipe) -> int:
    name, params = recipe
    f = all_families()[name]
    return f.arity if f.arity is not None else f.arity_of(params)


def qid_shape(recipe):
    name, params = recipe
    f = all_families()[name]
    if f.shape_of is not None:
        return tuple(f.shape_of(params))
    return (2,) * arity(recipe)


def validate(recipe):
    """Raise vf.core.Reject for recipes outside the generated domain (the generic minimiser shortens lists / zeroes numbers)."""
    from vf.core import Reject

    name, p = recipe
    fams = all_families()
    if name not in fams:
        raise Reject("unknown family")
    if not isinstance(p, dict):
        return
    d = p.get("d")
    if isinstance(d, int) and not isinstance(d, bool) and d < 2:
        raise Reject("dimension < 2")
    if isinstance(d, list) and (len(d) != 2 or any(x < 2 for x in d)):
        raise Reject("bad dimension list")
    for key in ("ps", "names", "exprs", "perm", "shape", "angles"):
        if key in p and len(p[key]) == 0:
            raise Reject(f"empty {key}")
    if "perm" in p and sorted(p["perm"]) != list(range(len(p["perm"]))):
        raise Reject("not a permutation")
    if "angles" in p:
        n = len(p["angles"])
        want = {"TwoQubitDiagonal": (4,), "ThreeQubitDiagonal": (8,)}.get(name, (2, 4, 8))
        if n not in want:
            raise Reject("bad number of angles")
    if "shape" in p and any(x < 2 for x in p["shape"]):
        raise Reject("dimension < 2")
    if "n" in p and isinstance(p["n"], int) and p["n"] < 1:
        raise Reject("n < 1")
    if name == "UniformSuperposition" and not (1 <= p["m"] <= 2 ** p["n"]):
        raise Reject("m out of range")
    if "k" in p and name in ("Parallel", "KrausChannel") and p["k"] < 1:
        raise Reject("k < 1")
    if "v" in p:
        need = {"Matrix1": 8, "Matrix2": 32, "Matrix3": 128}.get(name)
        if name == "QuditMatrix":
            need = 2 * p["d"] ** 2
        if name == "QuditMatrix2":
            need = 2 * (p["d"][0] * p["d"][1]) ** 2
        if name == "KrausChannel":
            need = 2 * (p["k"] * 2 ** p["n"]) ** 2
        if name == "StatePreparation":
            need = 2 * 2 ** p["n"]
        if need is not None and len(p["v"]) != need:
            raise Reject("wrong number of floats")
    if name == "MixedUnitary":
        if len(p["w"]) == 0 or len(p["w"]) != len(p["us"]) or any(len(u) != 2 * 4 ** p["n"] for u in p["us"]):
            raise Reject("bad mixture")
    if name == "Parallel":
        validate(p["sub"])
    if name == "BooleanHamiltonian":
        from vf.ref import gates as RG
        import itertools

        for e in p["exprs"]:
            vals = {RG.boolean_eval(e, dict(zip(p["names"], bits))) for bits in itertools.product(range(2), repeat=len(p["names"]))}
            if len(vals) == 1:
                raise Reject("constant boolean expression (documented ValueError)")
    if name == "Arithmetic" and (p["nt"] < 1 or p["ni"] < 0 or (p["kind"] == "mul" and p["k"] % 2 == 0)):
        raise Reject("bad arithmetic recipe")
