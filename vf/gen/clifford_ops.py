"""Generators of Clifford operations (recipes + builders) shared by C13 and C14.

A recipe is ``{"k": kind, "w": [wire, ...], ...params}``; ``build_op(o, qs)`` maps wires (taken modulo ``len(qs)``,
de-duplicated) to qubits.  Every kind is a gate family that *claims* ``cirq.has_stabilizer_effect`` at the drawn
parameters (half-integer exponents of the Pauli powers with arbitrary global shift, integer powers of the two-qubit
gates, Clifford gates, Pauli strings, PhasedXZ / PhasedXPow at Clifford angles, global phases, ...).
"""
from __future__ import annotations

import math

from hypothesis import strategies as st

from vf.gen import gates as G

ONE_Q = ["XP", "YP", "ZP", "HP", "SQC", "PXZ", "PXP", "ROT", "MAT1", "I"]
TWO_Q = ["CZ", "CX", "CY", "SWAP", "ISWAP", "XX", "YY", "ZZ", "CG2", "CGNAMED", "PIG", "CTRL", "FSIM"]
MULTI = ["PS", "DPS", "PSP", "QPERM", "CGN", "GP", "I"]
ARITY = {**{k: 1 for k in ONE_Q}, **{k: 2 for k in TWO_Q}}

SHIFTS = [0.0, 0.0, 0.0, -0.5, 0.5, 0.25, -0.25, 1.0, 0.125, 0.3]


def _shift():
    return st.one_of(st.sampled_from(SHIFTS), st.floats(-1, 1, allow_nan=False).map(lambda x: round(x, 4)))


def _half():
    return st.integers(-8, 8).map(lambda h: h / 2)


def _wires(draw, n, k):
    return list(draw(st.permutations(list(range(n)))))[:k]


@st.composite
def unitary_op(draw, n, kinds=None, max_sub=5):
    """Recipe of one unitary Clifford operation on an ``n``-wire register."""
    pool = []
    for k in ONE_Q:
        pool += [k] * (3 if k in ("XP", "YP", "ZP", "HP", "SQC") else 1)
    if n >= 2:
        for k in TWO_Q:
            pool += [k] * (3 if k in ("CZ", "CX", "SWAP", "CG2") else 1)
    pool += ["PS", "PS", "DPS", "PSP", "QPERM", "GP", "GP", "CGN"]
    if kinds is not None:
        pool = [k for k in pool if k in kinds]
    k = draw(st.sampled_from(pool))
    o = {"k": k}
    if k in ("XP", "YP", "ZP", "XX", "YY", "ZZ"):
        o["e"] = draw(_half())
        o["s"] = draw(_shift())
    elif k in ("HP", "CZ", "CX", "CY", "SWAP", "ISWAP"):
        o["e"] = float(draw(st.integers(-3, 4)))
        o["s"] = draw(_shift())
    elif k == "SQC":
        o["i"] = draw(st.integers(0, 23))
    elif k == "PXZ":
        x = draw(_half())
        o["x"] = x
        o["z"] = draw(_half())
        o["a"] = draw(st.integers(-8, 8)) / (4 if x % 1 == 0 else 2)
    elif k == "PXP":
        e = draw(_half())
        o["e"] = e
        o["p"] = draw(st.integers(-8, 8)) / (4 if e % 1 == 0 else 2)
        o["s"] = draw(_shift())
    elif k == "ROT":
        o["ax"] = draw(st.sampled_from("XYZ"))
        o["q"] = draw(st.integers(-6, 6))  # quarter turns: rads = q*pi/2
    elif k == "MAT1":
        o["word"] = draw(st.text(alphabet="01", max_size=6))
        o["turns"] = draw(st.one_of(st.sampled_from([0.0, 0.125, 0.5, 0.25, -0.25]), st.floats(0, 1).map(lambda x: round(x, 4))))
    elif k == "CG2":
        o["word"] = draw(st.text(alphabet="01234", max_size=10))
    elif k == "CGNAMED":
        o["name"] = draw(st.sampled_from(["CNOT", "CZ", "SWAP", "CXSWAP", "CZSWAP"]))
    elif k == "PIG":
        o["p0"], o["p1"] = draw(st.sampled_from("XYZ")), draw(st.sampled_from("XYZ"))
        o["i0"], o["i1"] = draw(st.booleans()), draw(st.booleans())
        o["e"] = float(draw(st.integers(-2, 3)))
    elif k == "CTRL":
        o["p"] = draw(st.sampled_from("XYZ"))
        o["cv"] = draw(st.integers(0, 1))
    elif k == "FSIM":
        o["t"] = draw(st.integers(-2, 2))  # theta = t*pi/2
        o["f"] = draw(st.integers(-1, 2))  # phi = f*pi
    elif k == "GP":
        o["turns"] = draw(st.one_of(st.sampled_from([0.0, 0.125, 0.5, 0.25, -0.25]), st.floats(0, 1).map(lambda x: round(x, 4))))
        o["w"] = []
        return o
    elif k in ("PS", "DPS", "PSP"):
        m = draw(st.integers(1, min(n, 4)))
        o["w"] = _wires(draw, n, m)
        o["ps"] = "".join(draw(st.lists(st.sampled_from("XYZ" if k != "DPS" else "IXYZ"), min_size=m, max_size=m)))
        o["c"] = draw(st.integers(0, 3)) if k != "PSP" else draw(st.sampled_from([0, 2]))
        if k == "PSP":
            o["neg"], o["pos"] = draw(_half()), draw(_half())
        return o
    elif k == "QPERM":
        m = draw(st.integers(1, min(n, 4)))
        o["w"] = _wires(draw, n, m)
        o["perm"] = list(draw(st.permutations(list(range(m)))))
        return o
    elif k == "CGN":
        m = draw(st.integers(1, min(n, 3)))
        o["w"] = _wires(draw, n, m)
        o["sub"] = draw(st.lists(unitary_op(m, kinds=["XP", "YP", "ZP", "HP", "CZ", "CX", "SWAP", "SQC"]), min_size=0, max_size=max_sub))
        return o
    elif k == "I":
        m = draw(st.integers(1, min(n, 3)))
        o["w"] = _wires(draw, n, m)
        return o
    o["w"] = _wires(draw, n, ARITY[k])
    return o


def _wire_qubits(o, qs, arity=None):
    n = len(qs)
    out = []
    for w in o.get("w", []):
        q = qs[int(w) % n]
        if q not in out:
            out.append(q)
    if arity is not None and len(out) != arity:
        raise ValueError("wrong number of distinct wires")
    return out


def word_ops(word, qs):
    """Operations of a generator word (see vf.ref.clifford_group): one qubit H,S / two qubits H0 H1 S0 S1 CX01."""
    import cirq

    if len(qs) == 1:
        table = [lambda: cirq.H(qs[0]), lambda: cirq.S(qs[0])]
    else:
        table = [lambda: cirq.H(qs[0]), lambda: cirq.H(qs[1]), lambda: cirq.S(qs[0]), lambda: cirq.S(qs[1]),
                 lambda: cirq.CNOT(qs[0], qs[1])]
    return [table[int(ch) % len(table)]() for ch in word]


def build_op(o, qs):
    """cirq operation of a recipe on the register ``qs`` (raises ValueError on malformed, e.g. minimised, recipes)."""
    import cirq
    import numpy as np

    from vf.ref import clifford_group as CG

    k = o["k"]
    P = {"X": cirq.X, "Y": cirq.Y, "Z": cirq.Z, "I": cirq.I}
    if k == "GP":
        return cirq.GlobalPhaseGate(np.exp(2j * np.pi * o["turns"])).on()
    if k in ("XP", "YP", "ZP", "HP"):
        cls = {"XP": cirq.XPowGate, "YP": cirq.YPowGate, "ZP": cirq.ZPowGate, "HP": cirq.HPowGate}[k]
        return cls(exponent=o["e"], global_shift=o["s"]).on(*_wire_qubits(o, qs, 1))
    if k in ("CZ", "CX", "CY", "SWAP", "ISWAP", "XX", "YY", "ZZ"):
        cls = {"CZ": cirq.CZPowGate, "CX": cirq.CXPowGate, "CY": cirq.CYPowGate, "SWAP": cirq.SwapPowGate,
               "ISWAP": cirq.ISwapPowGate, "XX": cirq.XXPowGate, "YY": cirq.YYPowGate, "ZZ": cirq.ZZPowGate}[k]
        return cls(exponent=o["e"], global_shift=o["s"]).on(*_wire_qubits(o, qs, 2))
    if k == "SQC":
        return cirq.SingleQubitCliffordGate.all_single_qubit_cliffords[int(o["i"]) % 24].on(*_wire_qubits(o, qs, 1))
    if k == "PXZ":
        return cirq.PhasedXZGate(x_exponent=o["x"], z_exponent=o["z"], axis_phase_exponent=o["a"]).on(*_wire_qubits(o, qs, 1))
    if k == "PXP":
        return cirq.PhasedXPowGate(phase_exponent=o["p"], exponent=o["e"], global_shift=o["s"]).on(*_wire_qubits(o, qs, 1))
    if k == "ROT":
        f = {"X": cirq.rx, "Y": cirq.ry, "Z": cirq.rz}[o["ax"]]
        return f(o["q"] * math.pi / 2).on(*_wire_qubits(o, qs, 1))
    if k == "MAT1":
        m = CG.word_matrix(o["word"], 1) * np.exp(2j * np.pi * o["turns"])
        return cirq.MatrixGate(m).on(*_wire_qubits(o, qs, 1))
    if k == "MAT2":  # multi-qubit matrix gates: see C13 candidate finding
        m = CG.word_matrix(o["word"], 2)
        return cirq.MatrixGate(m).on(*_wire_qubits(o, qs, 2))
    if k == "CG2":
        a, b = cirq.LineQubit.range(2)
        g = cirq.CliffordGate.from_op_list(word_ops(o["word"], [a, b]), [a, b])
        return g.on(*_wire_qubits(o, qs, 2))
    if k == "CGNAMED":
        g = {"CNOT": cirq.CliffordGate.CNOT, "CZ": cirq.CliffordGate.CZ, "SWAP": cirq.CliffordGate.SWAP,
             "CXSWAP": cirq.CXSWAP, "CZSWAP": cirq.CZSWAP}[o["name"]]
        return g.on(*_wire_qubits(o, qs, 2))
    if k == "PIG":
        return cirq.PauliInteractionGate(P[o["p0"]], bool(o["i0"]), P[o["p1"]], bool(o["i1"]), exponent=o["e"]).on(*_wire_qubits(o, qs, 2))
    if k == "CTRL":
        c, t = _wire_qubits(o, qs, 2)
        return P[o["p"]](t).controlled_by(c, control_values=[int(o["cv"]) % 2])
    if k == "FSIM":
        return cirq.FSimGate(theta=o["t"] * math.pi / 2, phi=o["f"] * math.pi).on(*_wire_qubits(o, qs, 2))
    if k == "I":
        w = _wire_qubits(o, qs)
        return cirq.IdentityGate(len(w)).on(*w)
    if k in ("PS", "DPS", "PSP"):
        w = _wire_qubits(o, qs)
        ps = (o["ps"] + "Z" * len(w))[: len(w)]
        if not w:
            raise ValueError("empty support")
        coeff = 1j ** (int(o["c"]) % 4)
        if k == "DPS":
            return cirq.DensePauliString(ps, coefficient=coeff).on(*w)
        string = cirq.PauliString({q: P[ch] for q, ch in zip(w, ps) if ch != "I"}, coefficient=coeff)
        if k == "PS":
            return string
        return cirq.PauliStringPhasor(string, exponent_neg=o["neg"], exponent_pos=o["pos"])
    if k == "QPERM":
        w = _wire_qubits(o, qs)
        perm = [int(p) for p in o["perm"]]
        if sorted(perm) != list(range(len(w))):
            raise ValueError("not a permutation")
        return cirq.QubitPermutationGate(perm).on(*w)
    if k == "CGN":
        w = _wire_qubits(o, qs)
        loc = cirq.LineQubit.range(len(w))
        sub = [build_op(s, loc) for s in o["sub"]]
        return cirq.CliffordGate.from_op_list(sub, loc).on(*w)
    raise ValueError(f"unknown kind {k}")


def cgn_sub_ops(o, qs):
    """The constituent operations of a CGN recipe placed on the register (reference for the gate's action)."""
    w = _wire_qubits(o, qs)
    return [build_op(s, w) for s in o["sub"]]
