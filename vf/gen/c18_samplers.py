"""Harness samplers / fake processor / program builder for C18.

The harness samplers return digits that are a pure function (``vf.ref.records.fake_digits``) of the program index,
the key, the resolver, the repetition count, the repetition and the instance, and they log every call they receive.
"""
from __future__ import annotations

from collections.abc import Mapping

import numpy as np
import sympy

import cirq
import cirq_google as cg
from vf.ref import records as RR

UNDERLYING = {
    "sweep": "run_sweep", "sweep_async": "run_sweep_async", "validating": "run_sweep", "validating_async": "run_sweep_async",
    "processor": "processor.run_sweep_async", "zeros": None, "sim": None, "dm": None,
}
_DTYPES = [np.uint8, np.int64, np.int8]


class Log:
    def __init__(self, prog_ids):
        self.prog_ids = prog_ids
        self.entries = []

    def prog(self, program):
        if isinstance(program, Mapping):
            program = list(program.values())
        if isinstance(program, (list, tuple)):
            return [self.prog_ids.get(id(p), -1) for p in program]
        return [self.prog_ids.get(id(program), -1)]

    def add(self, entry):
        self.entries.append(entry)

    def take(self):
        out, self.entries = self.entries, []
        return out


def resolvers_of(params):
    return [{str(k): v for k, v in pr.param_dict.items()} for pr in cirq.to_resolvers(params)]


def fmt(entries):
    return "[" + "; ".join(f"{e[0]}(programs={e[1]}, params={e[2]}, repetitions={e[3]})" for e in entries) + "]"


def measurement_shapes(circuit):
    """[(key, instances, qid_shape)] in order of first appearance."""
    order, count, shape = [], {}, {}
    for op in circuit.all_operations():
        key = cirq.measurement_key_name(op, None)
        if key is None:
            continue
        if key not in count:
            order.append(key)
            count[key] = 0
            shape[key] = list(cirq.qid_shape(op))
        count[key] += 1
    return [(k, count[k], shape[k]) for k in order]


def fake_results(log, program, params, repetitions, wrap=None):
    (idx,) = log.prog(program)
    shapes = measurement_shapes(program)
    out = []
    for p in resolvers_of(params):
        recs = RR.fake_records(idx, shapes, p, repetitions)
        arrays = {}
        for key, ninst, radix in shapes:
            dt = _DTYPES[idx % 3]
            arr = np.array(recs[key], dtype=dt).reshape((repetitions, ninst, len(radix))) if repetitions else np.zeros(
                (0, ninst, len(radix)), dtype=dt)
            arrays[key] = arr
        res = cirq.ResultDict(params=cirq.ParamResolver(p), records=arrays)
        out.append(wrap(res) if wrap else res)
    return out


class SweepOnly(cirq.Sampler):
    """Implements only run_sweep."""

    def __init__(self, log):
        self.log = log

    def run_sweep(self, program, params, repetitions=1):
        self.log.add(("run_sweep", self.log.prog(program), resolvers_of(params), repetitions))
        return fake_results(self.log, program, params, repetitions)


class SweepAsyncOnly(cirq.Sampler):
    """Implements only run_sweep_async."""

    def __init__(self, log):
        self.log = log

    async def run_sweep_async(self, program, params, repetitions=1):
        self.log.add(("run_sweep_async", self.log.prog(program), resolvers_of(params), repetitions))
        return fake_results(self.log, program, params, repetitions)


class RunAsyncOnly(cirq.Sampler):
    async def run_async(self, program, param_resolver=None, repetitions=1):  # pragma: no cover
        return None


class Nothing(cirq.Sampler):
    pass


class _FakeJob:
    def __init__(self, results):
        self._results = results

    async def results_async(self):
        return self._results


class FakeProcessor:
    """Duck-typed stand-in for cg.engine.AbstractProcessor: the two methods ProcessorSampler uses."""

    def __init__(self, log):
        self.log = log

    async def run_sweep_async(self, program, params, repetitions=1, run_name="", snapshot_id="", device_config_name="", **kw):
        progs = list(program.values()) if isinstance(program, Mapping) else list(program) if isinstance(program, (list, tuple)) else [program]
        self.log.add(("processor.run_sweep_async", self.log.prog(program), resolvers_of(params), repetitions))
        out = []
        for p in progs:  # engine order: grouped by program, then by sweep point
            out += fake_results(self.log, p, params, repetitions, wrap=lambda r: cg.EngineResult.from_result(r, job_id="fake-job"))
        return _FakeJob(out)


def make_sampler(kind, log, jobs_per_batch=1):
    """-> (sampler under test, harness object that logs or None)."""
    if kind == "sweep":
        s = SweepOnly(log)
        return s, s
    if kind == "sweep_async":
        s = SweepAsyncOnly(log)
        return s, s
    if kind == "zeros":
        return cirq.ZerosSampler(), None
    if kind == "sim":
        return cirq.Simulator(seed=1), None
    if kind == "dm":
        return cirq.DensityMatrixSimulator(seed=1), None
    if kind in ("validating", "validating_async"):
        inner = SweepOnly(log) if kind == "validating" else SweepAsyncOnly(log)

        def validator(circuits, sweeps, repetitions):
            reps = repetitions if isinstance(repetitions, int) else list(repetitions)
            log.add(("validate", log.prog(list(circuits)), [resolvers_of(s) for s in sweeps], reps))

        return cg.ValidatingSampler(device=None, validator=validator, sampler=inner), inner
    if kind == "processor":
        proc = FakeProcessor(log)
        return cg.ProcessorSampler(processor=proc, jobs_per_batch=max(1, jobs_per_batch)), proc
    raise KeyError(kind)


# ------------------------------------------------------------------------------------------ deterministic programs


class PlusGate(cirq.Gate):
    """|x> -> |x + k mod d> on one qudit; k may be a symbol."""

    def __init__(self, dim, k):
        self.dim = dim
        self.k = k

    def _qid_shape_(self):
        return (self.dim,)

    def _is_parameterized_(self):
        return cirq.is_parameterized(self.k)

    def _parameter_names_(self):
        return cirq.parameter_names(self.k)

    def _resolve_parameters_(self, resolver, recursive):
        return PlusGate(self.dim, resolver.value_of(self.k, recursive))

    def _unitary_(self):
        if cirq.is_parameterized(self.k):
            return NotImplemented
        k = int(round(float(self.k)))
        u = np.zeros((self.dim, self.dim), dtype=np.complex128)
        for x in range(self.dim):
            u[(x + k) % self.dim, x] = 1
        return u

    def __repr__(self):
        return f"PlusGate({self.dim}, {self.k!r})"


def build_circuit(keys, steps, syms):
    wires = []
    for ki, k in enumerate(keys):
        if all(d == 2 for d in k["radix"]):
            wires.append([cirq.LineQubit(100 * ki + j) for j in range(len(k["radix"]))])
        else:
            wires.append([cirq.LineQid(100 * ki + j, dimension=d) for j, d in enumerate(k["radix"])])
    ops = []
    for s in steps:
        k = int(s[1])
        if s[0] == "m":
            ops.append(cirq.measure(*wires[k], key=keys[k]["name"]))
        else:
            q = wires[k][int(s[2]) % len(wires[k])]
            amt = sympy.Symbol(s[3]) if isinstance(s[3], str) else int(s[3])
            if q.dimension == 2:
                ops.append(cirq.X(q) ** amt)
            else:
                ops.append(PlusGate(q.dimension, amt).on(q))
    return cirq.Circuit(ops)
