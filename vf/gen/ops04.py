"""C04 helpers: operation recipes with wrapper stacks, and an independent reference of the wrapped effect.

An *op recipe* is JSON-able::

    {"g": [family, params],            # base gate (vf.gen.gates table + the local families below)
     "qk": "line"|"grid"|"named"|"mixed",
     "pos": [3, 0, 5],                 # distinct positions of the base qubits (names / adjacency / sort order)
     "w": [wrapper, ...]}              # applied in order

Wrappers::

    {"k": "tag"}
    {"k": "perm", "p": [ints]}                         op.with_qubits(permutation of op.qubits, same-dimension slots)
    {"k": "ctrl", "d": [2, 3], "v": ..., "sop": bool, "via": "by"|"CO"|"gc"|"CG"}
    {"k": "inv"}                                       cirq.inverse(op)
    {"k": "pow", "t": number}                          op ** t
    {"k": "par", "n": 2|3}                             cirq.ParallelGate(gate, n)   (first wrapper, 1-qubit gates)
    {"k": "circ", "r": reps, "x": 0..3}                cirq.CircuitOperation(FrozenCircuit(...), repetitions=r)

``build(recipe)`` returns a ``Built`` with the Cirq operation *and* a reference description of what the stack means
(``Ref``: qubit list + mixture and/or Kraus list) that is computed with plain numpy from the base gate's matrices
(cirq.unitary / cirq.mixture / cirq.kraus of the *bare gate*, which C03 compares with the documented closed forms) by
the textbook meaning of every wrapper: block matrix over the control values, dagger, integer matrix power, tensor
power, ordered product.  No Cirq code is used for the wrapper semantics.
"""
from __future__ import annotations

import itertools
import math
from typing import List, Optional, Sequence

import numpy as np
from hypothesis import strategies as st

from vf.gen import gates as G
from vf.ref import linalg as L

KINDS = ["line", "line", "grid", "named", "mixed"]
POOL = 9  # qubit positions 0..8
MAX_DIM = 64  # largest register dimension a wrapper stack may reach

# channel families of vf.gen.gates that are probabilistic mixtures of unitaries (documented per class)
# tableau-defined gates: powers/inverses are only defined up to global phase (a tableau carries none)
PHASELESS_POW = {"SingleQubitClifford", "CliffordN"}

MIXTURE_CHANNELS = {"Depolarize", "Depolarize2", "AsymDepolarize", "BitFlip", "PhaseFlip", "RandomGate",
                    "MixedUnitary"}

_H = np.array([[1, 1], [1, -1]], dtype=complex) / math.sqrt(2)
_T = np.diag([1, np.exp(1j * math.pi / 4)])
_S = np.diag([1, 1j])
_CX = np.array([[1, 0, 0, 0], [0, 1, 0, 0], [0, 0, 0, 1], [0, 0, 1, 0]], dtype=complex)


# --------------------------------------------------------------------------------------- local families


def _local_families():
    """Families only C04 needs (kept here: the shared table must not be edited)."""
    import cirq

    G._lazy()
    if "KrausCh" in G.FAMILIES:
        return
    ch = dict(unitary=False, channel=True)

    def kraus_ch(p):
        # amplitude-damping-like 1-qubit channel conjugated by a drawn unitary: K_i = V A_i
        g = min(max(abs(p["g"]), 0.0), 1.0)
        v = L.random_unitary_from_floats(p["v"], 2)
        a0 = np.array([[1, 0], [0, math.sqrt(1 - g)]], dtype=complex)
        a1 = np.array([[0, math.sqrt(g)], [0, 0]], dtype=complex)
        return cirq.KrausChannel([v @ a0, v @ a1])

    def mixed_unitary(p):
        us = [L.random_unitary_from_floats(p["v"][8 * i: 8 * i + 8], 2) for i in range(3)]
        w = [abs(x) + 0.05 for x in p["w"]]
        s = sum(w)
        return cirq.MixedUnitaryChannel([(wi / s, u) for wi, u in zip(w, us)])

    G._reg(G.Family("KrausCh", 1, st.fixed_dictionaries({"g": G.probs(1.0), "v": st.lists(G.small_floats(), min_size=8, max_size=8)}),
                    kraus_ch, **ch))
    G._reg(G.Family("MixedUnitary", 1, st.fixed_dictionaries({"w": st.lists(G.small_floats(), min_size=3, max_size=3),
                                                               "v": st.lists(G.small_floats(), min_size=24, max_size=24)}),
                    mixed_unitary, **ch))
    G._reg(G.Family("QuditReset", 1, st.fixed_dictionaries({"d": st.integers(3, 4)}), lambda p: cirq.ResetChannel(dimension=p["d"]),
                    qudit=True, shape_of=lambda p: (p["d"],), **ch))
    G._reg(G.Family("XPowQudit", 1, st.fixed_dictionaries({"d": st.integers(3, 4), "e": st.sampled_from([1, 2, 3, -1, 0.5, 0.25, 1.5])}),
                    lambda p: cirq.XPowGate(exponent=p["e"], dimension=p["d"]), qudit=True, shape_of=lambda p: (p["d"],)))
    G._reg(G.Family("ZPowQudit", 1, st.fixed_dictionaries({"d": st.integers(3, 4), "e": st.sampled_from([1, 2, 3, -1, 0.5, 0.25, 1.5])}),
                    lambda p: cirq.ZPowGate(exponent=p["e"], dimension=p["d"]), qudit=True, shape_of=lambda p: (p["d"],)))


    G._reg(G.Family("PauliSingleton", 1, st.fixed_dictionaries({"p": st.sampled_from("XYZ")}), lambda p: getattr(cirq, p["p"]),
                    tags=frozenset({"fastpath", "pauli"})))
    G._reg(G.Family("StatePrep", None, st.integers(1, 2).flatmap(lambda n: st.fixed_dictionaries(
        {"n": st.just(n), "v": st.lists(G.small_floats(), min_size=2 * 2 ** n, max_size=2 * 2 ** n)})),
        lambda p: cirq.StatePreparationChannel(L.state_from_floats(p["v"], 2 ** p["n"])), arity_of=lambda p: p["n"], **ch))
    G._reg(G.Family("BooleanHamiltonian", None, st.fixed_dictionaries({"i": st.integers(0, len(_BOOL_EXPRS) - 1), "theta": G.rads()}),
                    lambda p: cirq.BooleanHamiltonianGate(list(_BOOL_EXPRS[p["i"] % len(_BOOL_EXPRS)][0]),
                                                          list(_BOOL_EXPRS[p["i"] % len(_BOOL_EXPRS)][1]), p["theta"]),
                    arity_of=lambda p: len(_BOOL_EXPRS[p["i"] % len(_BOOL_EXPRS)][0]), tags=frozenset({"diag"})))


    def clifford_n(p):
        kind = p.get("kind", "ops")
        if kind in ("CNOT", "CZ", "SWAP"):
            return getattr(cirq.CliffordGate, kind)
        n = 3 if int(p.get("n", 2)) >= 3 else 2
        qs = cirq.LineQubit.range(n)
        ops = []
        for c in list(p.get("ops", []))[:4]:
            c = int(c)
            g, a, b_ = c % 6, (c // 6) % n, (c // 36) % n
            if b_ == a:
                b_ = (a + 1) % n
            ops.append([cirq.H(qs[a]), cirq.S(qs[a]), cirq.CNOT(qs[a], qs[b_]), cirq.CZ(qs[a], qs[b_]),
                        cirq.X(qs[a]), cirq.SWAP(qs[a], qs[b_])][g])
        if not ops:
            ops = [cirq.CNOT(qs[0], qs[1])]
        return cirq.CliffordGate.from_op_list(ops, qs)

    # multi-qubit tableau-backed gates: their own _act_on_ pads the tableau onto the state's axes
    G._reg(G.Family("CliffordN", None, st.one_of(
        st.fixed_dictionaries({"kind": st.sampled_from(["CNOT", "CNOT", "CZ", "SWAP"]), "n": st.just(2)}),
        st.fixed_dictionaries({"kind": st.just("ops"), "n": st.integers(2, 3),
                               "ops": st.lists(st.integers(0, 323), min_size=2, max_size=3)})),
        clifford_n, arity_of=lambda p: 2 if p.get("kind", "ops") != "ops" else (3 if int(p.get("n", 2)) >= 3 else 2),
        weight=2))
    G._reg(G.Family("AncillaCZPow", 2, st.fixed_dictionaries({"e": G.exponents()}), lambda p: AncillaCZPow(p["e"])))


_AncillaCZPow = None


def AncillaCZPow(e):
    """Harness-defined gate (documented extension point `_decompose_with_context_` + qubit manager): CZ**e between its two
    qubits, implemented through a clean ancilla: CNOT(c, a); CZ**e(a, t); CNOT(c, a).  Exercises the ancilla branches of
    unitary / apply_unitary / act_on.  ``vf_reference`` is the textbook matrix (not read from Cirq)."""
    global _AncillaCZPow
    if _AncillaCZPow is None:
        import cirq

        class _G(cirq.Gate):
            def __init__(self, e):
                self.e = e
                self.vf_reference = np.diag([1, 1, 1, np.exp(1j * np.pi * e)])

            def _num_qubits_(self):
                return 2

            def _decompose_with_context_(self, qubits, context):
                c, t = qubits
                (a,) = context.qubit_manager.qalloc(1)
                yield cirq.CNOT(c, a)
                yield (cirq.CZ ** self.e).on(a, t)
                yield cirq.CNOT(c, a)
                context.qubit_manager.qfree([a])

            def _value_equality_values_(self):
                return self.e

            def __eq__(self, o):
                return isinstance(o, _G) and o.e == self.e

            def __hash__(self):
                return hash(("AncillaCZPow", self.e))

            def __repr__(self):
                return f"AncillaCZPow({self.e})"

        _AncillaCZPow = _G
    return _AncillaCZPow(e)


_BOOL_EXPRS = [(("x0",), ("x0",)), (("x0", "x1"), ("x0 ^ x1",)), (("x0", "x1"), ("x0 & x1",)), (("x1", "x0"), ("x0 | x1",)),
               (("x0", "x1", "x2"), ("(x0 | x1) & x2",)), (("x0", "x1", "x2"), ("x0 ^ x2", "x1 & x2")),
               (("x2", "x0", "x1"), ("x0 & x1 & x2",))]


def families(pred):
    _local_families()
    return G.families(pred)


# --------------------------------------------------------------------------------------- qubits


def mkq(kind: str, k: int, d: int):
    import cirq

    if kind == "mixed":
        kind = ["line", "grid", "named"][k % 3]
    if kind == "line":
        return cirq.LineQubit(k) if d == 2 else cirq.LineQid(k, dimension=d)
    if kind == "grid":
        return cirq.GridQubit(k // 3, k % 3) if d == 2 else cirq.GridQid(k // 3, k % 3, dimension=d)
    return cirq.NamedQubit(f"q{k}") if d == 2 else cirq.NamedQid(f"q{k}", dimension=d)


# --------------------------------------------------------------------------------------- reference


class Ref:
    """What the (wrapped) operation means: ``mix`` = [(p, U)] if it is a mixture of unitaries, ``kraus`` always.

    Matrices are big-endian over ``qubits`` (a list of cirq qubits; the order is the reference's own)."""

    def __init__(self, qubits, mix, kraus):
        self.qubits = list(qubits)
        self.mix = None if mix is None else [(float(p), np.asarray(u, dtype=complex)) for p, u in mix]
        self.kraus = [np.asarray(k, dtype=complex) for k in kraus]
        self.restarted = False  # True after a fractional power (reference re-read from cirq.unitary)

    @property
    def shape(self):
        return tuple(q.dimension for q in self.qubits)

    @property
    def dim(self):
        return L.dim(self.shape)

    @property
    def is_unitary(self):
        return self.mix is not None and len(self.mix) == 1 and abs(self.mix[0][0] - 1) < 1e-12

    @property
    def unitary(self):
        assert self.is_unitary
        return self.mix[0][1]

    @staticmethod
    def of_unitary(qubits, u):
        return Ref(qubits, [(1.0, u)], [u])

    @staticmethod
    def of_mixture(qubits, mix):
        return Ref(qubits, mix, [math.sqrt(max(p, 0.0)) * np.asarray(u, dtype=complex) for p, u in mix])

    def map_each(self, f):
        """New Ref (same qubits) with f applied to every unitary / Kraus operator (f must be 'scalar-homogeneous')."""
        if self.mix is not None:
            return Ref.of_mixture(self.qubits, [(p, f(u)) for p, u in self.mix])
        return Ref(self.qubits, None, [f(k) for k in self.kraus])

    def superop(self, qubits=None):
        """Superoperator (row-major vec) over ``qubits`` (default: own order; must be a superset ordering)."""
        ks = self.kraus_on(qubits) if qubits is not None else self.kraus
        return L.kraus_to_superop(ks)

    def kraus_on(self, qubits):
        qubits = list(qubits)
        assert set(qubits) == set(self.qubits), (qubits, self.qubits)
        axes = [qubits.index(q) for q in self.qubits]
        shape = [q.dimension for q in qubits]
        return [L.embed(k, axes, shape) for k in self.kraus]

    def mix_on(self, qubits):
        qubits = list(qubits)
        axes = [qubits.index(q) for q in self.qubits]
        shape = [q.dimension for q in qubits]
        return [(p, L.embed(u, axes, shape)) for p, u in self.mix]


def control_block(u: np.ndarray, cdims: Sequence[int], active: set, scale: float = 1.0) -> np.ndarray:
    """sum_{v in active}|v><v| (x) u  +  sum_{v not in active}|v><v| (x) scale*I   (controls first, big-endian)."""
    d = u.shape[0]
    c = L.dim(cdims)
    out = np.zeros((c * d, c * d), dtype=complex)
    for ci in range(c):
        v = tuple(L.index_to_digits(ci, list(cdims)))
        out[ci * d:(ci + 1) * d, ci * d:(ci + 1) * d] = u if v in active else scale * np.eye(d)
    return out


def compose(first: Ref, then: Ref) -> Ref:
    """Channel 'first' followed by 'then' (same qubit list)."""
    assert first.qubits == then.qubits
    if first.mix is not None and then.mix is not None:
        return Ref.of_mixture(first.qubits, [(p1 * p2, u2 @ u1) for p1, u1 in first.mix for p2, u2 in then.mix])
    return Ref(first.qubits, None, [k2 @ k1 for k1 in first.kraus for k2 in then.kraus])


def tensor(a: Ref, b: Ref) -> Ref:
    if a.mix is not None and b.mix is not None:
        return Ref.of_mixture(a.qubits + b.qubits, [(p1 * p2, np.kron(u1, u2)) for p1, u1 in a.mix for p2, u2 in b.mix])
    return Ref(a.qubits + b.qubits, None, [np.kron(k1, k2) for k1 in a.kraus for k2 in b.kraus])


# --------------------------------------------------------------------------------------- build


class Built:
    def __init__(self):
        self.op = None
        self.ref: Optional[Ref] = None
        self.family = ""
        self.applied: List[str] = []  # wrapper kinds really applied
        self.skipped: List[str] = []  # "kind:reason"
        self.base_gate = None
        self.ctrl_total = 0
        self.ctrl_feats = set()  # what kinds of control values the stack really contains (labels)
        self.circ_noninv = False  # a CircuitOperation whose body has no inverse is somewhere in the stack


def _is_int(t):
    return abs(t - round(t)) < 1e-12


def _fresh(used_pos, n, start=0):
    free = [p for p in range(POOL) if p not in used_pos]
    out = []
    for i in range(n):
        if not free:
            return None
        p = free[(start + i) % len(free)]
        free.remove(p)
        out.append(p)
    return out


def _perm_same_dim(qs, p):
    n = len(qs)
    new = list(qs)
    p = [int(x) for x in p] if p else []
    for d in sorted({q.dimension for q in qs}):
        slots = [i for i in range(n) if qs[i].dimension == d]
        key = [(p[i % len(p)] if p else 0) for i in slots]
        ranks = sorted(range(len(slots)), key=lambda j: (key[j], j))
        for j, r in enumerate(ranks):
            new[slots[j]] = qs[slots[r]]
    return new


def _is_progression(levels):
    levels = sorted(levels)
    return len(levels) < 3 or len({b_ - a for a, b_ in zip(levels, levels[1:])}) == 1


def _control_values(w, dims, feats=None):
    """-> (cirq control values object, set of active tuples).  ``feats`` (a set) receives labels of what was built."""
    import cirq

    feats = set() if feats is None else feats
    n = len(dims)
    v = w.get("v") or []
    raw = bool(w.get("raw"))
    if any(d >= 4 for d in dims):
        feats.add("dim4plus")
    if w.get("sop"):
        terms = []
        for t in v:
            t = list(t) if isinstance(t, (list, tuple)) else [t]
            terms.append(tuple(int(t[i % len(t)]) % dims[i] if t else 0 for i in range(n)))
        if not terms:
            terms = [tuple(1 % d for d in dims)]
        feats.add("sop")
        if len(set(terms)) >= 3:
            feats.add("sop_3plus_terms")
        if raw:  # the constructor documents a Collection: duplicates and any order are accepted
            terms = terms[::-1] + terms[:1]
            feats.add("raw_unsorted")
        return cirq.SumOfProducts(terms), set(terms)
    sums = []
    given = []
    for i in range(n):
        vi = v[i % len(v)] if v else [1]
        vi = vi if isinstance(vi, (list, tuple)) else [vi]
        lv = [int(x) % dims[i] for x in vi] or [1 % dims[i]]
        s = sorted(set(lv))
        sums.append(s)
        given.append((lv[::-1] + lv[:1]) if raw else s)
        if dims[i] >= 4 and not _is_progression(s):
            feats.add("uneven_levels")
        if len(s) == dims[i] and dims[i] > 2:
            feats.add("full_levels")
        if len(s) >= 3:
            feats.add("levels_3plus")
    active = set(itertools.product(*sums))
    if raw:
        feats.add("raw_unsorted")
    if w.get("b") and all(d == 2 for d in dims):
        # python bools are ints; the library itself passes control_values=[False] (UniformSuperpositionGate)
        given = [bool(s[0]) if len(s) == 1 else [bool(x) for x in s] for s in sums]
        return cirq.ProductOfSums(given), active
    return cirq.ProductOfSums(given), active


def build(recipe) -> Built:
    import cirq

    _local_families()
    b = Built()
    g = recipe["g"]
    fam = G.FAMILIES[g[0]]
    gate = G.build_gate(g)
    shape = G.qid_shape(g)
    kind = recipe.get("qk", "line")
    pos = [int(x) % POOL for x in recipe.get("pos", [])]
    used = []
    for i in range(len(shape)):
        p = pos[i] if i < len(pos) else 0
        while p in used:
            p = (p + 1) % POOL
        used.append(p)
    qs = [mkq(kind, p, d) for p, d in zip(used, shape)]
    b.family = fam.name
    b.base_gate = gate
    # --- base reference: the bare gate's matrices (C03 territory) laid over the given qubits
    if fam.unitary:
        known = getattr(gate, "vf_reference", None)
        ref = Ref.of_unitary(qs, cirq.unitary(gate) if known is None else known)
    elif fam.name in MIXTURE_CHANNELS:
        ref = Ref.of_mixture(qs, cirq.mixture(gate))
    else:
        ref = Ref(qs, None, cirq.kraus(gate))
    op = gate.on(*qs)
    wrappers = [w for w in recipe.get("w", []) if isinstance(w, dict)]
    for wi, w in enumerate(wrappers):
        k = w.get("k")
        if k == "tag":
            op = op.with_tags("vf_tag") if not w.get("two") else op.with_tags("vf_a").with_tags("vf_b")
            b.applied.append("tag")
        elif k == "perm":
            new = _perm_same_dim(list(op.qubits), w.get("p") or [])
            if list(new) == list(op.qubits):
                b.skipped.append("perm:identity")
                continue
            m = dict(zip(op.qubits, new))
            op = op.with_qubits(*new)
            if tuple(op.qubits) != tuple(new):
                raise WrapperContract(f"with_qubits({new}) returned an operation on {op.qubits}")
            ref.qubits = [m.get(q, q) for q in ref.qubits]
            b.applied.append("perm")
        elif k == "ctrl":
            dims = [int(d) if int(d) in (2, 3, 4, 5, 6) else 2 for d in (w.get("d") or [2])][:2]
            if ref.mix is None:
                b.skipped.append("ctrl:no_mixture")
                continue
            if ref.dim * L.dim(dims) > MAX_DIM:
                b.skipped.append("ctrl:too_big")
                continue
            cp = _fresh(used, len(dims), int(w.get("at", 0)))
            if cp is None:
                b.skipped.append("ctrl:no_room")
                continue
            used += cp
            cq = [mkq(kind, p, d) for p, d in zip(cp, dims)]
            feats = set()
            cv, active = _control_values(w, dims, feats)
            via = w.get("via", "by")
            if via in ("gc", "CG") and op.gate is None:
                via = "by"
            if via == "by":
                op = op.controlled_by(*cq, control_values=cv)
            elif via == "CO":
                op = cirq.ControlledOperation(cq, op, cv)
            elif via == "gc":
                op = op.gate.controlled(num_controls=len(dims), control_values=cv, control_qid_shape=tuple(dims)).on(*cq, *op.qubits)
            else:
                op = cirq.ControlledGate(op.gate, num_controls=len(dims), control_values=cv,
                                         control_qid_shape=tuple(dims)).on(*cq, *op.qubits)
            ref = Ref.of_mixture(cq + ref.qubits, [(p, control_block(u, dims, active)) for p, u in ref.mix])
            b.applied.append("ctrl")
            b.ctrl_total += len(dims)
            b.ctrl_feats |= feats
            b.ctrl_feats.add("via_" + via)
        elif k == "inv":
            if not ref.is_unitary:
                b.skipped.append("inv:not_unitary")
                continue
            if b.circ_noninv:
                # known from the recipe: the stack contains a CircuitOperation whose body has no inverse.  CircuitOperation
                # documents ValueError for negative repetitions of such a circuit: that type (any message) or the default.
                try:
                    new = cirq.inverse(op, None)
                except ValueError:
                    new = None
            else:
                new = cirq.inverse(op, None)
            if new is None:
                b.skipped.append("inv:none")
                continue
            want = ref.unitary.conj().T
            if fam.name in PHASELESS_POW:
                ref = _restart(b, ref, new, want)
                if ref is None:
                    continue
            else:
                ref = Ref.of_unitary(ref.qubits, want)
            op = new
            b.applied.append("inv")
        elif k == "pow":
            t = w.get("t", 1)
            t = int(round(t)) if _is_int(t) else float(t)
            if not ref.is_unitary:
                b.skipped.append("pow:not_unitary")
                continue
            if not isinstance(t, int) and "circ" in b.applied:
                # CircuitOperation.repeat: non-integer repetitions are documented TypeError/ValueError territory
                b.skipped.append("pow:typeerror")
                continue
            if b.circ_noninv and isinstance(t, int) and t < 0:
                try:  # same documented ValueError as for cirq.inverse above (decided from the recipe, any message)
                    new = cirq.pow(op, t, None)
                except ValueError:
                    b.skipped.append("pow:not_invertible")
                    continue
            else:
                new = cirq.pow(op, t, None)
            if new is None:
                b.skipped.append("pow:none")
                continue
            if isinstance(t, int) and fam.name in PHASELESS_POW:
                ref = _restart(b, ref, new, np.linalg.matrix_power(ref.unitary, t))
                if ref is None:
                    continue
                b.applied.append("pow_int")
            elif isinstance(t, int):
                ref = Ref.of_unitary(ref.qubits, np.linalg.matrix_power(ref.unitary, t))
                b.applied.append("pow_int")
            else:
                u = cirq.unitary(new, None)
                if u is None:
                    b.skipped.append("pow:frac_no_unitary")
                    continue
                axes = [ref.qubits.index(q) for q in new.qubits]
                r2 = Ref.of_unitary(ref.qubits, L.embed(u, axes, ref.shape))
                r2.restarted = True
                ref = r2
                b.applied.append("pow_frac")
            op = new
        elif k == "par":
            n = 3 if int(w.get("n", 2)) >= 3 else 2
            if b.applied or op.gate is None or len(op.qubits) != 1 or op.qubits[0].dimension != 2 \
                    or cirq.num_qubits(op.gate) != 1:
                b.skipped.append("par:not_applicable")
                continue
            if len(ref.kraus) ** n > 128:
                b.skipped.append("par:too_many_kraus")
                continue
            fp = _fresh(used, n - 1, int(w.get("at", 0)))
            if fp is None:
                b.skipped.append("par:no_room")
                continue
            used += fp
            fq = [mkq(kind, p, 2) for p in fp]
            allq = [op.qubits[0]] + fq
            pg = cirq.ParallelGate(op.gate, n)
            op = pg.on(*allq) if not w.get("fn") else cirq.parallel_gate_op(op.gate, *allq)
            one = ref
            for q in fq:
                cp = Ref(list([q]), one.mix, one.kraus)
                ref = tensor(ref, cp)
            b.applied.append("par")
        elif k == "circ":
            reps = int(w.get("r", 1)) or 1
            if not ref.is_unitary:
                reps = min(abs(reps), 2)
                if len(ref.kraus) ** reps > 128:
                    reps = 1
            x = int(w.get("x", 0)) % 4
            inner = ref
            ops = [op]
            oq = list(op.qubits)
            if x and oq and all(q.dimension == 2 for q in oq):
                if x == 1:
                    e_ref = Ref.of_unitary(ref.qubits, L.embed(_H, [ref.qubits.index(oq[0])], ref.shape))
                    ops = [cirq.H(oq[0]), op]
                    inner = compose(e_ref, ref)
                elif x == 2:
                    e_ref = Ref.of_unitary(ref.qubits, L.embed(_T, [ref.qubits.index(oq[-1])], ref.shape))
                    ops = [op, cirq.T(oq[-1])]
                    inner = compose(ref, e_ref)
                elif x == 3 and len(oq) >= 2:
                    e_ref = Ref.of_unitary(ref.qubits, L.embed(_CX, [ref.qubits.index(oq[1]), ref.qubits.index(oq[0])], ref.shape))
                    ops = [op, cirq.CNOT(oq[1], oq[0])]
                    inner = compose(ref, e_ref)
            fc = cirq.FrozenCircuit(*ops)
            # Is the body invertible?  Decided without provoking the error: per operation, cirq.inverse(op, default) returns
            # the default for an operation without an inverse (the same per-operation question Moment.__pow__ asks); a
            # nested CircuitOperation with a non-invertible body is remembered in b.circ_noninv.  The extra H/T/CNOT are.
            body_invertible = _can_invert(b, op)
            if reps < 0 and not body_invertible:
                # documented ValueError of CircuitOperation ("Negative repetitions on non-invertible circuit"): not requested
                b.skipped.append("circ:not_invertible")
                reps = -reps
            if w.get("ids"):
                new = cirq.CircuitOperation(fc, repetitions=reps, use_repetition_ids=True)
            elif w.get("rp") and reps != 1:
                new = cirq.CircuitOperation(fc).repeat(reps)
            else:
                new = cirq.CircuitOperation(fc, repetitions=reps)
            if inner.is_unitary and reps < 0 and fam.name in PHASELESS_POW:
                r2 = _restart(b, inner, new, np.linalg.matrix_power(inner.unitary, reps))
                if r2 is None:
                    continue
                ref = r2
            elif inner.is_unitary:
                ref = Ref.of_unitary(inner.qubits, np.linalg.matrix_power(inner.unitary, reps))
            else:
                acc = inner
                for _ in range(reps - 1):
                    acc = compose(acc, inner)
                ref = acc
            op = new
            b.applied.append("circ")
            if not body_invertible:
                b.circ_noninv = True
        else:
            b.skipped.append(f"{k}:unknown")
    b.op = op
    b.ref = ref
    return b


def _can_invert(b, op) -> bool:
    import cirq

    if b.circ_noninv:
        return False
    return cirq.inverse(op, None) is not None


def _restart(b, ref, new_op, want):
    """Reference re-read from cirq.unitary(new_op) for phase-less gate powers; checked up to global phase when no control
    has turned that phase into a relative one."""
    import cirq

    u = cirq.unitary(new_op, None)
    if u is None:
        b.skipped.append("pow:no_unitary")
        return None
    full = L.embed(u, [ref.qubits.index(q) for q in new_op.qubits], ref.shape)
    if not b.ctrl_total:
        e = L.diff_up_to_phase(full, want)
        if e > 1e-7:
            raise WrapperContract(f"power/inverse of a tableau gate differs from the matrix power even up to global phase ({e:.3g})")
    r2 = Ref.of_unitary(ref.qubits, full)
    r2.restarted = True
    return r2


class WrapperContract(Exception):
    """A wrapper constructor broke its own documented contract (reported as a violation by the oracle)."""


# --------------------------------------------------------------------------------------- strategies


def _levels_from_mask(args):
    """(dims, masks) -> per control the list of levels whose bit is set in the mask (arbitrary non-empty subset)."""
    ds, masks = args
    out = []
    for d, m in zip(ds, masks):
        lv = [i for i in range(d) if (int(m) >> i) & 1]
        out.append(lv or [int(m) % d])
    return out


def _ctrl_wrapper():
    dims = st.lists(st.sampled_from([2, 2, 2, 3, 3, 4, 5]), min_size=1, max_size=2)
    # control qudits with room for unevenly spaced level sets (mostly one control, so that the register stays small)
    big = st.one_of(st.lists(st.sampled_from([4, 5, 5, 6]), min_size=1, max_size=1),
                    st.lists(st.sampled_from([4, 5, 5, 6]), min_size=1, max_size=1),
                    st.lists(st.sampled_from([4, 5, 2, 3]), min_size=2, max_size=2))
    at = st.integers(0, 5)
    raw = st.sampled_from([False, False, True])

    def mk(ds):
        pos = st.lists(st.lists(st.integers(0, 5), min_size=1, max_size=4), min_size=len(ds), max_size=len(ds))
        sop = st.lists(st.lists(st.integers(0, 5), min_size=len(ds), max_size=len(ds)), min_size=1, max_size=4)
        return st.one_of(
            st.fixed_dictionaries({"k": st.just("ctrl"), "d": st.just(ds), "sop": st.just(False), "v": pos,
                                   "via": st.sampled_from(["by", "by", "CO", "gc", "CG"]), "at": at,
                                   "b": st.sampled_from([False, False, False, True]), "raw": raw}),
            st.fixed_dictionaries({"k": st.just("ctrl"), "d": st.just(ds), "sop": st.just(True), "v": sop,
                                   "via": st.sampled_from(["by", "CO", "gc", "CG"]), "at": at, "raw": raw}),
            st.fixed_dictionaries({"k": st.just("ctrl"), "d": st.just(ds), "sop": st.just(False),
                                   "v": st.just([[1]] * len(ds)), "via": st.sampled_from(["by", "gc"]), "at": at}),
        )

    def mk_mask(ds):
        # every non-empty subset of the levels of each control is equally likely: unevenly spaced, non-contiguous, full
        masks = st.tuples(*[st.integers(1, 2 ** d - 1) for d in ds])
        lv = st.tuples(st.just(ds), masks).map(_levels_from_mask)
        return st.fixed_dictionaries({"k": st.just("ctrl"), "d": st.just(ds), "sop": st.just(False), "v": lv,
                                      "via": st.sampled_from(["by", "CO", "gc", "CG"]), "at": at, "raw": raw})

    # a drawn selector instead of one_of: Hypothesis flattens nested one_of, which would multiply the weight of "ctrl"
    # among the wrapper kinds
    return st.integers(0, 4).flatmap(lambda i: big.flatmap(mk_mask) if i >= 3 else dims.flatmap(mk))


def wrapper(kinds):
    opts = []
    if "tag" in kinds:
        opts.append(st.fixed_dictionaries({"k": st.just("tag"), "two": st.booleans()}))
    if "perm" in kinds:
        opts.append(st.fixed_dictionaries({"k": st.just("perm"), "p": st.lists(st.integers(0, 5), min_size=2, max_size=4)}))
        opts.append(st.fixed_dictionaries({"k": st.just("perm"), "p": st.lists(st.integers(0, 5), min_size=2, max_size=4)}))
    if "ctrl" in kinds:
        opts += [_ctrl_wrapper()] * 3
    if "inv" in kinds:
        opts.append(st.just({"k": "inv"}))
    if "pow" in kinds:
        opts.append(st.fixed_dictionaries({"k": st.just("pow"), "t": st.one_of(
            st.sampled_from([2, 3, -1, -2, 0.5, -0.5, 0.25, 1 / 3, 1.5, 0]), st.floats(-2, 2).map(lambda x: round(x, 3)))}))
    if "par" in kinds:
        opts.append(st.fixed_dictionaries({"k": st.just("par"), "n": st.sampled_from([2, 2, 3]), "fn": st.booleans(),
                                           "at": st.integers(0, 5)}))
    if "circ" in kinds:
        opts.append(st.fixed_dictionaries({"k": st.just("circ"), "r": st.sampled_from([1, 1, 2, 3, -1, -2]),
                                           "x": st.sampled_from([0, 0, 1, 2, 3]), "ids": st.booleans(), "rp": st.booleans()}))
    return st.one_of(*opts)


ALL_WRAPPERS = ("tag", "perm", "ctrl", "inv", "pow", "par", "circ")


def op_recipes(pred=lambda f: f.unitary, max_arity=3, kinds=ALL_WRAPPERS, depths=(0, 1, 1, 1, 2, 2, 3)):
    """Strategy of op recipes over the families selected by ``pred`` (incl. the local ones)."""
    _local_families()
    base = G.gate_recipes(pred, max_arity=max_arity)
    rest = tuple(x for x in kinds if x != "par") or tuple(kinds)
    w_any = wrapper(rest) if rest else None
    w_par = wrapper(("par",)) if "par" in kinds else None

    depth = st.sampled_from(list(depths))
    code = st.integers(0, POOL ** 4 - 1)
    coin = st.integers(0, 3)
    kind = st.sampled_from(KINDS)

    @st.composite
    def _one(draw):
        g = draw(base)
        k = len(G.qid_shape(g))
        c = draw(code)
        pool = list(range(POOL))
        pos = []
        for _ in range(k):
            pos.append(pool.pop(c % len(pool)))
            c //= POOL
        n = draw(depth) if kinds else 0
        ws = []
        for i in range(n):
            if i == 0 and k == 1 and w_par is not None and draw(coin) == 0:
                ws.append(draw(w_par))
            elif w_any is not None:
                ws.append(draw(w_any))
        return {"g": g, "qk": draw(kind), "pos": pos, "w": ws}

    return _one()


# --------------------------------------------------------------------------------------- tensors


def content(vals, n, salt=0.0):
    """n complex numbers, a fixed smooth-but-generic function of the drawn floats (no RNG)."""
    i = np.arange(1, n + 1, dtype=float)
    re = np.zeros(n)
    im = np.zeros(n)
    vals = list(vals) or [0.0]
    for j, v in enumerate(vals[:8]):
        a = float(v) + 0.37 * (j + 1)
        re += a * np.cos(i * (0.7548776662 + 0.5698402909 * j) + 1.3247 * salt + j)
        im += a * np.sin(i * (0.6180339887 + 0.4142135623 * j) + 0.8191 * salt + 2 * j)
    return re + 1j * im


MEM = ["C", "C", "F", "S", "R", "T"]


def with_layout(arr: np.ndarray, mode: str) -> np.ndarray:
    """An array equal to ``arr`` whose memory layout is ``mode`` (views into larger / reversed / transposed bases)."""
    arr = np.asarray(arr)
    if arr.ndim == 0 or mode == "C":
        return np.array(arr, order="C", copy=True)
    if mode == "F":
        return np.array(arr, order="F", copy=True)
    if mode == "S":  # every second element along the last axis of a larger base
        base = np.full(arr.shape[:-1] + (2 * arr.shape[-1],), np.nan, dtype=arr.dtype)
        v = base[..., ::2]
    elif mode == "R":  # reversed first axis
        base = np.full(arr.shape, np.nan, dtype=arr.dtype)
        v = base[::-1]
    else:  # "T": transposed view of a base with reversed axis order
        base = np.full(arr.shape[::-1], np.nan, dtype=arr.dtype)
        v = base.transpose()
    v[...] = arr
    return v


def ref_apply(u: np.ndarray, tensor_: np.ndarray, axes: Sequence[int], levels: Sequence[Sequence[int]]) -> np.ndarray:
    """Left-multiply ``u`` onto the sub-block of ``tensor_`` spanned by ``levels[i]`` of axis ``axes[i]``."""
    k = len(axes)
    t = np.array(tensor_, dtype=complex, copy=True)
    if k == 0:
        return t * np.asarray(u).reshape(-1)[0]
    t = np.moveaxis(t, list(axes), list(range(k))).copy()
    ix = np.ix_(*[list(lv) for lv in levels])
    sub = t[ix]
    d = L.dim([len(lv) for lv in levels])
    new = (np.asarray(u, dtype=complex).reshape(d, d) @ sub.reshape(d, -1)).reshape(sub.shape)
    t[ix] = new
    return np.moveaxis(t, list(range(k)), list(axes))


def ref_channel(kraus, tensor_: np.ndarray, left: Sequence[int], right: Sequence[int]) -> np.ndarray:
    k = len(left)
    t = np.array(tensor_, dtype=complex, copy=True)
    if k == 0:
        s = sum(abs(np.asarray(x).reshape(-1)[0]) ** 2 for x in kraus)
        return t * s
    src = list(left) + list(right)
    t = np.moveaxis(t, src, list(range(2 * k)))
    shp = t.shape
    d = L.dim(shp[:k])
    t2 = t.reshape(d, d, -1)
    out = np.zeros_like(t2)
    for kk in kraus:
        kk = np.asarray(kk, dtype=complex)
        out += np.einsum("ab,bcr,dc->adr", kk, t2, kk.conj())
    return np.moveaxis(out.reshape(shp), list(range(2 * k)), src)
