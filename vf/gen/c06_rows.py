"""C06 option table: one Row per (transformer, way of calling it).

``run(circuit, o)`` calls the transformer exactly as a user would; ``o`` is the JSON options dict
{"deep": bool, "ign": bool, "frozen": bool, "x": {row specific}}.
"""
from __future__ import annotations

import math
from dataclasses import dataclass, field
from typing import Callable, Optional

import numpy as np
from hypothesis import strategies as st

import cirq
import cirq_google
from cirq.transformers import gauge_compiling as GCM
from vf.gen import c06_circuits as G6
from vf.gen import c06_harness as H
from vf.gen import gates as G

Cfg = G6.Cfg


@dataclass
class Row:
    name: str
    covers: tuple
    run: Callable
    opts: object = None  # strategy for o["x"]
    unitary: Optional[Cfg] = None  # grammar for the class-1 sub-check (None: row not in that sub-check)
    records: Optional[Cfg] = None  # grammar for the class-2 sub-check
    deep: bool = True  # deep=True accepted
    tags: bool = True  # tags_to_ignore accepted
    dist_only: bool = False
    sub_policy: str = "keep"  # keep | subset | any
    creates_subs: bool = False
    new_qubits: bool = False
    tol: Callable = None  # (o, nops) -> extra tolerance
    reject: Callable = None  # (exception, o) -> reason or None   (documented rejections)
    tag_oracle: Callable = None  # (cin, cout, o) -> message or None; replaces the semantic oracle
    weight: int = 2
    ign_p: int = 4  # tags_to_ignore passed in ign_p out of 6 cases


def ctx(o):
    return cirq.TransformerContext(tags_to_ignore=(G6.IGN,) if o.get("ign") else (), deep=bool(o.get("deep")))


def prim_kw(o, tags=True, deep=True):
    kw = {}
    if tags:
        kw["tags_to_ignore"] = (G6.IGN,) if o.get("ign") else ()
    if deep:
        kw["deep"] = bool(o.get("deep"))
    return kw


def X(o, k, default=0):
    return (o.get("x") or {}).get(k, default)


def _atol(o, default):
    a = X(o, "atol", None)
    return default if a is None else float(a)


ATOLS = st.sampled_from([None, None, 0.0, 1e-8, 1e-5])


def atol_tol(default):
    return lambda o, n: 16.0 * _atol(o, default) * (n + 2)


# ------------------------------------------------------------------------------------------ grammars


def U(**kw):
    base = dict(max_w=4, max_ops=9, sub=0.12)
    base.update(kw)
    return Cfg(**base)


def M(**kw):
    base = dict(meas=0.4, cc=0.35, chan=0.1, sub=0.15, max_w=3, max_ops=8, repkeys=True)
    base.update(kw)
    return Cfg(**base)


def _g(name, **p):
    return [name, p]


CZ1 = _g("CZPow", e=1.0, s=0.0)
Z_LIKE = [_g("ZPow", e=0.25, s=0.0), _g("ZPow", e=1.0, s=0.0), _g("ZPow", e=-0.5, s=0.0), _g("Rz", r=0.7)]
X_LIKE = [_g("XPow", e=1.0, s=0.0), _g("YPow", e=1.0, s=0.0), _g("PhasedXPow", p=0.25, e=1.0, s=0.0),
          _g("PhasedXPow", p=0.3, e=0.5, s=0.0), _g("XPow", e=0.5, s=0.0)]
PHXZ = [lambda: st.fixed_dictionaries({"x": G.exponents(), "z": G.exponents(), "a": G.exponents()}).map(lambda p: ["PhasedXZ", p])]
SWAPS = [_g("SwapPow", e=1.0, s=0.0), _g("ISwapPow", e=1.0, s=0.0), _g("ISwapPow", e=-1.0, s=0.0), _g("FSim", theta=math.pi / 2, phi=0.3),
         _g("CZPow", e=0.5, s=0.0)]
CLIFF1 = [lambda: st.integers(0, 23).map(lambda i: ["SingleQubitClifford", {"i": i}]), _g("HPow", e=1.0, s=0.0),
          _g("ZPow", e=0.5, s=0.0), _g("XPow", e=1.0, s=0.0), _g("YPow", e=-0.5, s=0.0)]
CLIFF2 = [CZ1, _g("CXPow", e=1.0, s=0.0), _g("SwapPow", e=1.0, s=0.0), _g("ISwapPow", e=1.0, s=0.0)]
TINY = [_g("ZPow", e=1e-9, s=0.0), _g("XPow", e=1e-9, s=0.0), _g("CZPow", e=1e-9, s=0.0), _g("Rz", r=1e-9), _g("ZPow", e=2.0, s=0.0),
        _g("XPow", e=1e-4, s=0.0), _g("CZPow", e=2.0, s=0.0)]
ZEROQ = [_g("GlobalPhase", turns=0.25), _g("GlobalPhase", turns=0.5)]

SWAPLIKE = [_g("SwapPow", e=1.0, s=0.0), _g("ISwapPow", e=1.0, s=0.0), _g("ISwapPow", e=-1.0, s=0.0), _g("ISwapPow", e=3.0, s=0.0),
            _g("FSim", theta=math.pi / 2, phi=0.3), _g("FSim", theta=-math.pi / 2, phi=1.1), _g("FSim", theta=3 * math.pi / 2, phi=0.0)]


def swap_tail(dims):
    """... [PhasedXZ / PhasedX on a] [Z**t / PhasedXZ on b] swap-like(a,b) [swap-like again] [measurements]: the shape in which eject_z has
    to carry a tracked phase across a swap while a PhasedXZ is pending on the partner wire; nothing but swaps/measurements follows."""

    @st.composite
    def tail(draw):
        qw = [i for i, d in enumerate(dims) if d == 2]
        a, b = list(draw(st.permutations(qw)))[:2]
        phxz = st.fixed_dictionaries({"x": G.exponents(), "z": G.exponents(), "a": G.exponents()}).map(lambda p: ["PhasedXZ", p])
        phx = st.fixed_dictionaries({"p": G.exponents(), "e": G.exponents(), "s": st.just(0.0)}).map(lambda p: ["PhasedXPow", p])
        zt = G.exponents().map(lambda e: ["ZPow", {"e": e, "s": 0.0}])
        ops = []

        def add(g, w, ins=0):
            ops.append({"k": "g", "g": g, "w": w, "ins": ins, "tag": 0})

        first = draw(st.sampled_from(["phxz", "phxz", "phx", "none"]))
        if first != "none":
            add(draw(phxz if first == "phxz" else phx), [a])
        for _ in range(draw(st.integers(1, 2))):
            add(draw(st.one_of(zt, zt, phxz)), [b], draw(st.sampled_from([0, 0, 1])))
        if draw(st.integers(0, 3)) == 0:
            add(draw(zt), [a])
        for _ in range(draw(st.sampled_from([1, 1, 1, 2, 3]))):
            w = [a, b] if draw(st.booleans()) else [b, a]
            add(draw(st.sampled_from(SWAPLIKE)), w, draw(st.sampled_from([0, 0, 1])))
        return ops

    return tail()


def pauli_cz_tail(dims):
    """... W(a) on one or both legs, [Z**t], CZ**t with fractional t, [more W / CZ]: single and double crossing of held Paulis over a
    partial CZ in eject_phased_paulis; mixed with the swap shape."""

    @st.composite
    def tail(draw):
        if draw(st.integers(0, 2)) == 0:
            return draw(swap_tail(dims))
        qw = [i for i, d in enumerate(dims) if d == 2]
        a, b = list(draw(st.permutations(qw)))[:2]
        w_gate = st.one_of(st.sampled_from([_g("XPow", e=1.0, s=0.0), _g("YPow", e=1.0, s=0.0)]),
                           G.exponents().map(lambda p: ["PhasedXPow", {"p": p, "e": 1.0, "s": 0.0}]),
                           G.exponents().map(lambda p: ["PhasedXZ", {"x": 1.0, "z": 0.0, "a": p}]))
        cz = G.exponents().map(lambda e: ["CZPow", {"e": e, "s": 0.0}])
        zt = G.exponents().map(lambda e: ["ZPow", {"e": e, "s": 0.0}])
        ops = []

        def add(g, w):
            ops.append({"k": "g", "g": g, "w": w, "ins": 0, "tag": 0})

        add(draw(w_gate), [a])
        if draw(st.integers(0, 3)) != 0:
            add(draw(w_gate), [b])
        if draw(st.booleans()):
            add(draw(zt), [draw(st.sampled_from([a, b]))])
        for _ in range(draw(st.integers(1, 2))):
            add(draw(cz), [a, b] if draw(st.booleans()) else [b, a])
            if draw(st.integers(0, 2)) == 0:
                add(draw(w_gate), [draw(st.sampled_from([a, b]))])
        return ops

    return tail()


ROWS: dict = {}


def reg(row: Row):
    assert row.name not in ROWS, row.name
    ROWS[row.name] = row
    return row


# ------------------------------------------------------------------------------------------ simple passes

reg(Row("align_left", ("align_left",), lambda c, o: cirq.align_left(c, context=ctx(o)), unitary=U(), records=M()))
reg(Row("align_right", ("align_right",), lambda c, o: cirq.align_right(c, context=ctx(o)), unitary=U(), records=M()))

CATEGORIES = [
    lambda: [],
    lambda: [lambda op: len(op.qubits) == 1, lambda op: len(op.qubits) == 2],
    lambda: [cirq.XPowGate, cirq.CZPowGate],
    lambda: [cirq.X, cirq.CZ, cirq.H],
    lambda: [cirq.CircuitOperation, cirq.GateOperation],
    lambda: [cirq.is_measurement, lambda op: bool(cirq.control_keys(op))],
    lambda: [lambda op: len(op.qubits) == 0, cirq.ZPowGate],
]
reg(Row("stratified_circuit", ("stratified_circuit",),
        lambda c, o: cirq.stratified_circuit(c, context=ctx(o), categories=CATEGORIES[X(o, "cat") % len(CATEGORIES)]()),
        opts=st.fixed_dictionaries({"cat": st.integers(0, len(CATEGORIES) - 1)}),
        unitary=U(boost=[CZ1, X_LIKE[0], Z_LIKE[0]], boost_p=0.25), records=M(), weight=3))

NO_DECOMP = [
    None,
    lambda op: len(op.qubits) <= 1,
    lambda op: isinstance(op.gate, (cirq.CZPowGate, cirq.XPowGate, cirq.YPowGate, cirq.ZPowGate, cirq.PhasedXPowGate, cirq.MeasurementGate)),
    lambda op: True,
]


def _expand(c, o):
    nd = NO_DECOMP[X(o, "nd") % 4]
    return cirq.expand_composite(c, context=ctx(o)) if nd is None else cirq.expand_composite(c, context=ctx(o), no_decomp=nd)


reg(Row("expand_composite", ("expand_composite",), _expand, opts=st.fixed_dictionaries({"nd": st.integers(0, 3)}),
        unitary=U(max_ops=6), records=M(max_ops=6), sub_policy="any", weight=3))

reg(Row("eject_z", ("eject_z",),
        lambda c, o: cirq.eject_z(c, context=ctx(o), atol=_atol(o, 0.0), eject_parameterized=bool(X(o, "ep"))),
        opts=st.fixed_dictionaries({"atol": ATOLS, "ep": st.booleans()}),
        unitary=U(param=True, boost=Z_LIKE + X_LIKE + SWAPS + PHXZ + [CZ1], boost_p=0.6, sub_tags=(0, 0, 0, 1, 1, 2, 4), tail=swap_tail),
        records=M(boost=Z_LIKE + X_LIKE + SWAPS + [CZ1], boost_p=0.5, sub_tags=(0, 0, 0, 1, 1, 2, 4), tail=swap_tail, tail_p=3), tol=atol_tol(0.0), sub_policy="subset", weight=4))
reg(Row("eject_phased_paulis", ("eject_phased_paulis",),
        lambda c, o: cirq.eject_phased_paulis(c, context=ctx(o), atol=_atol(o, 1e-8), eject_parameterized=bool(X(o, "ep"))),
        opts=st.fixed_dictionaries({"atol": ATOLS, "ep": st.booleans()}),
        unitary=U(param=True, boost=Z_LIKE + X_LIKE + PHXZ + [CZ1, _g("CZPow", e=0.3, s=0.0)], boost_p=0.65, tail=pauli_cz_tail, tail_p=4),
        records=M(boost=Z_LIKE + X_LIKE + [CZ1], boost_p=0.5, tail=pauli_cz_tail, tail_p=3), tol=atol_tol(1e-8), weight=4))

reg(Row("merge_single_qubit_gates_to_phased_x_and_z", ("merge_single_qubit_gates_to_phased_x_and_z",),
        lambda c, o: cirq.merge_single_qubit_gates_to_phased_x_and_z(c, context=ctx(o), atol=_atol(o, 1e-8)),
        opts=st.fixed_dictionaries({"atol": ATOLS}), unitary=U(param=True), records=M(), tol=atol_tol(1e-8), sub_policy="subset"))


def _phxz(c, o):
    kw = {"merge_tags_fn": (lambda cop: [H.VF_MERGED])} if X(o, "mt") else {}
    return cirq.merge_single_qubit_gates_to_phxz(c, context=ctx(o), atol=_atol(o, 1e-8), **kw)


reg(Row("merge_single_qubit_gates_to_phxz", ("merge_single_qubit_gates_to_phxz",), _phxz,
        opts=st.fixed_dictionaries({"atol": ATOLS, "mt": st.booleans()}), unitary=U(param=True), records=M(), tol=atol_tol(1e-8),
        sub_policy="subset"))
reg(Row("merge_single_qubit_moments_to_phxz", ("merge_single_qubit_moments_to_phxz",),
        lambda c, o: cirq.merge_single_qubit_moments_to_phxz(c, context=ctx(o), atol=_atol(o, 1e-8)),
        opts=st.fixed_dictionaries({"atol": ATOLS}), unitary=U(param=True, boost=X_LIKE + Z_LIKE + PHXZ + ZEROQ, boost_p=0.5, max_arity=2),
        records=M(), tol=atol_tol(1e-8), sub_policy="subset"))

REWRITERS = [
    None,
    lambda cop: cop,
    lambda cop: list(cop.mapped_circuit().all_operations()),
    lambda cop: cirq.MatrixGate(cirq.unitary(cop)).on(*cop.qubits) if cop.qubits else cirq.global_phase_operation(cirq.unitary(cop)[0, 0]),
]


def _merge_k(c, o):
    rw = REWRITERS[X(o, "rw") % 4]
    return cirq.merge_k_qubit_unitaries(c, context=ctx(o), k=1 + X(o, "k") % 3, rewriter=rw)


reg(Row("merge_k_qubit_unitaries", ("merge_k_qubit_unitaries",), _merge_k,
        opts=st.fixed_dictionaries({"k": st.integers(0, 2), "rw": st.integers(0, 3)}), unitary=U(param=True), records=M(),
        sub_policy="subset", creates_subs=True, weight=3))

reg(Row("drop_empty_moments", ("drop_empty_moments",), lambda c, o: cirq.drop_empty_moments(c, context=ctx(o)),
        unitary=U(), records=M(), weight=1))
reg(Row("drop_negligible_operations", ("drop_negligible_operations",),
        lambda c, o: cirq.drop_negligible_operations(c, context=ctx(o), atol=_atol(o, 1e-8)),
        opts=st.fixed_dictionaries({"atol": st.sampled_from([None, 1e-8, 1e-5, 1e-3])}),
        unitary=U(boost=TINY, boost_p=0.4), records=M(boost=TINY, boost_p=0.3), tol=atol_tol(1e-8), sub_policy="subset"))

reg(Row("drop_diagonal_before_measurement", ("drop_diagonal_before_measurement",),
        lambda c, o: cirq.drop_diagonal_before_measurement(c, context=ctx(o)),
        records=M(boost=Z_LIKE + [CZ1, _g("CZPow", e=0.5, s=0.0), _g("CZPow", e=0.5, s=0.0), _g("CZPow", e=-0.3, s=0.0), _g("Identity", n=1),
                         _g("HPow", e=1.0, s=0.0)], boost_p=0.6, meas=0.6, leg_p=6, sub_tags=(0, 0, 0, 1, 1, 2, 4)),
        dist_only=True, sub_policy="subset", weight=8))
reg(Row("synchronize_terminal_measurements", ("synchronize_terminal_measurements",),
        lambda c, o: cirq.synchronize_terminal_measurements(c, context=ctx(o), after_other_operations=bool(X(o, "after", True))),
        opts=st.fixed_dictionaries({"after": st.booleans()}), records=M(meas=0.6), weight=3))
reg(Row("lightcone_filter", ("lightcone_filter",), lambda c, o: cirq.transformers.lightcone_filter(c, context=ctx(o)),
        records=M(cc=0.2, chan=0.05), tags=False, deep=False, dist_only=True, sub_policy="any", weight=2))
# insertion_sort swaps operations iff cirq.commutes(op, tail_op) says so; for matrices that is linalg.matrix_commutes, i.e.
# np.allclose(m1 @ m2, m2 @ m1, atol=1e-8) with numpy's default rtol=1e-5: each swap may cost a commutator of up to ~1e-5 per entry
# ("approximately commuting" by cirq.commutes' own contract).  The tolerance allows exactly that much per possible swap.
reg(Row("insertion_sort_transformer", ("insertion_sort_transformer",), lambda c, o: cirq.transformers.insertion_sort_transformer(c, context=ctx(o)),
        unitary=U(), records=M(), tol=lambda o, n: 2e-5 * n, weight=3))

SCHEMAS = ["DEFAULT", "XX_PAIR", "X_XINV", "YY_PAIR", "Y_YINV",
           lambda: (cirq.Z, cirq.Z), lambda: (cirq.X, cirq.Y, cirq.Z), lambda: (cirq.Y ** -1, cirq.Y)]


def _dd(c, o):
    s = SCHEMAS[X(o, "schema") % len(SCHEMAS)]
    return cirq.add_dynamical_decoupling(c, context=ctx(o), schema=s if isinstance(s, str) else s(),
                                         single_qubit_gate_moments_only=bool(X(o, "sq", True)))


reg(Row("add_dynamical_decoupling", ("add_dynamical_decoupling",), _dd,
        opts=st.fixed_dictionaries({"schema": st.integers(0, len(SCHEMAS) - 1), "sq": st.booleans()}),
        unitary=U(boost=CLIFF1 + CLIFF2, boost_p=0.7, sub=0.05), records=M(boost=CLIFF1 + CLIFF2, boost_p=0.6, sub=0.05),
        deep=False, weight=4, ign_p=1))


def _opt_gateset(c, o):
    gs = [cirq.CZTargetGateset, cirq.SqrtIswapTargetGateset][X(o, "gs") % 2]()
    return cirq.optimize_for_target_gateset(c, context=ctx(o), gateset=gs, max_num_passes=[1, 2, None][X(o, "passes") % 3])


reg(Row("optimize_for_target_gateset", ("optimize_for_target_gateset",), _opt_gateset,
        opts=st.fixed_dictionaries({"gs": st.integers(0, 1), "passes": st.integers(0, 2)}),
        unitary=U(max_w=3, max_ops=5, sub=0.0, zeroq=False), deep=True, sub_policy="any", tol=lambda o, n: 1e-5, weight=1))

# ------------------------------------------------------------------------------------------ tag passes


def _toggle_oracle(cin, cout, o):
    tg = {G6.OTHER, "vf_new"} if X(o, "two") else {G6.OTHER}
    deep = bool(o.get("deep"))

    a, b = H.tagsets(cin, False), H.tagsets(cout, False)
    if len(a) != len(b):
        return f"toggle_tags changed the number of operations {len(a)} -> {len(b)}"
    for (u0, t0), (u1, t1) in zip(a, b):
        if isinstance(u0, cirq.CircuitOperation) and deep:
            # documented: with deep the tags *inside* are toggled; the wrapping op is checked recursively below
            if not isinstance(u1, cirq.CircuitOperation):
                return "toggle_tags(deep) replaced a CircuitOperation"
            sub = _toggle_oracle(u0.circuit, u1.circuit, o)
            if sub:
                return sub
            continue
        if u0 != u1:
            return f"toggle_tags changed an operation: {u0!r} -> {u1!r}"
        if t1 != frozenset(set(t0) ^ tg):
            return f"toggle_tags: tags {sorted(map(str, t0))} became {sorted(map(str, t1))}, expected symmetric difference with {sorted(tg)}"
    return None


reg(Row("toggle_tags", ("toggle_tags",),
        lambda c, o: cirq.toggle_tags(c, [G6.OTHER, "vf_new"] if X(o, "two") else [G6.OTHER], deep=bool(o.get("deep"))),
        opts=st.fixed_dictionaries({"two": st.booleans()}), unitary=U(sub=0.2), records=M(), tags=False, tag_oracle=_toggle_oracle, weight=1))


def _index_oracle(cin, cout, o):
    deep = bool(o.get("deep"))
    targets = {G6.OTHER, G6.IGN} if X(o, "two") else {G6.OTHER}
    counters = {t: 0 for t in targets}

    def walk(a, b):
        la, lb = list(a.all_operations()), list(b.all_operations())
        if len(la) != len(lb):
            return f"index_tags changed the number of operations {len(la)} -> {len(lb)}"
        for x, y in zip(la, lb):
            ux, uy = x.untagged, y.untagged
            if deep and isinstance(ux, cirq.CircuitOperation):
                if not isinstance(uy, cirq.CircuitOperation):
                    return "index_tags(deep) replaced a CircuitOperation"
                r = walk(ux.circuit, uy.circuit)
                if r:
                    return r
            elif ux != uy:
                return f"index_tags changed an operation: {ux!r} -> {uy!r}"
            want = set()
            for t in x.tags:
                if t in targets:
                    want.add(f"{t}_{counters[t]}")
                    counters[t] += 1
                else:
                    want.add(t)
            if set(y.tags) != want:
                return f"index_tags: tags {sorted(map(str, x.tags))} became {sorted(map(str, y.tags))}, expected {sorted(map(str, want))}"
        return None

    return walk(cin, cout)


reg(Row("index_tags", ("index_tags",),
        lambda c, o: cirq.index_tags(c, context=ctx(o), target_tags={G6.OTHER, G6.IGN} if X(o, "two") else {G6.OTHER}),
        opts=st.fixed_dictionaries({"two": st.booleans()}), unitary=U(sub=0.2), records=M(), tags=False, tag_oracle=_index_oracle, weight=1))


def _remove_oracle(cin, cout, o):
    deep = bool(o.get("deep"))
    mode = X(o, "mode") % 3

    def gone(t):
        return (mode in (0, 2) and t == G6.OTHER) or (mode in (1, 2) and str(t).startswith("vf_i"))

    def walk(a, b):
        la, lb = list(a.all_operations()), list(b.all_operations())
        if len(la) != len(lb):
            return f"remove_tags changed the number of operations {len(la)} -> {len(lb)}"
        for x, y in zip(la, lb):
            ux, uy = x.untagged, y.untagged
            if deep and isinstance(ux, cirq.CircuitOperation):
                if not isinstance(uy, cirq.CircuitOperation):
                    return "remove_tags(deep) replaced a CircuitOperation"
                r = walk(ux.circuit, uy.circuit)
                if r:
                    return r
            elif ux != uy:
                return f"remove_tags changed an operation: {ux!r} -> {uy!r}"
            want = {t for t in x.tags if not gone(t)}
            if set(y.tags) != want:
                return f"remove_tags: tags {sorted(map(str, x.tags))} became {sorted(map(str, y.tags))}, expected {sorted(map(str, want))}"
        return None

    return walk(cin, cout)


def _remove(c, o):
    mode = X(o, "mode") % 3
    kw = {}
    if mode in (0, 2):
        kw["target_tags"] = {G6.OTHER}
    if mode in (1, 2):
        kw["remove_if"] = lambda t: str(t).startswith("vf_i")
    return cirq.remove_tags(c, context=ctx(o), **kw)


reg(Row("remove_tags", ("remove_tags",), _remove, opts=st.fixed_dictionaries({"mode": st.integers(0, 2)}), unitary=U(sub=0.2), records=M(),
        tags=False, tag_oracle=_remove_oracle, weight=1))

# ------------------------------------------------------------------------------------------ primitives

reg(Row("map_moments", ("map_moments",),
        lambda c, o: cirq.map_moments(c, H.map_moment_func(X(o, "f")), **prim_kw(o)),
        opts=st.fixed_dictionaries({"f": st.integers(0, 3)}), unitary=U(sub=0.2), records=M(sub=0.2)))
_MAPF = st.fixed_dictionaries({"f": st.integers(0, 3), "v": st.lists(G.small_floats(), min_size=8, max_size=8)})
reg(Row("map_operations", ("map_operations",),
        lambda c, o: cirq.map_operations(c, H.map_op_func(X(o, "f"), X(o, "v", [])), **prim_kw(o)),
        opts=_MAPF, unitary=U(sub=0.2), records=M(sub=0.2), creates_subs=True, weight=3))
reg(Row("map_operations_and_unroll", ("map_operations_and_unroll",),
        lambda c, o: cirq.map_operations_and_unroll(c, H.map_op_func(X(o, "f"), X(o, "v", [])), **prim_kw(o)),
        opts=_MAPF, unitary=U(sub=0.2), records=M(sub=0.2), weight=3))
reg(Row("merge_operations", ("merge_operations",),
        lambda c, o: cirq.merge_operations(c, H.merge_func(X(o, "f")), **prim_kw(o)),
        opts=st.fixed_dictionaries({"f": st.integers(0, 3)}), unitary=U(sub=0.2, max_arity=2), records=M(sub=0.2, max_arity=2),
        sub_policy="subset", creates_subs=True, weight=5))
reg(Row("merge_operations_to_circuit_op", ("merge_operations_to_circuit_op",),
        lambda c, o: cirq.merge_operations_to_circuit_op(c, H.can_merge(X(o, "f")), merged_circuit_op_tag=["Merged connected component", "vf_cc"][X(o, "t") % 2],
                                                         **prim_kw(o)),
        opts=st.fixed_dictionaries({"f": st.integers(0, 3), "t": st.integers(0, 1)}), unitary=U(sub=0.2), records=M(sub=0.2),
        sub_policy="subset", creates_subs=True, weight=5))
reg(Row("merge_k_qubit_unitaries_to_circuit_op", ("merge_k_qubit_unitaries_to_circuit_op",),
        lambda c, o: cirq.merge_k_qubit_unitaries_to_circuit_op(c, k=1 + X(o, "k") % 3, merged_circuit_op_tag=[None, "vf_k"][X(o, "t") % 2], **prim_kw(o)),
        opts=st.fixed_dictionaries({"k": st.integers(0, 2), "t": st.integers(0, 1)}), unitary=U(sub=0.2), records=M(sub=0.2),
        sub_policy="subset", creates_subs=True, weight=3))
reg(Row("merge_moments", ("merge_moments",),
        lambda c, o: cirq.merge_moments(c, H.moments_merge_func(X(o, "f")), **prim_kw(o)),
        opts=st.fixed_dictionaries({"f": st.integers(0, 2)}), unitary=U(sub=0.25, boost=X_LIKE + Z_LIKE, boost_p=0.4, max_arity=2),
        records=M(sub=0.25), sub_policy="subset", weight=3))
reg(Row("merge_moments_batch", ("merge_moments_batch",),
        lambda c, o: cirq.merge_moments_batch(c, H.moments_batch_func(X(o, "f")), **prim_kw(o)),
        opts=st.fixed_dictionaries({"f": st.integers(0, 2)}), unitary=U(sub=0.25, boost=X_LIKE + Z_LIKE, boost_p=0.4, max_arity=2),
        records=M(sub=0.25), sub_policy="subset", weight=3))

TAGS_TO_CHECK = ["default", None, (G6.SUBTAG,), (G6.MAPPED, G6.SUBTAG)]


def _unroll(fn):
    def run(c, o):
        t = TAGS_TO_CHECK[X(o, "t") % 4]
        kw = {} if t == "default" else {"tags_to_check": t}
        return fn(c, deep=bool(o.get("deep")), **kw)

    return run


for _n in ("unroll_circuit_op", "unroll_circuit_op_greedy_earliest", "unroll_circuit_op_greedy_frontier"):
    reg(Row(_n, (_n,), _unroll(getattr(cirq, _n)), opts=st.fixed_dictionaries({"t": st.integers(0, 3)}),
            unitary=U(sub=0.4, max_ops=6), records=M(sub=0.4, max_ops=6), tags=False, sub_policy="any", weight=3))

# ------------------------------------------------------------------------------------------ gauge transformers


def _rng(o):
    return np.random.default_rng(int(X(o, "seed")))


def _gauge(tr):
    return lambda c, o: tr(c, context=ctx(o), prng=_rng(o))


SEED = st.fixed_dictionaries({"seed": st.integers(0, 2 ** 31)})
SYC = _g("SYC")
CUSTOM_GAUGE = cirq.transformers.GaugeTransformer(
    target=cirq.CNOT,
    gauge_selector=cirq.transformers.GaugeSelector(gauges=[
        cirq.transformers.ConstantGauge(two_qubit_gate=cirq.CNOT, pre_q0=cirq.Z, post_q0=cirq.Z),
        cirq.transformers.ConstantGauge(two_qubit_gate=cirq.CNOT, pre_q1=cirq.X, post_q1=cirq.X),
        cirq.transformers.ConstantGauge(two_qubit_gate=cirq.CNOT, pre_q0=cirq.X, post_q0=cirq.X, post_q1=cirq.X),
        cirq.transformers.ConstantGauge(two_qubit_gate=cirq.CNOT, pre_q1=(cirq.S, cirq.S), post_q0=cirq.Z, post_q1=(cirq.S, cirq.S)),
    ]))
GAUGES = {
    "CZGaugeTransformer": (GCM.CZGaugeTransformer, [CZ1]),
    "ISWAPGaugeTransformer": (GCM.ISWAPGaugeTransformer, [_g("ISwapPow", e=1.0, s=0.0)]),
    "SpinInversionGaugeTransformer": (GCM.SpinInversionGaugeTransformer, [_g("ZZPow", e=1.0, s=0.0), _g("ZZPow", e=0.3, s=0.25)]),
    "SqrtCZGaugeTransformer": (GCM.SqrtCZGaugeTransformer, [_g("CZPow", e=0.5, s=0.0), _g("CZPow", e=-0.5, s=0.0)]),
    "SqrtISWAPGaugeTransformer": (GCM.SqrtISWAPGaugeTransformer, [_g("ISwapPow", e=0.5, s=0.0)]),
    "CPhaseGaugeTransformer": (GCM.CPhaseGaugeTransformer, [CZ1, _g("CZPow", e=0.3, s=0.0), _g("CZPow", e=-0.5, s=0.0), _g("CZPow", e=1.7, s=0.0)]),
    "SYCGaugeTransformer": (cirq_google.transformers.SYCGaugeTransformer, [SYC]),
    "GaugeTransformer": (CUSTOM_GAUGE, [_g("CXPow", e=1.0, s=0.0)]),
}
for _n, (_tr, _boost) in GAUGES.items():
    extra = ("ConstantGauge", "GaugeSelector", "Gauge") if _n == "GaugeTransformer" else ()
    reg(Row(_n, (_n,) + extra, _gauge(_tr), opts=SEED, unitary=U(boost=_boost, boost_p=0.5, sub=0.05),
            records=M(boost=_boost, boost_p=0.5, sub=0.05), deep=False, weight=2))


def _mm(c, o):
    return GCM.CPhaseGaugeTransformerMM()(c, context=ctx(o), rng_or_seed=_rng(o) if X(o, "gen", True) else int(X(o, "seed")))


_MM_BOOST = [CZ1, _g("CZPow", e=0.3, s=0.0), _g("CZPow", e=-0.5, s=0.0), _g("ZPow", e=0.25, s=0.0), _g("XPow", e=1.0, s=0.0),
             _g("YPow", e=1.0, s=0.0), _g("ZPow", e=1.0, s=0.0), _g("Identity", n=1), _g("ZPow", e=0.7, s=0.5)]
reg(Row("CPhaseGaugeTransformerMM", ("CPhaseGaugeTransformerMM", "MultiMomentGaugeTransformer"), _mm,
        opts=st.fixed_dictionaries({"seed": st.integers(0, 2 ** 31), "gen": st.booleans()}),
        unitary=U(boost=_MM_BOOST, boost_p=0.85, sub=0.05), records=M(boost=_MM_BOOST, boost_p=0.8, sub=0.05), deep=False, weight=4))

IDLE_GAUGES = ["clifford", "pauli", "inv_clifford", lambda: (cirq.T, cirq.H, cirq.X ** 0.3)]


def _idle(c, o):
    g = IDLE_GAUGES[X(o, "g") % 4]
    tr = GCM.IdleMomentsGauge(1 + X(o, "min") % 3, gauges=g if isinstance(g, str) else g(), gauge_beginning=bool(X(o, "b")),
                              gauge_ending=bool(X(o, "e")))
    return tr(c, context=ctx(o), rng_or_seed=_rng(o) if X(o, "gen", True) else int(X(o, "seed")))


reg(Row("IdleMomentsGauge", ("IdleMomentsGauge",), _idle,
        opts=st.fixed_dictionaries({"seed": st.integers(0, 2 ** 31), "gen": st.booleans(), "g": st.integers(0, 3), "min": st.integers(0, 2),
                                    "b": st.booleans(), "e": st.booleans()}),
        unitary=U(sub=0.05, max_arity=2), records=M(sub=0.05), deep=False, weight=4))


# ------------------------------------------------------------------------------------------ ignored operations that share a moment


def ign_moment_shape(records: bool):
    """[staggering ops] [one moment holding >= 2 ignore-tagged ops on different qubits (NEW, then INLINE)] [non-ignored followers on
    those qubits, two-qubit followers across them, feed-forward / re-measurement on their keys].  The shape in which a re-scheduling
    pass has to keep its bookkeeping for ignored operations consistent with where it finally puts them."""

    def shape(dims):
        @st.composite
        def tail(draw):
            qw = [i for i, d in enumerate(dims) if d == 2]
            ws = list(draw(st.permutations(qw)))
            k = draw(st.integers(2, min(3, len(ws))))
            ign_w, rest = ws[:k], ws[k:]
            one_q = G.gate_recipes(lambda f: f.unitary and not f.qudit and f.arity == 1, max_arity=1)
            two_q = G.gate_recipes(lambda f: f.unitary and not f.qudit and f.arity == 2, max_arity=2)
            ops = []

            def add(kind, g, w, ins=0, tag=0, **kw):
                o = {"k": kind, "w": w, "ins": ins, "tag": tag}
                if g is not None:
                    o["g"] = g
                o.update(kw)
                ops.append(o)

            # 1. different earliest slots for the wires of the ignored moment
            depths = list(draw(st.permutations([0, 1, 2])))[:k]
            for w, d in zip(ign_w, depths):
                for _ in range(d):
                    add("g", draw(one_q), [w])
            if rest and draw(st.booleans()):
                add("g", draw(two_q), [draw(st.sampled_from(ign_w)), rest[0]])
            # 2. the moment with the ignored operations
            first = True
            used = []
            pair = k == 3 and draw(st.integers(0, 2)) == 0
            groups = [[ign_w[0], ign_w[1]], [ign_w[2]]] if pair else [[w] for w in ign_w]
            measured = False
            for grp in groups:
                ins = 1 if first else 2
                first = False
                if records and len(grp) == 1 and draw(st.integers(0, 3)) == 0:
                    add("m", None, grp, ins, 1, key=draw(st.integers(0, 2)))
                    measured = True
                elif records and len(grp) == 1 and draw(st.integers(0, 5)) == 0:
                    add("cc", draw(one_q), grp, ins, 1, conds=[{"t": "key", "ki": draw(st.integers(0, 3)), "index": -1}])
                else:
                    add("g", draw(two_q if len(grp) == 2 else one_q), grp, ins, 1)
                used += grp
            if rest and draw(st.integers(0, 2)) == 0:
                add("g", draw(one_q), [rest[-1]], 2, draw(st.sampled_from([0, 0, 2])))
            # 3. followers
            for w in ign_w:
                if draw(st.integers(0, 4)) != 0:
                    add("g", draw(one_q), [w], draw(st.sampled_from([0, 0, 0, 1])))
            if draw(st.booleans()):
                a, b = list(draw(st.permutations(ign_w)))[:2]
                add("g", draw(two_q), [a, b])
            if records:
                if measured and draw(st.booleans()):
                    tgt = draw(st.sampled_from(qw))
                    add("cc", draw(one_q), [tgt], 0, 0, conds=[{"t": "key", "ki": -1, "index": -1}])
                if draw(st.booleans()):
                    add("m", None, [draw(st.sampled_from(ign_w))], 0, draw(st.sampled_from([0, 0, 1])), key=draw(st.integers(0, 2)))
            return ops

        return tail()

    return shape


def _either(*shapes):
    def shape(dims):
        return st.integers(0, len(shapes) - 1).flatmap(lambda i: shapes[i](dims))

    return shape


# rows that re-schedule / merge around operations carrying an ignored tag
_IGN_ROWS = {
    "stratified_circuit": 6, "align_left": 3, "align_right": 3, "synchronize_terminal_measurements": 3,
    "merge_operations": 3, "merge_operations_to_circuit_op": 3, "merge_k_qubit_unitaries": 2, "merge_k_qubit_unitaries_to_circuit_op": 2,
    "merge_moments": 2, "merge_moments_batch": 2, "merge_single_qubit_gates_to_phxz": 2, "merge_single_qubit_gates_to_phased_x_and_z": 1,
    "merge_single_qubit_moments_to_phxz": 2, "map_operations": 1, "map_operations_and_unroll": 1, "drop_diagonal_before_measurement": 1,
    "eject_z": 0, "eject_phased_paulis": 0, "IdleMomentsGauge": 2, "CPhaseGaugeTransformerMM": 1, "expand_composite": 1,
    "drop_negligible_operations": 1,
}
for _name, _p in _IGN_ROWS.items():
    _row = ROWS[_name]
    for _kind in ("unitary", "records"):
        _cfg = getattr(_row, _kind)
        if _cfg is None:
            continue
        _shape = ign_moment_shape(_kind == "records")
        if _cfg.tail is None:
            _cfg.tail, _cfg.tail_p = _shape, _p
        else:
            _cfg.tail = _either(_cfg.tail, _cfg.tail, _cfg.tail, _shape)  # keep the row's own shape three times as likely
ROWS["stratified_circuit"].ign_p = 5
ROWS["stratified_circuit"].weight = 4
