"""Circuits with measurements, resets and classical feed-forward: recipe -> (cirq circuit, reference IR).

Recipe: {"dims","names","qkind", "ops":[...]} with ops
  {"k":"g",  "g":[family,params], "w":[...]}                        unitary gate
  {"k":"m",  "key":"a", "w":[...], "inv":[bool...], "conf":[[positions],[rows]] | None}   measurement
  {"k":"r",  "w":[i]}                                               reset
  {"k":"cg", "g":..., "w":[...], "conds":[cond,...]}                classically controlled unitary gate
  {"k":"ch", "g":[channel family, params], "w":[...]}               channel (only when channels=True)
  {"k":"ch", "g":["Stored", {"via": "kraus_channel"|"user_kraus"|"user_mixture"|"mixed_unitary", "k": 2..4, "seed": int,
                             "real": bool, "c64": bool}], "w":[...]}   (stored=True) channel given by stored arrays on any wires
cond recipes
  {"t":"key","key":k,"index":i} | {"t":"eq","key":k,"val":v} | {"t":"gt","key":k,"val":v} |
  {"t":"bit","key":k,"bit":j} | {"t":"xor","key":k,"b0":i,"b1":j} |
  {"t":"bitmask","key":k,"index":i,"target":v,"equal":bool,"mask":m|None}
The cirq circuit and the IR are built *separately* from the recipe: measurement semantics, condition semantics
and key bookkeeping in the IR never read a Cirq object; only per-gate matrices come from cirq.unitary(gate).
"""
from __future__ import annotations

import numpy as np
from hypothesis import strategies as st

from . import circuits as GC
from . import gates as G

KEYS = ["a", "b", "c"]


def GC_dumps(x):
    import json

    return json.dumps(x, sort_keys=True)


def _stochastic(draw, n):
    rows = []
    for _ in range(n):
        v = draw(st.lists(st.sampled_from([0.0, 0.0, 0.1, 0.25, 0.5, 1.0]), min_size=n, max_size=n))
        if sum(v) <= 0:
            v = [1.0] + [0.0] * (n - 1)
        s = sum(v)
        rows.append([x / s for x in v])
    return rows


@st.composite
def meas_circuit_recipes(draw, max_w=4, max_ops=10, qudits=False, clifford=False, channels=False, max_branches=64,
                         conds=True, confusion=True, resets=True, qkinds=None, pauli_meas=True, ch_weight=1, stored=False):
    r = draw(GC.wires(1, max_w, qudits))
    if qkinds:
        r["qkind"] = draw(st.sampled_from(qkinds))
    dims = r["dims"]
    n = len(dims)
    ops = []
    measured = {}  # key -> list of dims tuples (instances so far)
    budget = max_branches
    nops = draw(st.integers(1, max_ops))
    if clifford:
        pred = lambda f: f.name in ("XPow", "YPow", "ZPow", "HPow", "CZPow", "CXPow", "SwapPow", "ISwapPow", "SingleQubitClifford")
    else:
        pred = lambda f: f.unitary and not f.qudit and "zeroq" not in f.tags
    for i in range(nops):
        kind = draw(st.sampled_from(["g", "g", "g", "m", "m", "r", "cg", "cg", "cg", "ch", "pm", "pm"] + ["ch"] * (ch_weight - 1)))
        if kind == "pm":
            qw = [j for j, d in enumerate(dims) if d == 2]
            if not pauli_meas or not qw or budget < 2:
                kind = "g"
            else:
                k = draw(st.integers(1, min(3, len(qw))))
                w = list(draw(st.permutations(qw)))[:k]
                budget //= 2
                key = draw(st.sampled_from(["p", "r"]))
                measured.setdefault(key, []).append((2,))
                ops.append({"k": "pm", "key": key, "w": w, "ps": draw(st.lists(st.sampled_from("XYZ"), min_size=k, max_size=k)),
                            "sign": draw(st.sampled_from([1, 1, -1]))})
                continue
        if kind == "ch" and not channels:
            kind = "g"
        if kind == "r" and not resets:
            kind = "g"
        if kind == "cg" and (not measured or not conds):
            kind = "g"
        if kind == "m":
            k = draw(st.integers(1, min(3, n)))
            w = list(draw(st.permutations(list(range(n)))))[:k]
            size = 1
            for j in w:
                size *= dims[j]
            conf = None
            if confusion and draw(st.integers(0, 3)) == 0 and all(dims[j] == 2 for j in w):
                npos = draw(st.integers(1, min(2, k)))
                pos = sorted(list(draw(st.permutations(list(range(k)))))[:npos])
                conf = [pos, _stochastic(draw, 2 ** npos)]
                size *= 2 ** npos
            if size > budget:
                kind = "g"
            else:
                budget //= size
                key = draw(st.sampled_from(KEYS))
                if measured and draw(st.integers(0, 2)) == 0:
                    key = draw(st.sampled_from(sorted(measured)))  # favour repeated keys
                # a key must keep one shape (cirq requires consistent qid shapes per key)
                dd = tuple(dims[j] for j in w)
                if key in measured and measured[key][0] != dd:
                    free = [kk for kk in KEYS if kk not in measured or measured[kk][0] == dd]
                    if not free:
                        kind = "g"
                    else:
                        key = free[0]
                if kind == "m":
                    inv = []
                    if all(dims[j] == 2 for j in w) and draw(st.booleans()):
                        inv = draw(st.lists(st.booleans(), min_size=0, max_size=k))
                    measured.setdefault(key, []).append(dd)
                    ops.append({"k": "m", "key": key, "w": w, "inv": inv, "conf": conf})
                    continue
        if kind == "r":
            ops.append({"k": "r", "w": [draw(st.integers(0, n - 1))]})
            continue
        if kind in ("g", "cg", "ch"):
            if kind == "ch" and stored and draw(st.integers(0, 2)) == 0:
                prev = [x for x in ops if x["k"] == "ch"]
                if prev and draw(st.integers(0, 2)) == 0:
                    # the SAME channel value again (the builder reuses one gate object for equal recipes), on any wires that fit
                    src = draw(st.sampled_from(prev))
                    dd = [dims[i] for i in src["w"]]
                    fits = [list(c) for c in _arrangements(n, len(dd)) if [dims[i] for i in c] == dd]
                    ops.append({"k": "ch", "g": src["g"], "w": draw(st.sampled_from(fits))})
                    continue
                k = draw(st.integers(1, min(2, n)))
                w = list(draw(st.permutations(list(range(n)))))[:k]
                via = draw(st.sampled_from(["kraus_channel", "user_kraus", "user_kraus", "user_mixture", "mixed_unitary"]))
                if any(dims[i] != 2 for i in w) and via in ("kraus_channel", "mixed_unitary"):
                    via = "user_kraus"  # cirq.KrausChannel / MixedUnitaryChannel are qubit-only
                ops.append({"k": "ch", "w": w, "g": ["Stored", {"via": via, "k": draw(st.integers(2, 4)), "seed": draw(st.integers(0, 10 ** 6)),
                                                             "real": draw(st.integers(0, 3)) == 0, "c64": draw(st.integers(0, 3)) == 0}]})
                continue
            if kind == "ch":
                o = draw(GC.op_on(dims, lambda f: f.channel and f.name != "Reset", 2))
                if G.FAMILIES[o["g"][0]].channel:
                    ops.append({"k": "ch", "g": o["g"], "w": o["w"]})
                    continue
                kind = "g"
            if clifford:
                o = draw(_clifford_op(dims))
            else:
                o = draw(GC.op_on(dims, pred, 2))
            if kind == "cg":
                nc = draw(st.sampled_from([1, 1, 1, 2]))
                cs = [draw(_cond(measured)) for _ in range(nc)]
                # how the classical control is expressed: ClassicallyControlledOperation, cirq.If (single op / nested / block
                # of two ops = CircuitOperation body), or controls added in two steps
                form = draw(st.sampled_from(["ccop", "ccop", "ccop", "if", "if", "ifnest", "if2", "split"]))
                ops.append({"k": "cg", "g": o["g"], "w": o["w"], "conds": cs, "form": form})
            else:
                ops.append({"k": "g", "g": o["g"], "w": o["w"]})
    r["ops"] = ops
    return r


def _arrangements(n, k):
    import itertools

    return list(itertools.permutations(range(n), k))


def stored_channel(params, shape):
    """-> (gate, [Kraus operators as fresh complex128 copies]) for a ``Stored`` channel recipe on qids of ``shape``.

    The operators are blocks of the first d columns of a pseudo-random (dk x dk) unitary, a pure function of the drawn
    integer seed: sum_i K_i^dagger K_i = 1.  ``user_*`` are harness-defined gates implementing the documented ``_kraus_`` /
    ``_mixture_`` protocols with STORED arrays (returned by reference, like cirq.KrausChannel does)."""
    import cirq

    d = int(np.prod(shape))
    k = int(params.get("k", 2))
    rs = np.random.RandomState(int(params.get("seed", 0)) % (2 ** 31))
    dt = np.complex64 if params.get("c64") else np.complex128
    via = params.get("via", "user_kraus")
    if via in ("user_mixture", "mixed_unitary"):
        w = rs.rand(k) + 0.05
        w = w / w.sum()
        us = []
        for _ in range(k):
            m = rs.randn(d, d) + (0 if params.get("real") else 1j) * rs.randn(d, d)
            q, _r = np.linalg.qr(m)
            us.append(np.ascontiguousarray(q).astype(dt))
        ref = [np.sqrt(wi) * np.array(u, dtype=np.complex128) for wi, u in zip(w, us)]
        if via == "mixed_unitary":
            return cirq.MixedUnitaryChannel([(float(wi), u) for wi, u in zip(w, us)]), ref
        return _user_gate()(tuple(shape), mixture=tuple((float(wi), u) for wi, u in zip(w, us))), ref
    m = rs.randn(d * k, d * k) + (0 if params.get("real") else 1j) * rs.randn(d * k, d * k)
    q, _r = np.linalg.qr(m)
    ks = [np.ascontiguousarray(q[i * d:(i + 1) * d, :d]).astype(dt) for i in range(k)]
    ref = [np.array(x, dtype=np.complex128) for x in ks]
    if via == "kraus_channel":
        return cirq.KrausChannel(ks), ref
    return _user_gate()(tuple(shape), kraus=tuple(ks)), ref


_USER_GATE = None


def _user_gate():
    global _USER_GATE
    if _USER_GATE is None:
        import cirq

        class VfStoredChannel(cirq.Gate):
            """Harness-defined channel (documented extension points _qid_shape_ + _kraus_ / _mixture_)."""

            def __init__(self, shape, kraus=None, mixture=None):
                self._shape, self._ks, self._mix = shape, kraus, mixture

            def _qid_shape_(self):
                return self._shape

            def _kraus_(self):
                return self._ks if self._ks is not None else NotImplemented

            def _mixture_(self):
                return self._mix if self._mix is not None else NotImplemented

            def _has_mixture_(self):
                return self._mix is not None

            def __repr__(self):
                return f"VfStoredChannel(shape={self._shape}, {'kraus' if self._ks is not None else 'mixture'})"

        _USER_GATE = VfStoredChannel
    return _USER_GATE


@st.composite
def _clifford_op(draw, dims):
    n = len(dims)
    qw = [i for i, d in enumerate(dims) if d == 2]
    name = draw(st.sampled_from(["XPow", "YPow", "ZPow", "HPow", "CZPow", "CXPow", "SwapPow", "ISwapPow", "SingleQubitClifford"]))
    if name in ("CZPow", "CXPow", "SwapPow", "ISwapPow") and len(qw) < 2:
        name = "HPow"
    if name == "SingleQubitClifford":
        g = [name, {"i": draw(st.integers(0, 23))}]
    elif name == "HPow":
        g = [name, {"e": draw(st.sampled_from([1.0, -1.0, 3.0, 0.0, 2.0])), "s": draw(G.shifts())}]
    elif name in ("XPow", "YPow", "ZPow"):
        g = [name, {"e": draw(st.sampled_from([0.5, -0.5, 1.0, 1.5, -1.0, 0.0, 2.0, 2.5])), "s": draw(G.shifts())}]
    elif name == "ISwapPow":
        g = [name, {"e": draw(st.sampled_from([1.0, -1.0, 2.0, 3.0, 0.0])), "s": 0.0}]
    else:
        g = [name, {"e": draw(st.sampled_from([1.0, -1.0, 3.0, 0.0, 2.0])), "s": draw(G.shifts())}]
    k = G.arity(g)
    w = list(draw(st.permutations(qw)))[:k]
    return {"g": g, "w": w}


@st.composite
def _cond(draw, measured):
    key = draw(st.sampled_from(sorted(measured)))
    insts = measured[key]
    cnt = len(insts)
    dd = insts[0]
    maxv = 1
    for d in dd:
        maxv *= d
    t = draw(st.sampled_from(["key", "key", "eq", "gt", "bit", "xor", "bitmask", "bitmask", "bitmask"]))
    if t == "key":
        if cnt >= 2 and draw(st.booleans()):
            return {"t": "key", "key": key, "index": draw(st.sampled_from([0, -cnt, cnt - 2, -2]))}  # a non-latest instance
        return {"t": "key", "key": key, "index": draw(st.integers(-cnt, cnt - 1))}
    if t == "eq":
        return {"t": "eq", "key": key, "val": draw(st.integers(0, maxv - 1))}
    if t == "gt":
        return {"t": "gt", "key": key, "val": draw(st.integers(0, maxv - 1))}
    if t == "bit":
        return {"t": "bit", "key": key, "bit": draw(st.integers(0, len(dd) - 1))}
    if t == "xor":
        if len(dd) < 2 or any(d != 2 for d in dd):
            return {"t": "bit", "key": key, "bit": draw(st.integers(0, len(dd) - 1))}
        b = list(draw(st.permutations(list(range(len(dd))))))[:2]
        return {"t": "xor", "key": key, "b0": b[0], "b1": b[1]}
    mask = draw(st.one_of(st.none(), st.integers(0, max(1, 2 ** len(dd) - 1)), st.integers(0, max(1, 2 ** len(dd) - 1))))
    return {"t": "bitmask", "key": key, "index": draw(st.sampled_from([0, -cnt])) if cnt >= 2 and draw(st.booleans()) else draw(st.integers(-cnt, cnt - 1)), "target": draw(st.integers(0, maxv - 1)),
            "equal": draw(st.booleans()), "mask": mask}


# ------------------------------------------------------------------------------------------------ builders


def build_condition(c):
    import cirq
    import sympy

    t = c["t"]
    if t == "key":
        return cirq.KeyCondition(cirq.MeasurementKey(c["key"]), c["index"])
    if t == "eq":
        return cirq.SympyCondition(sympy.Eq(sympy.Symbol(c["key"]), c["val"]))
    if t == "gt":
        return cirq.SympyCondition(sympy.Symbol(c["key"]) > c["val"])
    if t == "bit":
        return cirq.SympyCondition(sympy.Ne(sympy.IndexedBase(c["key"])[c["bit"]], 0))
    if t == "xor":
        a = sympy.IndexedBase(c["key"])
        return cirq.SympyCondition(sympy.Xor(a[c["b0"]], a[c["b1"]]))
    if t == "bitmask":
        return cirq.BitMaskKeyCondition(c["key"], index=c["index"], target_value=c["target"], equal_target=c["equal"], bitmask=c["mask"])
    raise KeyError(t)


def ir_condition(c, key_dims):
    """IR condition; ``key_dims[key]`` = dims tuple of that key's records."""
    t = c["t"]
    if t == "key":
        return {"t": "key", "key": c["key"], "index": c["index"]}
    if t == "eq":
        return {"t": "fn", "f": lambda g, c=c: g(c["key"]) == c["val"]}
    if t == "gt":
        return {"t": "fn", "f": lambda g, c=c: g(c["key"]) > c["val"]}
    if t == "bit":
        def f(g, c=c):
            return _digit(g(c["key"]), key_dims[c["key"]], c["bit"]) != 0
        return {"t": "fn", "f": f}
    if t == "xor":
        def f2(g, c=c):
            d = key_dims[c["key"]]
            return bool(_digit(g(c["key"]), d, c["b0"])) != bool(_digit(g(c["key"]), d, c["b1"]))
        return {"t": "fn", "f": f2}
    if t == "bitmask":
        return {"t": "bitmask", "key": c["key"], "index": c["index"], "target": c["target"], "equal": c["equal"], "mask": c["mask"]}
    raise KeyError(t)


def _digit(value, dims, j):
    """j-th (big-endian) digit of ``value`` in mixed radix ``dims``."""
    digs = []
    for d in reversed(dims):
        digs.append(value % d)
        value //= d
    return digs[::-1][j]


def build(recipe, order=None, strategy=None):
    """-> (circuit, qubits in wire order, IR over axes of ``order`` (default: wire order), key_dims).

    ``strategy``: optional cirq.InsertStrategy used for every append (NEW => one op per moment, recipe order)."""
    import cirq

    qs = GC.qubits_of(recipe)
    n = len(qs)
    order = list(range(n)) if order is None else list(order)
    pos = {w: order.index(w) for w in range(n)}
    c = cirq.Circuit()
    _app = (lambda x: c.append(x)) if strategy is None else (lambda x: c.append(x, strategy=strategy))
    ir = []
    key_dims = {}
    chan_cache = {}
    for o in recipe["ops"]:
        k = o["k"]
        wq = [qs[i] for i in o["w"]]
        ax = [pos[i] for i in o["w"]]
        if k == "g" or k == "cg":
            gate = G.build_gate(o["g"])
            op = gate.on(*wq)
            base = {"t": "u", "m": cirq.unitary(gate), "ax": ax}
            twice = False
            if k == "cg":
                conds = [build_condition(cc) for cc in o["conds"]]
                form = o.get("form", "ccop")
                if form == "if":
                    op = cirq.If(conds if len(conds) > 1 else conds[0], op)
                elif form == "ifnest":
                    op = cirq.If(conds[0], op.with_classical_controls(*conds[1:])) if len(conds) > 1 else cirq.If(conds, cirq.If(conds[0], op))
                elif form == "if2":
                    op = cirq.If(conds, op, op)  # body of two ops: wrapped into a CircuitOperation by cirq.If
                    twice = True
                elif form == "split" and len(conds) > 1:
                    op = op.with_classical_controls(conds[0]).with_classical_controls(*conds[1:])
                else:
                    op = op.with_classical_controls(*conds)
                base = {"t": "c", "conds": [ir_condition(cc, key_dims) for cc in o["conds"]], "op": base}
            _app(op)
            ir.append(base)
            if twice:
                ir.append(base)
        elif k == "ch":
            # equal channel recipes share ONE gate object within a circuit (a value used twice); the reference keeps its own
            # copies of the operators taken when the gate was made
            ck = GC_dumps(o["g"]) + "|" + str([recipe["dims"][i] for i in o["w"]])
            if ck not in chan_cache:
                if o["g"][0] == "Stored":
                    chan_cache[ck] = stored_channel(o["g"][1], [recipe["dims"][i] for i in o["w"]])
                else:
                    gate = G.build_gate(o["g"])
                    chan_cache[ck] = (gate, [np.array(x, dtype=np.complex128) for x in cirq.kraus(gate)])
            gate, ks = chan_cache[ck]
            _app(gate.on(*wq))
            ir.append({"t": "k", "ks": [x.copy() for x in ks], "ax": ax})
        elif k == "r":
            _app(cirq.ResetChannel(dimension=recipe["dims"][o["w"][0]]).on(*wq))
            ir.append({"t": "reset", "ax": ax})
        elif k == "pm":
            from vf.ref import linalg as _L

            dps = cirq.DensePauliString("".join(o["ps"]), coefficient=o["sign"])
            _app(cirq.PauliMeasurementGate(dps, key=o["key"]).on(*wq))
            ir.append({"t": "pm", "key": o["key"], "ax": ax, "obs": _L.pauli_string_matrix(o["ps"], o["sign"])})
            key_dims[o["key"]] = (2,)
        elif k == "m":
            kw = {}
            if o.get("inv"):
                kw["invert_mask"] = tuple(bool(b) for b in o["inv"])
            if o.get("conf"):
                kw["confusion_map"] = {tuple(o["conf"][0]): np.array(o["conf"][1], dtype=float)}
            _app(cirq.measure(*wq, key=o["key"], **kw))
            ir.append({"t": "m", "key": o["key"], "ax": ax, "inv": list(o.get("inv") or []),
                       "conf": [[list(o["conf"][0]), o["conf"][1]]] if o.get("conf") else []})
            key_dims[o["key"]] = tuple(recipe["dims"][i] for i in o["w"])
        else:
            raise KeyError(k)
    return c, qs, ir, key_dims


def is_terminal_only(recipe):
    seen_m = set()
    for o in recipe["ops"]:
        if o["k"] == "m":
            seen_m.update(o["w"])
        elif o["k"] in ("cg", "r", "pm"):
            return False
        elif any(w in seen_m for w in o["w"]):
            return False
    keys = [o["key"] for o in recipe["ops"] if o["k"] == "m"]
    return True


def valid_recipe(r):
    """Structural validity of a (possibly minimised) recipe: the minimiser must not leave the generator's domain."""
    try:
        dims = r["dims"]
        n = len(dims)
        if n < 1 or len(r.get("names", [])) != n:
            return False
        if "order" in r and sorted(r["order"]) != list(range(n)):
            return False
        measured = {}
        for o in r["ops"]:
            w = o.get("w", [])
            if len(set(w)) != len(w) or any(not 0 <= i < n for i in w):
                return False
            k = o["k"]
            if k in ("g", "cg"):
                if o["g"][0] not in G.FAMILIES or len(w) != G.arity(o["g"]) or any(dims[i] != 2 for i in w) and not G.FAMILIES[o["g"][0]].qudit:
                    return False
                if k == "cg":
                    if not o.get("conds") or any(c["key"] not in measured for c in o["conds"]):
                        return False
            elif k == "ch":
                if o["g"][0] == "Stored":
                    if not 1 <= len(w) <= 2 or not 1 <= int(o["g"][1].get("k", 2)) <= 4:
                        return False
                elif o["g"][0] not in G.FAMILIES or len(w) != G.arity(o["g"]):
                    return False
            elif k == "m":
                if not w or len(o.get("inv") or []) > len(w):
                    return False
                dd = tuple(dims[i] for i in w)
                if measured.setdefault(o["key"], dd) != dd:
                    return False
            elif k == "pm":
                if not w or len(o["ps"]) != len(w) or any(dims[i] != 2 for i in w):
                    return False
                if measured.setdefault(o["key"], (2,)) != (2,):
                    return False
            elif k == "r":
                if len(w) != 1:
                    return False
            else:
                return False
        return True
    except (KeyError, TypeError, IndexError, ValueError):
        return False
