"""Core of the PBT runner: sub-checks, task execution, bucketing, minimisation.

A property module ``vf/checks/cNN.py`` exposes ``SUBCHECKS: list[SubCheck]`` and
``RULE: str`` (how cases are generated and what counts as non-trivial) and optionally
``ASSUMPTIONS: list[str]`` and ``KNOWN_FEATURES: dict[str, predicate(sub, recipe)]``.

A *recipe* is plain JSON-able data produced by a Hypothesis strategy.  ``oracle(recipe)``
builds the Cirq objects, runs the code under test and the reference, and
  * returns a dict of labels (``{"nontrivial": bool, ...}``) when the property held,
  * raises ``Violation`` when it did not,
  * raises ``Reject`` when the input is outside the property's domain (counted).
Any other exception is classified by the innermost frame that belongs either to the
repository or to the harness: repository => "crash" violation, harness => harness error.
"""
from __future__ import annotations

import dataclasses
import hashlib
import json
import os
import re
import time
import traceback
from typing import Any, Callable, Dict, Iterable, List, Optional

from . import env


class Violation(Exception):
    """The property does not hold for this case."""


class Reject(Exception):
    """The case is outside the domain of the property (documented rejection etc.)."""

    def __init__(self, reason: str = "reject"):
        super().__init__(reason)
        self.reason = reason


@dataclasses.dataclass
class SubCheck:
    name: str
    strategy: Any  # hypothesis SearchStrategy producing JSON-able recipes (or None)
    oracle: Callable[[Any], Optional[dict]]
    quick: int = 200  # total generated cases in the quick tier (all shards)
    thorough: int = 5000
    shards_quick: int = 4
    shards_thorough: int = 16
    examples: List[Any] = dataclasses.field(default_factory=list)  # always run first
    # finite domain: callable(tier) -> list of recipes, split over shards; ``exhaustive_in``
    # names the tiers in which the enumeration is complete.
    enumerate: Optional[Callable[[str], List[Any]]] = None
    exhaustive_in: tuple = ()
    essential: Dict[str, float] = dataclasses.field(default_factory=dict)  # label -> min fraction
    time_quick: float = 150.0  # soft wall budget per shard (s); hitting it = inconclusive rest
    time_thorough: float = 1500.0
    doc: str = ""
    # dict keys whose values the JSON minimiser must not touch (structural fields whose mutation makes recipes invalid)
    frozen_keys: tuple = ("dims", "names", "order", "qkind")
    valid: Optional[Callable[[Any], bool]] = None  # extra validity predicate for minimiser candidates


def canon(x):
    """Canonical JSON-able form of a recipe (tuples -> lists, numpy scalars -> python)."""
    if isinstance(x, dict):
        return {str(k): canon(v) for k, v in x.items()}
    if isinstance(x, (list, tuple)):
        return [canon(v) for v in x]
    if isinstance(x, (str, bool)) or x is None:
        return x
    if isinstance(x, int):
        return int(x)
    if isinstance(x, float):
        return float(x)
    if isinstance(x, complex):
        return {"__complex__": [x.real, x.imag]}
    try:
        import numpy as np

        if isinstance(x, np.generic):
            return canon(x.item())
        if isinstance(x, np.ndarray):
            return canon(x.tolist())
    except Exception:
        pass
    raise TypeError(f"recipe contains non JSON-able value {type(x)}")


def dumps(x) -> str:
    return json.dumps(canon(x), sort_keys=True, allow_nan=True)


def recipe_hash(x) -> str:
    return hashlib.blake2b(dumps(x).encode(), digest_size=8).hexdigest()


def derive_seed(*parts) -> int:
    h = hashlib.blake2b("|".join(str(p) for p in parts).encode(), digest_size=8).digest()
    return int.from_bytes(h, "big") % (2**63)


_NUM = re.compile(r"-?\d+\.?\d*(e[-+]?\d+)?j?")


def _norm_msg(msg: str) -> str:
    first = msg.strip().splitlines()[0] if msg.strip() else ""
    return _NUM.sub("#", first)[:120]


def classify_exception(e: BaseException):
    """-> (kind, where) with kind in {'crash', 'harness'}."""
    tb = traceback.extract_tb(e.__traceback__)
    where = None
    kind = "harness"
    for fr in tb:
        if env.in_repo(fr.filename):
            kind, where = "crash", f"{os.path.relpath(fr.filename, env.REPO)}:{fr.name}"
        elif env.in_harness(fr.filename):
            kind, where = "harness", f"{os.path.relpath(fr.filename, env.VERIF)}:{fr.name}:{fr.lineno}"
    return kind, where


@dataclasses.dataclass
class Outcome:
    status: str  # ok | reject | violation | crash | harness
    labels: dict = dataclasses.field(default_factory=dict)
    msg: str = ""
    bucket: str = ""
    reason: str = ""
    tb: str = ""


class _CaseTimeout(BaseException):
    pass


CASE_TIMEOUT_S = int(os.environ.get("VERIF_CASE_TIMEOUT", "120"))


def _on_alarm(signum, frame):
    raise _CaseTimeout()


def evaluate(sub: SubCheck, recipe) -> Outcome:
    """One case.  A hard per-case wall limit (SIGALRM, main thread of the worker) turns a case that does not come back into a
    counted rejection ("inconclusive"), never into a violation and never into a check that hangs on a broken tree."""
    import signal
    import threading

    use_alarm = CASE_TIMEOUT_S > 0 and threading.current_thread() is threading.main_thread() and hasattr(signal, "SIGALRM")
    if use_alarm:
        old = signal.signal(signal.SIGALRM, _on_alarm)
        signal.alarm(CASE_TIMEOUT_S)
    try:
        return _evaluate(sub, recipe)
    except _CaseTimeout:
        return Outcome("reject", reason=f"case exceeded {CASE_TIMEOUT_S}s wall (inconclusive)")
    finally:
        if use_alarm:
            signal.alarm(0)
            signal.signal(signal.SIGALRM, old)


def _evaluate(sub: SubCheck, recipe) -> Outcome:
    try:
        labels = sub.oracle(recipe) or {}
        return Outcome("ok", labels=labels)
    except Reject as r:
        return Outcome("reject", reason=r.reason)
    except Violation as v:
        msg = str(v)
        return Outcome("violation", msg=msg, bucket=f"{sub.name}|violation|{_norm_msg(msg)}")
    except (KeyboardInterrupt, SystemExit, MemoryError, _CaseTimeout):
        raise
    except BaseException as e:  # noqa
        kind, where = classify_exception(e)
        msg = f"{type(e).__name__}: {e}"
        tb = "".join(traceback.format_exception(type(e), e, e.__traceback__))[-3000:]
        if kind == "crash":
            return Outcome(
                "crash",
                msg=f"unexpected exception from repository code at {where}: {msg}",
                bucket=f"{sub.name}|crash|{type(e).__name__}|{where}",
                tb=tb,
            )
        return Outcome("harness", msg=f"harness exception at {where}: {msg}", bucket=f"{sub.name}|harness|{where}", tb=tb)


# ---------------------------------------------------------------------------------------
# generic JSON delta-debugging minimiser (used instead of / after Hypothesis' shrinker)


def _paths(x, prefix=()):
    yield prefix, x
    if isinstance(x, dict):
        for k in sorted(x):
            yield from _paths(x[k], prefix + (k,))
    elif isinstance(x, list):
        for i, v in enumerate(x):
            yield from _paths(v, prefix + (i,))


def _get(x, path):
    for p in path:
        x = x[p]
    return x


def _set(x, path, val):
    if not path:
        return val
    x = json.loads(json.dumps(x))
    cur = x
    for p in path[:-1]:
        cur = cur[p]
    cur[path[-1]] = val
    return x


def _candidates(recipe, frozen=()):
    """Yield simpler variants of a recipe, most aggressive first."""
    items = [(p, v) for p, v in _paths(recipe) if not any(k in frozen for k in p)]
    # remove chunks / single elements of lists
    for path, v in items:
        if isinstance(v, list) and len(v) > 0:
            n = len(v)
            if n > 3:
                yield _set(recipe, path, v[: n // 2])
                yield _set(recipe, path, v[n // 2 :])
            for i in range(n):
                yield _set(recipe, path, v[:i] + v[i + 1 :])
    # simplify scalars
    for path, v in items:
        if isinstance(v, bool):
            if v:
                yield _set(recipe, path, False)
        elif isinstance(v, int):
            for c in (0, 1, v // 2, v - 1):
                if c != v and abs(c) < abs(v):
                    yield _set(recipe, path, c)
        elif isinstance(v, float):
            for c in (0.0, 1.0, 0.5, 0.25, float(round(v)), round(v, 1), round(v, 3)):
                if c != v:
                    yield _set(recipe, path, c)


def minimise(sub: SubCheck, recipe, bucket: str, max_calls: int = 300, max_s: float = 40.0):
    recipe = json.loads(dumps(recipe))
    size = len(dumps(recipe))
    t0 = time.time()
    calls = 0
    improved = True
    while improved and calls < max_calls and time.time() - t0 < max_s:
        improved = False
        for cand in _candidates(recipe, sub.frozen_keys):
            if calls >= max_calls or time.time() - t0 > max_s:
                break
            s = len(dumps(cand))
            if s >= size and dumps(cand) >= dumps(recipe):
                continue
            if sub.valid is not None:
                try:
                    if not sub.valid(cand):
                        continue
                except Exception:
                    continue
            calls += 1
            try:
                out = evaluate(sub, cand)
            except BaseException:
                continue
            if out.status in ("violation", "crash") and out.bucket == bucket:
                recipe, size = cand, s
                improved = True
                break
    return recipe, calls


# ---------------------------------------------------------------------------------------
# one task = (sub-check, shard)


def run_task(prop_id: str, sub_name: str, shard: int, nshards: int, tier: str, base_seed: int,
             known_features: Dict[str, str]):
    """Runs inside a worker process.  Returns a JSON-able dict of statistics and failures."""
    import hypothesis
    from hypothesis import HealthCheck, Phase, given, settings

    from . import registry

    mod = registry.load(prop_id)
    sub = next(s for s in mod.SUBCHECKS if s.name == sub_name)
    feats = getattr(mod, "KNOWN_FEATURES", {})
    active = {k: feats[k] for k in known_features if k in feats}

    t0 = time.time()
    budget = sub.time_quick if tier == "quick" else sub.time_thorough
    st = {
        "sub": sub_name, "shard": shard, "evaluations": 0, "ok": 0, "rejects": {}, "labels": {},
        "excluded": {}, "nontrivial_hashes": [], "samples": [], "failures": {}, "harness": [],
        "budget_hit": False, "enumerated": 0, "enum_total": 0,
    }
    nontriv = set()
    seen = set()

    def one(recipe):
        if time.time() - t0 > budget:
            st["budget_hit"] = True
            return
        st["evaluations"] += 1
        for k, pred in active.items():
            try:
                hit = pred(sub_name, recipe)
            except Exception:
                hit = False
            if hit:
                st["excluded"][k] = st["excluded"].get(k, 0) + 1
                return
        out = evaluate(sub, recipe)
        if out.status == "ok":
            st["ok"] += 1
            h = recipe_hash(recipe)
            for lk, lv in out.labels.items():
                if isinstance(lv, bool):
                    if lv:
                        st["labels"][lk] = st["labels"].get(lk, 0) + 1
                elif isinstance(lv, (int, str)):
                    key = f"{lk}={lv}"
                    st["labels"][key] = st["labels"].get(key, 0) + 1
            if out.labels.get("nontrivial"):
                if h not in nontriv:
                    nontriv.add(h)
                    if len(st["samples"]) < 3:
                        st["samples"].append({"subcheck": sub_name, "recipe": _trim(canon(recipe)),
                                              "labels": {k: v for k, v in out.labels.items()}})
            elif h not in seen and len(st["samples"]) < 1 and False:
                pass
            seen.add(h)
        elif out.status == "reject":
            st["rejects"][out.reason] = st["rejects"].get(out.reason, 0) + 1
        elif out.status in ("violation", "crash"):
            b = st["failures"].setdefault(out.bucket, {"count": 0, "recipe": None, "msg": out.msg,
                                                       "kind": out.status, "tb": out.tb})
            b["count"] += 1
            r = canon(recipe)
            if b["recipe"] is None or len(dumps(r)) < len(dumps(b["recipe"])):
                b["recipe"], b["msg"], b["tb"] = r, out.msg, out.tb
        else:
            if len(st["harness"]) < 5:
                st["harness"].append({"msg": out.msg, "tb": out.tb, "recipe": _trim(canon(recipe))})

    # explicit examples (regression inputs of fixed findings etc.) -- shard 0 only
    if shard == 0:
        for ex in sub.examples:
            one(ex)

    if sub.enumerate is not None:
        allr = sub.enumerate(tier)
        st["enum_total"] = len(allr)
        for i in range(shard, len(allr), nshards):
            one(allr[i])
            st["enumerated"] += 1

    total = sub.quick if tier == "quick" else sub.thorough
    n = (total + nshards - 1) // nshards if sub.strategy is not None else 0
    if n > 0:
        sd = derive_seed(base_seed, prop_id, sub_name, shard, tier)

        @hypothesis.seed(sd)
        @settings(
            max_examples=n, deadline=None, database=None, derandomize=False,
            report_multiple_bugs=False, phases=[Phase.generate],
            suppress_health_check=list(HealthCheck),
        )
        @given(recipe=sub.strategy)
        def prop(recipe):
            one(recipe)

        try:
            prop()
        except (hypothesis.errors.Unsatisfiable, hypothesis.errors.FailedHealthCheck) as e:
            st["harness"].append({"msg": f"hypothesis: {type(e).__name__}: {e}", "tb": "", "recipe": None})

    # minimise one representative per bucket
    # (bounded per bucket AND per task: a broken tree can produce hundreds of buckets, and a check must fail fast then;
    #  buckets beyond the budget keep their unminimised recipe, which replays just the same)
    calls, secs, total_s = (250, 30.0, 90.0) if tier == "quick" else (1500, 240.0, 900.0)
    tmin0 = time.time()
    for bucket, b in st["failures"].items():
        left = total_s - (time.time() - tmin0)
        if left <= 1.0:
            break
        try:
            small, _ = minimise(sub, b["recipe"], bucket, max_calls=calls, max_s=min(secs, left))
            out = evaluate(sub, small)
            if out.status in ("violation", "crash"):
                b["recipe"], b["msg"], b["tb"] = small, out.msg, out.tb
        except Exception:
            pass
    st["nontrivial_hashes"] = sorted(nontriv)
    st["wall_s"] = time.time() - t0
    return st


def _trim(x, maxlen=1500):
    s = dumps(x)
    if len(s) <= maxlen:
        return x
    return {"truncated": s[:maxlen] + "..."}
