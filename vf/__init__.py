"""Verification framework for quantumlib/Cirq: property-based testing / fuzzing.

See /verif/DESIGN.md.  Entry point: ``python -m vf.run <property> --tier quick``.
"""
