"""Loads property modules and the committed known-findings file."""
from __future__ import annotations

import importlib
import json
import os

from . import env

_cache = {}


def load(prop_id: str):
    if prop_id not in _cache:
        env.setup()
        _cache[prop_id] = importlib.import_module(f"vf.checks.{prop_id.lower()}")
    return _cache[prop_id]


def known_findings():
    path = os.path.join(env.VERIF, "known_findings.json")
    if not os.path.exists(path):
        return []
    with open(path) as f:
        return json.load(f)["findings"]
