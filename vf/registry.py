"""Loads property modules and the committed known-findings file."""
from __future__ import annotations

import importlib
import json
import os

from . import env

_cache = {}


def load(prop_id: str):
    if prop_id not in _cache:
        env.setup()
        _cache[prop_id] = importlib.import_module(f"vf.checks.{prop_id.lower()}")
    return _cache[prop_id]


def known_findings():
    """Committed list of genuine defects: /verif/known_findings.json plus one file per property under /verif/findings/.

    Entry: {property, key, status: "known"|"fixed", subcheck, what, recipe[, commit][, feature, error_regex]}.
    Never written at run time."""
    out = []
    path = os.path.join(env.VERIF, "known_findings.json")
    if os.path.exists(path):
        with open(path) as f:
            out += json.load(f)["findings"]
    d = os.path.join(env.VERIF, "findings")
    if os.path.isdir(d):
        for name in sorted(os.listdir(d)):
            if name.endswith(".json"):
                with open(os.path.join(d, name)) as f:
                    doc = json.load(f)
                out += doc["findings"] if isinstance(doc, dict) else doc
    return out
