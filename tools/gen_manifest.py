#!/usr/bin/env python3
"""Regenerates /verif/MANIFEST.json from the check modules that exist (run: /venv/bin/python tools/gen_manifest.py)."""
import json
import os
import sys

HERE = os.path.dirname(os.path.dirname(os.path.abspath(__file__)))
sys.path.insert(0, HERE)

props = [json.loads(l) for l in open(os.path.join(HERE, "properties.jsonl"))]
meta_path = os.path.join(HERE, "tools", "manifest_meta.json")
meta = json.load(open(meta_path)) if os.path.exists(meta_path) else {}

ready_path = os.path.join(HERE, "tools", "ready.txt")
ready = set(open(ready_path).read().split()) if os.path.exists(ready_path) else None
checks, na = [], []
for p in props:
    pid = p["id"]
    mod = os.path.join(HERE, "vf", "checks", pid.lower() + ".py")
    m = meta.get(pid, {})
    if os.path.exists(mod) and not m.get("not_applicable") and (ready is None or pid in ready):
        checks.append({
            "property_id": pid,
            "quick_cmd": f"/venv/bin/python -m vf.run {pid} --tier quick",
            "thorough_cmd": f"/venv/bin/python -m vf.run {pid} --tier thorough",
            "evidence_file": f"/verif/evidence/{pid}.json",
            "replay_cmd_template": f"/venv/bin/python -m vf.run {pid} --replay {{path}}",
            "engine": "vf",
            "level_claimed": {
                "category": m.get("category", "exploration"),
                "text": m.get("text", "Generated-input search (Hypothesis) against an explicit independent oracle; finds violations, never proves absence."),
                "design_ref": f"DESIGN.md section 3, {pid}",
            },
            "level_note": m.get("note", "Reference models in vf/ref (plain numpy) and the documented semantics they encode; float tolerances stated in the evidence."),
            "technique": m.get("technique", "property-based testing (Hypothesis) with independent reference oracle"),
        })
    else:
        na.append({"property_id": pid, "reason": m.get("not_applicable", "check not built yet in this session (work in progress; technique applies)")})

manifest = {
    "version": 1,
    "setup_cmd": "/venv/bin/python -c 'import hypothesis' 2>/dev/null || /venv/bin/pip install --no-index --find-links /opt/veriftools/wheels hypothesis",
    "hooks": {
        "guard": "CIRQ_VERIF_HOOKS",
        "enable": "no hooks: every observation point is public API; checks import /repo's working tree directly (pure Python, no build step)",
        "baseline_off_cmd": "cd /repo && /venv/bin/python -m pytest -ra -q -p no:cacheprovider --timeout=900 --continue-on-collection-errors",
        "source_commits": [],
        "add_only": True,
    },
    "engines": [{
        "name": "vf", "path": "/verif/vf", "serves_properties": [c["property_id"] for c in checks],
        "kind_free_text": "Hypothesis-driven property-based testing runner: JSON recipes, independent numpy reference models, scripted PRNG for exact distributions, bucketing + JSON delta-debugging, replay files",
    }],
    "checks": checks,
    "not_applicable": na,
    "notes": "python -m vf.run <ID> --tier quick|thorough; exit 0 held, 1 VIOLATION, 2 harness error. VERIF_SEED respected. known_findings.json lists repaired (fixed:) and recorded defects.",
}
json.dump(manifest, open(os.path.join(HERE, "MANIFEST.json"), "w"), indent=1)
print("checks:", [c["property_id"] for c in checks], "not_applicable:", [n["property_id"] for n in na])
