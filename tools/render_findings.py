#!/usr/bin/env python3
"""Renders known_findings.json + findings/*.json into KNOWN_FINDINGS.txt (one line per entry, the literal format of the brief).
Run by hand after editing the JSON files; checks never write these files."""
import os, sys
HERE = os.path.dirname(os.path.dirname(os.path.abspath(__file__)))
sys.path.insert(0, HERE)
os.environ.setdefault("VERIF_REPO", "/repo")
from vf import registry  # noqa: E402

lines = ["# Genuine defects found by the checks (generated from known_findings.json and findings/*.json by tools/render_findings.py).",
         "# 'fixed' entries: repaired by the named fix: commit in /repo, replayed as explicit regression examples, suppress nothing.",
         "# 'known' entries: recorded, not repaired; the named feature is excluded from generation and a KNOWN-FINDING line is printed", "# while the stored input still fails.", ""]
ents = sorted(registry.known_findings(), key=lambda x: (x["property"], x["status"], x["key"]))
for x in ents:
    what = " ".join(str(x["what"]).split())
    if x["status"] == "fixed":
        lines.append(f"fixed: property={x['property']} {x.get('commit','')} [{x['key']}] {what}")
    else:
        lines.append(f"known: property={x['property']} [{x['key']}] feature={x.get('feature')} sub-check={x.get('subcheck')}: {what}")
open(os.path.join(HERE, "KNOWN_FINDINGS.txt"), "w").write("\n".join(lines) + "\n")
print(len(ents), "entries")
