#!/usr/bin/env python3
"""Runs the checks against the seeded breaking changes kept under /verif/seeded/<PROP>/<name>/.

Each directory holds patch.diff (breaks the property, keeps the repository's tests green), demo.py (exit 0 on the clean
tree, exit 1 with the patch; reads CIRQ_ROOT) and meta.json.  For every patch: scratch copy of /repo's packages under /tmp,
apply, run the demo on both trees, run the property's quick check against the copy (expects exit 1), remove the copy.

  tools/seeded.py [PROP ...] [--also C04,C08]   # --also: additionally run these checks against every patch
"""
import argparse
import json
import os
import shutil
import subprocess
import sys

sys.path.insert(0, os.path.dirname(os.path.abspath(__file__)))
import mutant  # noqa: E402

VERIF = mutant.VERIF


def main():
    ap = argparse.ArgumentParser()
    ap.add_argument("props", nargs="*")
    ap.add_argument("--also", default="")
    ap.add_argument("--scale", type=float)
    ap.add_argument("--write", action="store_true", help="write seeded/RESULTS.json")
    a = ap.parse_args()
    root = os.path.join(VERIF, "seeded")
    props = a.props or sorted(d for d in os.listdir(root) if os.path.isdir(os.path.join(root, d)))
    rows = []
    for prop in props:
        pdir = os.path.join(root, prop)
        for name in sorted(os.listdir(pdir)):
            d = os.path.join(pdir, name)
            patch = os.path.join(d, "patch.diff")
            if not os.path.exists(patch):
                continue
            copy = mutant.make_copy()
            try:
                r = subprocess.run(["patch", "-p1", "-s", "-d", copy, "-i", patch], capture_output=True, text=True)
                if r.returncode != 0:
                    rows.append({"property": prop, "seed": name, "error": "patch does not apply: " + r.stdout[-300:]})
                    print(f"PATCH-FAILED   {prop}/{name}")
                    continue
                demo = os.path.join(d, "demo.py")
                demo_clean = demo_patched = None
                if os.path.exists(demo):
                    demo_clean = subprocess.run(["/venv/bin/python", demo], env=dict(os.environ, CIRQ_ROOT="/repo"), capture_output=True, text=True, timeout=900).returncode
                    demo_patched = subprocess.run(["/venv/bin/python", demo], env=dict(os.environ, CIRQ_ROOT=copy), capture_output=True, text=True, timeout=900).returncode
                res = {}
                for chk in [prop] + [c for c in a.also.split(",") if c]:
                    rc, out = mutant.run_check(chk, copy, scale=a.scale)
                    first = next((l.strip() for l in out.splitlines() if l.strip().startswith("[")), "")
                    res[chk] = {"exit": rc, "first": first[:300]}
                status = "DETECTED" if res[prop]["exit"] == 1 else ("MISSED" if res[prop]["exit"] == 0 else f"rc={res[prop]['exit']}")
                print(f"{status:10s} {prop}/{name}  demo clean={demo_clean} patched={demo_patched}  {res[prop]['first'][:160]}")
                rows.append({"property": prop, "seed": name, "demo_exit_clean": demo_clean, "demo_exit_patched": demo_patched, "checks": res})
            finally:
                shutil.rmtree(copy, ignore_errors=True)
    if a.write:
        json.dump(rows, open(os.path.join(root, "RESULTS.json"), "w"), indent=1)
    return 0 if all(r.get("checks", {}).get(r["property"], {}).get("exit") == 1 for r in rows) else 1


if __name__ == "__main__":
    sys.exit(main())
