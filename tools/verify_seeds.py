#!/usr/bin/env python3
"""Coordinator-side confirmation of every seeded change: demo fails with / passes without the patch, the patch applies to
the current /repo, and the pinned baseline still passes with it (run on a full scratch copy for patches that touch anything
the baseline can see; patches touching only cirq-core are invisible to the baseline, which imports core from site-packages).
Writes the result into each meta.json under "verified_by_coordinator".  Scratch copies live under /tmp and are removed."""
import json
import os
import re
import shutil
import subprocess
import sys
import tempfile

VERIF = os.path.dirname(os.path.dirname(os.path.abspath(__file__)))
BASE = json.load(open("/root/.vp/BASELINE.json"))


def baseline_on(copy):
    """-> (set of failed/errored test ids, summary line).  The scratch copy has no .git, so a few dev_tools tests fail there
    regardless of any patch: the comparison is against the same run on an UNPATCHED scratch copy."""
    cmd = f"cd {copy} && /venv/bin/python -m pytest -ra -q -p no:cacheprovider --timeout=900 --continue-on-collection-errors"
    r = subprocess.run(cmd, shell=True, capture_output=True, text=True)
    lines = r.stdout.strip().splitlines()
    tail = lines[-1] if lines else ""
    bad = {l.split(" - ")[0].strip() for l in lines if l.startswith(("FAILED ", "ERROR "))}
    return bad, tail


_CLEAN = {}


def clean_reference():
    if not _CLEAN:
        copy = tempfile.mkdtemp(prefix="vfseed.")
        try:
            subprocess.check_call(["rsync", "-a", "--exclude", ".git", "--exclude", "__pycache__", "/repo/", copy + "/"])
            _CLEAN["bad"], _CLEAN["tail"] = baseline_on(copy)
        finally:
            shutil.rmtree(copy, ignore_errors=True)
    return _CLEAN["bad"], _CLEAN["tail"]


def main():
    root = os.path.join(VERIF, "seeded")
    only = sys.argv[1:]
    for prop in sorted(os.listdir(root)):
        pdir = os.path.join(root, prop)
        if not os.path.isdir(pdir) or (only and prop not in only):
            continue
        for name in sorted(os.listdir(pdir)):
            d = os.path.join(pdir, name)
            patch = os.path.join(d, "patch.diff")
            if not os.path.exists(patch) or (os.environ.get("NAMES") and name not in os.environ["NAMES"].split(",")):
                continue
            files = re.findall(r"^\+\+\+ b/(\S+)", open(patch).read(), re.M)
            visible = [f for f in files if not f.startswith("cirq-core/")]
            if os.environ.get("ONLY_VISIBLE") and not visible:
                continue
            res = {"files": files}
            copy = tempfile.mkdtemp(prefix="vfseed.")
            try:
                subprocess.check_call(["rsync", "-a", "--exclude", ".git", "--exclude", "__pycache__", "/repo/", copy + "/"])
                ap = subprocess.run(["patch", "-p1", "-s", "-d", copy, "-i", patch], capture_output=True, text=True)
                res["applies_to_current_repo"] = ap.returncode == 0
                demo = os.path.join(d, "demo.py")
                res["demo_exit_clean"] = subprocess.run(["/venv/bin/python", demo], env=dict(os.environ, CIRQ_ROOT="/repo"), capture_output=True).returncode
                res["demo_exit_patched"] = subprocess.run(["/venv/bin/python", demo], env=dict(os.environ, CIRQ_ROOT=copy), capture_output=True).returncode
                if visible and ap.returncode == 0:
                    ref_bad, ref_tail = clean_reference()
                    bad, tail = baseline_on(copy)
                    res["baseline_with_patch"] = tail
                    res["baseline_same_copy_without_patch"] = ref_tail
                    res["new_failures_with_patch"] = sorted(x.replace(copy, "<copy>") for x in bad - ref_bad)
                    res["baseline_ok"] = not (bad - ref_bad)
                else:
                    res["baseline_with_patch"] = "patch touches only cirq-core: the pinned baseline imports cirq core from site-packages and cannot observe it (core tests of the touched modules were run by the author, see tests_run)"
                    res["baseline_ok"] = True
            finally:
                shutil.rmtree(copy, ignore_errors=True)
            mp = os.path.join(d, "meta.json")
            meta = json.load(open(mp)) if os.path.exists(mp) else {}
            meta["verified_by_coordinator"] = res
            json.dump(meta, open(mp, "w"), indent=1)
            print(prop, name, {k: v for k, v in res.items() if k != "files"}, flush=True)


if __name__ == "__main__":
    main()
