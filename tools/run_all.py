#!/usr/bin/env python3
"""Runs the quick (or thorough) tier of every check listed in MANIFEST.json once per seed and prints a summary table.

  tools/run_all.py [--seeds 1,2,3] [--tier quick] [--props C01,C02] [--no-evidence]
"""
import argparse
import json
import os
import subprocess
import sys
import time

VERIF = os.path.dirname(os.path.dirname(os.path.abspath(__file__)))


def main():
    ap = argparse.ArgumentParser()
    ap.add_argument("--seeds", default="1")
    ap.add_argument("--tier", default="quick")
    ap.add_argument("--props", default="")
    ap.add_argument("--no-evidence", action="store_true")
    ap.add_argument("--hashseed", default="", help="run with this PYTHONHASHSEED instead of 0 (robustness experiment)")
    ap.add_argument("--all-modules", action="store_true", help="every vf/checks/cNN.py, not only MANIFEST checks")
    a = ap.parse_args()
    if a.props:
        props = a.props.split(",")
    elif a.all_modules:
        props = sorted(f[:-3].upper() for f in os.listdir(os.path.join(VERIF, "vf", "checks")) if f.startswith("c") and f.endswith(".py"))
    else:
        props = [c["property_id"] for c in json.load(open(os.path.join(VERIF, "MANIFEST.json")))["checks"]]
    bad = 0
    for seed in a.seeds.split(","):
        for p in props:
            cmd = ["/venv/bin/python", "-m", "vf.run", p, "--tier", a.tier] + (["--no-evidence"] if a.no_evidence else [])
            t0 = time.time()
            r = subprocess.run(cmd, cwd=VERIF, env=dict(os.environ, VERIF_SEED=seed, **({"VERIF_HASHSEED": a.hashseed} if a.hashseed else {})), capture_output=True, text=True)
            dt = time.time() - t0
            head = next((l for l in r.stdout.splitlines() if l.startswith("==")), "")
            known = sum(1 for l in r.stdout.splitlines() if l.startswith("KNOWN-FINDING"))
            flags = " ".join(sorted({w for l in r.stdout.splitlines() for w in ("BUDGET-HIT", "WARNING") if w in l}))
            print(f"{p} seed={seed} exit={r.returncode} wall={dt:6.1f}s known={known} {flags} {head[head.find('evaluations'):]}", flush=True)
            if r.returncode != 0:
                bad += 1
                for l in r.stdout.splitlines():
                    if l.startswith(("VIOLATION", "HARNESS", "   [")):
                        print("      " + l[:260])
                if r.stderr.strip():
                    print("      stderr: " + r.stderr.strip()[-400:])
    return 1 if bad else 0


if __name__ == "__main__":
    sys.exit(main())
