#!/usr/bin/env python3
"""Robustness of the checks against BENIGN changes: applies a semantics-preserving transformation to a scratch copy of the
packages and runs the quick checks against it; every check must still exit 0.

  tools/benign.py messages [PROPS...]   # prefixes the text of (single-line) exception messages in all non-test source files
"""
import os, re, shutil, subprocess, sys
sys.path.insert(0, os.path.dirname(os.path.abspath(__file__)))
import mutant

PAT = re.compile(r"""(raise\s+\w*(?:Error|Exception)\(\s*)(f?r?)(['"])(?!\3)""")


def reword_messages(root):
    n = 0
    for d, _, files in os.walk(root):
        for f in files:
            if not f.endswith(".py") or f.endswith("_test.py") or "_pb2" in f:
                continue
            p = os.path.join(d, f)
            s = open(p).read()
            s2, k = PAT.subn(lambda m: m.group(1) + m.group(2) + m.group(3) + "~reworded~ ", s)
            if k:
                open(p, "w").write(s2)
                n += k
    return n


def main():
    kind = sys.argv[1]
    props = sys.argv[2:] or [f[:-3].upper() for f in sorted(os.listdir(os.path.join(mutant.VERIF, "vf", "checks"))) if f.startswith("c") and f.endswith(".py")]
    copy = mutant.make_copy()
    try:
        if kind == "messages":
            print("reworded", reword_messages(copy), "exception messages")
        else:
            raise SystemExit("unknown transformation")
        r = subprocess.run(["/venv/bin/python", "-c", "import sys; sys.path[:0]=[sys.argv[1]+'/cirq-core',sys.argv[1]+'/cirq-google',sys.argv[1]+'/cirq-ionq',sys.argv[1]+'/cirq-aqt',sys.argv[1]+'/cirq-pasqal']; import cirq, cirq_google, cirq_ionq, cirq_aqt, cirq_pasqal; print('imports ok', cirq.__file__)", copy], capture_output=True, text=True)
        print(r.stdout.strip() or r.stderr[-500:])
        bad = 0
        for p in props:
            rc, out = mutant.run_check(p, copy)
            print(f"{p} exit={rc}", flush=True)
            if rc != 0:
                bad += 1
                for l in out.splitlines():
                    if l.startswith(("VIOLATION", "HARNESS", "   [")):
                        print("     " + l[:300])
        return 1 if bad else 0
    finally:
        shutil.rmtree(copy, ignore_errors=True)


if __name__ == "__main__":
    sys.exit(main())
