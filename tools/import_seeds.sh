#!/bin/sh
# tools/import_seeds.sh P... : copies round-2 seeds /tmp/seed2/<P>/SEED/<i> to /verif/seeded/<P>/<i+2>
for P in "$@"; do
  for i in 1 2; do
    src=/tmp/seed2/$P/SEED/$i
    [ -f $src/patch.diff ] || { echo "missing $src"; continue; }
    dst=/verif/seeded/$P/$((i+2))
    mkdir -p $dst && cp $src/patch.diff $src/demo.py $src/meta.json $dst/ && echo "imported $dst"
  done
done
