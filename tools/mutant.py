#!/usr/bin/env python3
"""Sensitivity protocol (DESIGN 1.7): run a check against a scratch copy of /repo with one mutation applied.

  tools/mutant.py C01 --file cirq-core/cirq/ops/common_gates.py --old 'A' --new 'B' [--only sub] [--scale 0.5]
  tools/mutant.py C01 --patch /path/to/patch.diff
  tools/mutant.py C01 --table mutants/c01.json      # [{"name","file","old","new"[, "only"]}, ...] -> kill table

The scratch copy lives under /tmp and is always removed.  Exit 0 iff every mutant was detected (check exit 1).
"""
import argparse
import json
import os
import shutil
import subprocess
import sys
import tempfile

VERIF = os.path.dirname(os.path.dirname(os.path.abspath(__file__)))
REPO = "/repo"
PKGS = ["cirq-core", "cirq-google", "cirq-ionq", "cirq-aqt", "cirq-pasqal"]


def make_copy():
    d = tempfile.mkdtemp(prefix="vfmut.")
    for p in PKGS:
        subprocess.check_call(["rsync", "-a", "--exclude", "__pycache__", "--exclude", "docs", os.path.join(REPO, p), d + "/"])
    return d


def run_check(prop, repo, only=None, scale=None, tier="quick", seed=None, timeout=1800):
    cmd = ["/venv/bin/python", "-m", "vf.run", prop, "--tier", tier, "--no-evidence"]
    if only:
        cmd += ["--only", only]
    if scale:
        cmd += ["--scale", str(scale)]
    env = dict(os.environ, VERIF_REPO=repo)
    if seed is not None:
        env["VERIF_SEED"] = str(seed)
    import signal

    # own process group: on a timeout the worker pool is killed with the parent (no orphans keeping cores busy)
    proc = subprocess.Popen(cmd, cwd=VERIF, env=env, stdout=subprocess.PIPE, stderr=subprocess.STDOUT, text=True, start_new_session=True)
    try:
        out, _ = proc.communicate(timeout=timeout)
    except subprocess.TimeoutExpired:
        try:
            os.killpg(proc.pid, signal.SIGKILL)
        except ProcessLookupError:
            pass
        proc.communicate()
        return 124, "timeout"
    return proc.returncode, out


def apply_sub(repo, file, old, new, count=1):
    path = os.path.join(repo, file)
    s = open(path).read()
    if old not in s:
        raise SystemExit(f"mutant text not found in {file}: {old[:60]!r}")
    s = s.replace(old, new, count)
    open(path, "w").write(s)


def main():
    ap = argparse.ArgumentParser()
    ap.add_argument("prop")
    ap.add_argument("--file")
    ap.add_argument("--old")
    ap.add_argument("--new")
    ap.add_argument("--patch")
    ap.add_argument("--table")
    ap.add_argument("--only")
    ap.add_argument("--scale", type=float)
    ap.add_argument("--tier", default="quick")
    ap.add_argument("--seed", type=int)
    ap.add_argument("-v", action="store_true")
    a = ap.parse_args()
    muts = []
    if a.table:
        muts = json.load(open(a.table))
    elif a.patch:
        muts = [{"name": os.path.basename(a.patch), "patch": a.patch, "only": a.only}]
    else:
        muts = [{"name": "cli", "file": a.file, "old": a.old, "new": a.new, "only": a.only}]
    allok = True
    for m in muts:
        d = make_copy()
        try:
            if m.get("patch"):
                subprocess.check_call(["patch", "-p1", "-s", "-d", d, "-i", os.path.abspath(m["patch"])])
            else:
                apply_sub(d, m["file"], m["old"], m["new"])
            rc, out = run_check(a.prop, d, m.get("only") or a.only, a.scale, a.tier, a.seed)
        finally:
            shutil.rmtree(d, ignore_errors=True)
        lines = [l for l in out.splitlines() if l.startswith("VIOLATION") or l.startswith("   [") or l.startswith("HARNESS")]
        status = {1: "KILLED", 0: "SURVIVED", 2: "HARNESS-ERROR"}.get(rc, f"rc={rc}")
        print(f"{status:14s} {a.prop} {m['name']}")
        if a.v or rc != 1:
            print("\n".join("      " + l[:300] for l in (lines[:6] if rc == 1 else out.splitlines()[-15:])))
        elif lines:
            print("      " + lines[0][:300])
        allok = allok and rc == 1
    return 0 if allok else 1


if __name__ == "__main__":
    sys.exit(main())
